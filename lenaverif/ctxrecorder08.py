"""Recorder for C08 (see ctxrecorder.py): get_recursively, contains and format_update_with calls made by
the repository's test-suite, as records of spec/Trace_ContextOps.tla.  Only well-typed calls on
dictionaries with string keys are recorded; dotted strings with empty components are skipped
(documented as undefined)."""
import copy
import functools

from . import ctxlib as cl

NOOPTS = {"value": False, "def": False, "skip": False, "raise": False, "rec": True, "dv": "obj"}


def _exc_name(exc):
    import lena.core
    return type(exc).__name__ if isinstance(exc, lena.core.LenaException) else "Other:" + type(exc).__name__


def _path_of(keys):
    """the key path named by a get_recursively argument, or None if outside the recorded domain"""
    if isinstance(keys, str):
        parts = keys.split(".") if keys else []
        return parts if all(parts) else None
    if isinstance(keys, list):
        return list(keys) if all(isinstance(k, str) for k in keys) else None
    if isinstance(keys, dict):
        path = []
        while isinstance(keys, dict) and keys:
            if len(keys) != 1:
                return None
            (k, v), = keys.items()
            if not isinstance(k, str):
                return None
            path.append(k)
            keys = v
        if not isinstance(keys, dict):
            if not isinstance(keys, str):
                return None
            path.append(keys)
        return path
    return None


def wrap(ctxmod, records, limit):
    busy = [False]
    orig_get = ctxmod.get_recursively
    orig_contains = ctxmod.contains
    orig_fuw = ctxmod.format_update_with
    sentinel = object()

    def record(call, d, run, dflt_obj=None, result_is_ctx=False):
        if busy[0] or len(records) >= limit or not (isinstance(d, dict) and cl.all_str_keys(d)):
            return run()
        busy[0] = True
        try:
            specials = [(dflt_obj, cl.DEFAULT_LEAF)] if dflt_obj is not None else []
            enc = cl.EncoderS(specials)
            before = enc.enc(copy.deepcopy(d))
        except Exception:    # noqa
            before = None
        finally:
            busy[0] = False
        if before is None:
            return run()
        try:
            res = run()
        except Exception as exc:     # noqa
            try:
                records.append({"call": call, "ctx": before, "out": {"ok": False, "exc": _exc_name(exc)},
                                "post": enc.enc(d), "rs": cl.EMPTY})
            except Exception:    # noqa
                pass
            raise
        busy[0] = True
        try:
            r = d if result_is_ctx else res
            out = {"ok": True, "r": bool(r) if call["op"] == "contains" else enc.enc(r)}
            records.append({"call": call, "ctx": before, "out": out, "post": enc.enc(d), "rs": cl.EMPTY})
        except Exception:    # noqa
            pass
        finally:
            busy[0] = False
        return res

    @functools.wraps(orig_get)
    def get_recursively(d, keys, default=sentinel):
        path = _path_of(keys)
        has = default is not sentinel
        run = (lambda: orig_get(d, keys, default)) if has else (lambda: orig_get(d, keys))
        if path is None or (has and isinstance(default, dict)):
            return run()
        call = {"op": "get", "path": path, "dflt": has, "tpl": [], "uk": "none", "uv": cl.EMPTY, "o": dict(NOOPTS), "lvl": 0}
        # a default equal to something in the context cannot be told apart by identity: use a wrapper leaf
        return record(call, d, run, dflt_obj=default if has and default is not None
                      and not isinstance(default, (bool, int, float, str)) else None) \
            if not has or not isinstance(default, (bool, int, float, str, type(None))) else run()

    @functools.wraps(orig_contains)
    def contains(d, s):
        run = lambda: orig_contains(d, s)
        if not isinstance(s, str) or not s or not all(s.split(".")):
            return run()
        call = {"op": "contains", "path": s.split("."), "dflt": False, "tpl": [], "uk": "none", "uv": cl.EMPTY,
                "o": dict(NOOPTS), "lvl": 0}
        return record(call, d, run)

    @functools.wraps(orig_fuw)
    def format_update_with(key, value, d):
        run = lambda: orig_fuw(key, value, d)
        if not isinstance(key, str) or (isinstance(value, str) and "{" in value):
            return run()
        if isinstance(value, dict) and not cl.all_str_keys(value):
            return run()
        try:
            uv = cl.EncoderS().enc(copy.deepcopy(value))
        except Exception:    # noqa
            return run()
        call = {"op": "fuw", "path": key.split(".") if key else [], "dflt": False, "tpl": [], "uk": "simple",
                "uv": uv, "o": dict(NOOPTS), "lvl": 0}
        # the value's classes must be numbered together with the context's: re-encode inside record
        return record_fuw(call, value, d, run)

    def record_fuw(call, value, d, run):
        if busy[0] or len(records) >= limit or not (isinstance(d, dict) and cl.all_str_keys(d)):
            return run()
        busy[0] = True
        try:
            enc = cl.EncoderS()
            before = enc.enc(copy.deepcopy(d))
            call = dict(call, uv=enc.enc(copy.deepcopy(value)))
        except Exception:    # noqa
            before = None
        finally:
            busy[0] = False
        if before is None:
            return run()
        try:
            res = run()
        except Exception as exc:     # noqa
            try:
                records.append({"call": call, "ctx": before, "out": {"ok": False, "exc": _exc_name(exc)},
                                "post": enc.enc(d), "rs": cl.EMPTY})
            except Exception:    # noqa
                pass
            raise
        try:
            post = enc.enc(d)
            records.append({"call": call, "ctx": before, "out": {"ok": True, "r": post}, "post": post,
                            "rs": cl.EMPTY})
        except Exception:    # noqa
            pass
        return res

    ctxmod.get_recursively = get_recursively
    ctxmod.contains = contains
    ctxmod.format_update_with = format_update_with
