"""Harness side of X04 part 1: lena.structures.graph, hist_to_graph / HistToGraph options, deprecated Graph.

Scenarios are the records of spec/GraphStruct.tla: field names are token lists (joined with "_"),
coords are the columns Cell(col, row) = 10 * col + row, None is -1000.
"""
import copy
import random

from .util import exc_name

NONE = -1000
SEPS = [", ", " ", ",", " ,  "]


def name(tokens):
    return "_".join(tokens)


def cell(col, row):
    return 10 * col + row


def col_len(sc, j):
    if sc["lens"] == "zero":
        return 0
    if sc["lens"] == "uneq" and j == sc["nc"]:
        return 3
    return 2


def make_coords(sc, plus=0):
    return [[cell(j, r) + plus for r in range(1, col_len(sc, j) + 1)] for j in range(1, sc["nc"] + 1)]


def make_names(sc, k=0):
    names = [name(t) for t in sc["names"]]
    if sc["nform"] == "tuple":
        return tuple(names)
    if sc["nform"] == "list":
        return list(names)
    return SEPS[k % len(SEPS)].join(names)


def py_scale(s):
    return None if s == NONE else s


def build(sc, k=0, plus=0, scale="own"):
    import lena.structures
    coords = make_coords(sc, plus)
    if sc["cform"] == "tuple":
        coords = tuple(coords)
    sca = py_scale(sc["scale"]) if scale == "own" else py_scale(scale)
    return lena.structures.graph(coords, field_names=make_names(sc, k), scale=sca), coords


# private attributes of lena objects the harness would like to look at but this version of lena does not have (or has
# in another shape): attribute name -> how often.  Reported as reduced coverage, never as a violation.
NOT_OBSERVABLE = {}


def private(obj, attr):
    """A private attribute of a lena object, or None (and counted) if there is none."""
    try:
        return getattr(obj, attr)
    except AttributeError:
        NOT_OBSERVABLE[attr] = NOT_OBSERVABLE.get(attr, 0) + 1
        return None


def parsed_errors(g):
    """[owner, tail tokens, index] of every error field, read from the (private) parse result; None if that cannot
    be observed in this version."""
    parsed = private(g, "_parsed_error_names")
    if parsed is None:
        return None
    try:
        out = []
        for _, coord_name, tail, ind in parsed:
            out.append({"owner": list(g.field_names).index(coord_name), "tail": tail.split("_") if tail else [], "index": ind})
        return out
    except Exception:   # noqa  (the private structure has another shape)
        NOT_OBSERVABLE["_parsed_error_names (shape)"] = NOT_OBSERVABLE.get("_parsed_error_names (shape)", 0) + 1
        return None


def observe_construct(sc, k=0):
    try:
        g, coords = build(sc, k)
    except Exception as exc:   # noqa
        return {"ok": False, "exc": exc_name(exc)}, None
    res = {"ok": True, "dim": g.dim, "errs": parsed_errors(g)}
    extra = []
    if g.coords != make_coords(sc):
        extra.append("coords attribute differs from the argument")
    if tuple(g.field_names) != tuple(name(t) for t in sc["names"]) or not isinstance(g.field_names, tuple):
        extra.append("field_names attribute is %r" % (g.field_names,))
    if g.scale() != py_scale(sc["scale"]):
        extra.append("scale() is %r" % (g.scale(),))
    res["_extra"] = extra
    return res, g


def ctx_entries(ctx):
    """context.error -> [[key tokens], index]"""
    out = []
    for key, sub in sorted(ctx.get("error", {}).items()):
        if isinstance(sub, dict) and "index" in sub:
            out.append({"key": key.split("_"), "index": sub["index"]})
    return out


BUSY = {"error": {"x_low": {"index": 9}, "q": 1}, "value": 2}


def replay_graph(ctx, rec, k, report):
    """One exported behaviour of part "graph" on the real structure."""
    import lena.core
    import lena.structures
    sc, op, arg, exp = rec["sc"], rec["op"], rec["arg"], rec["res"]
    key = "graph.%s" % op
    names = [name(t) for t in sc["names"]]
    obs, g = observe_construct(sc, k)
    if op == "construct":
        if rec["allowed"]:
            if obs["ok"]:
                report("graph.__init__:accepted:%s" % problem_key(sc), {"scenario": sc, "names": names, "allowed": rec["allowed"]})
            elif obs["exc"] not in rec["allowed"]:
                report("graph.__init__:%s:%s" % (obs["exc"], problem_key(sc)),
                       {"scenario": sc, "names": names, "allowed": rec["allowed"], "observed": obs["exc"]})
            return
        if rec["ambiguous"]:
            if not obs["ok"] and obs["exc"] != "LenaValueError":
                report("graph.__init__:ambiguous:%s" % obs["exc"], {"names": names})
            elif obs["ok"] and obs["dim"] != exp.get("dim", obs["dim"]):
                report("graph.__init__:ambiguous:dim", {"names": names, "dim": obs["dim"]})
            return
        if not obs["ok"]:
            report("graph.__init__:rejected:%s" % obs["exc"], {"scenario": sc, "names": names})
            return
        if obs["dim"] != exp["dim"]:
            report("graph.dim", {"names": names, "expected": exp["dim"], "observed": obs["dim"]})
        if obs["errs"] is not None and sorted(map(repr, obs["errs"])) != sorted(map(repr, [dict(e) for e in exp["errs"]])):
            report("graph:error-fields", {"names": names, "expected": exp["errs"], "observed": obs["errs"]})
        for e in obs["_extra"]:
            report("graph:attributes", {"names": names, "what": e})
        return
    if g is None:
        report("graph.__init__:rejected:%s" % obs.get("exc"), {"scenario": sc, "names": names})
        return
    before = (copy.deepcopy(g.coords), g.field_names, g.scale())
    # what the harness prepares (its own code: an exception here is not lena's)
    other = make_eq_other(sc, arg, k) if op == "eq" else None
    o = ob = c = c0 = upd = None
    if op == "ctx":
        upd = private(g, "_update_context")
        if upd is None:
            return              # not observable in this version
        c0 = {} if arg == "empty" else copy.deepcopy(BUSY)
        c = copy.deepcopy(c0)
    if op == "add":
        o, _ = build(sc, k, plus=100, scale=arg)
        ob = copy.deepcopy(o.coords)
    # the calls of the structure under test
    got = {}
    try:
        if op == "iter":
            got = {"pts": [list(p) for p in g], "rows": [list(p) for p in g.rows()],
                   "tuples": all(isinstance(p, tuple) for p in g)}
        elif op == "eq":
            got = {"eq": (g == other), "ne": (g != other)}
        elif op == "ctx":
            got = {"r": upd(c)}
        elif op == "add":
            got = {"s": g + o}
        elif op == "scale":
            got = {"scale": g.scale()}
        after = (g.coords, g.field_names, g.scale())
    except Exception as exc:   # noqa
        report("%s:raised:%s" % (key if op != "add" else "graph.__add__" + (":error-fields" if g.dim < len(names) else ""),
                                 exc_name(exc)), {"names": names, "arg": arg, "exception": repr(exc)})
        return
    # the judgement (harness code again)
    if op == "iter":
        if got["pts"] != exp["val"] or got["rows"] != exp["val"] or not got["tuples"]:
            report(key, {"names": names, "expected": exp["val"], "iter": got["pts"], "rows": got["rows"]})
    elif op == "eq":
        if got["eq"] is not exp["val"] or got["ne"] is not (not exp["val"]):
            report("graph.__eq__:%s" % arg, {"names": names, "expected": exp["val"], "eq": got["eq"], "ne": got["ne"]})
    elif op == "ctx":
        want = copy.deepcopy(c0)
        for e in exp["val"]:
            want.setdefault("error", {})[name(e["key"])] = {"index": e["index"]}
        if c != want or got["r"] is not None:
            report("graph._update_context:%s" % arg, {"names": names, "initial": c0, "expected": want, "observed": c})
    elif op == "add":
        s, ev = got["s"], exp["val"]
        want_names = tuple(name(t) for t in ev["names"])
        if not isinstance(s, lena.structures.graph) or s is g or s is o:
            report("graph.__add__:not-a-new-graph", {"names": names})
        elif s.coords != ev["coords"] or tuple(s.field_names) != want_names:
            report("graph.__add__", {"names": names, "expected": ev, "coords": s.coords, "field_names": s.field_names})
        if o.coords != ob:
            report("graph.__add__:operand-modified", {"names": names})
    elif op == "scale":
        if got["scale"] != py_scale(exp["val"]):
            report("graph.scale()", {"names": names, "expected": exp["val"], "observed": got["scale"]})
    if after != before:
        report("%s:graph-modified" % key, {"names": names})


def make_eq_other(sc, variant, k):
    import lena.structures
    if variant == "nongraph":
        return make_coords(sc)
    sc2 = copy.deepcopy(sc)
    plus = 0
    if variant == "scale":
        sc2["scale"] = 7 if sc["scale"] != 7 else 8
    elif variant == "names":
        sc2["names"][0] = sc2["names"][0] + ["q"] if not (sc2["names"][0][:1] == ["error"] and len(sc2["names"][0]) > 1) \
            else sc2["names"][0] + ["q"]
        # renaming the first coordinate may orphan its errors: rename consistently
        first = sc["names"][0]
        sc2["names"] = [first + ["q"]] + [(["error"] + first + ["q"] + t[1 + len(first):]) if (
            t[:1] == ["error"] and len(t) > 1 and t[1:1 + len(first)] == first and owner_is(sc, t, first)) else t
            for t in sc["names"][1:]]
        try:
            g, _ = build(sc2, k + 1)
            return g
        except Exception:   # noqa
            sc2 = copy.deepcopy(sc)
            g, _ = build(sc2, k + 1)
            g.field_names = tuple(n + "q" for n in g.field_names)      # a graph that differs in field names only
            return g
    elif variant == "coords":
        g, _ = build(sc2, k + 1)
        g.coords[-1] = list(g.coords[-1])
        if g.coords[-1]:
            g.coords[-1][-1] += 1
        else:
            g.coords = g.coords + [[1]]
        return g
    g, _ = build(sc2, k + 1, plus)
    return g


def owner_is(sc, t, first):
    """does error field t belong to coordinate `first` (and to no other coordinate)?"""
    main = t[1:]
    owners = [c for c in sc["names"] if not (c[:1] == ["error"] and len(c) > 1) and main[:len(c)] == c]
    return owners == [first]


def problem_key(sc):
    k = []
    if sc["cform"] != "list":
        k.append("coords-%s" % sc["cform"])
    if sc["nc"] == 0:
        k.append("no-coords")
    if sc["lens"] == "uneq" and sc["nc"] >= 2:
        k.append("unequal-lengths")
    if sc["nform"] == "list":
        k.append("names-list")
    elif len(sc["names"]) != sc["nc"]:
        k.append("names-count")
    ns = [tuple(t) for t in sc["names"]]
    if len(set(ns)) != len(ns):
        k.append("duplicates")
    if not k:
        k.append("error-names")
    return "+".join(k)


# --------------------------------------------------------------------------- hist_to_graph
def mv_func(kind):
    return {"none": None, "double": lambda b: 2 * b, "pair": lambda b: (b, b + 1),
            "triple": lambda b: (b, b + 1, b + 2)}[kind]


def make_hist(sc, tuples=False):
    import lena.structures
    nb = sc["nb"]
    edges = [[k * (a + 2) for k in range(n + 1)] for a, n in enumerate(nb)]
    if len(nb) == 1:
        bins = [3 + c for c in range(1, nb[0] + 1)]
        return lena.structures.histogram(edges[0], bins)
    bins = [[3 + (i * nb[1] + j + 1) for j in range(nb[1])] for i in range(nb[0])]
    return lena.structures.histogram(edges, bins)


def h2g_names(sc, form):
    n = len(sc["nb"])
    nv = {"none": 1, "double": 1, "pair": 2, "triple": 3}[sc["mv"]]
    names = ["x", "y"][:n] + ["v", "error_v", "error_v_low"][:nv]
    return tuple(names) if form == 0 else SEPS[form % len(SEPS)].join(names)


def observe_h2g(sc, route, k):
    """route 0: the function; 1: the HistToGraph element (make_value as a Variable)."""
    import lena.structures
    import lena.variables
    h = make_hist(sc)
    hb = (copy.deepcopy(h.edges), copy.deepcopy(h.bins))
    scale = {"none": None, "num": 5, "true": True}[sc["sc"]]
    names = h2g_names(sc, k % 3)
    f = mv_func(sc["mv"])
    extra = []
    if route == 0:
        g = lena.structures.hist_to_graph(h, make_value=f, get_coordinate=sc["side"], field_names=names, scale=scale)
    else:
        mv = None if f is None else lena.variables.Variable("m", f)
        el = lena.structures.HistToGraph(make_value=mv, get_coordinate=sc["side"], field_names=names, scale=scale)
        val = (h, {"k": {"n": 1}})
        out = list(el.run([val, 7]))
        if len(out) != 2 or out[1] != 7:
            extra.append("element output %r" % (out,))
        g, c = out[0]
        if c.get("k") != {"n": 1} or "value" not in c:
            extra.append("element context %r" % (c,))
    if (h.edges, h.bins) != hb:
        extra.append("histogram modified")
    return g, extra


def replay_h2g(ctx, rec, k, report):
    import lena.structures
    sc, exp = rec["sc"], rec["res"]["val"]
    for route in (0, 1):
        key = "%s:mv=%s:scale=%s:dim=%d" % ("hist_to_graph" if route == 0 else "HistToGraph", sc["mv"], sc["sc"], len(sc["nb"]))
        try:
            g, extra = observe_h2g(sc, route, k)
        except Exception as exc:   # noqa
            report(key + ":raised:" + exc_name(exc), {"scenario": sc, "exception": repr(exc)})
            continue
        want_names = tuple(name(t) for t in exp["names"])
        if not isinstance(g, lena.structures.graph):
            report(key + ":not-a-graph", {"scenario": sc})
            continue
        if g.coords != exp["coords"] or tuple(g.field_names) != want_names or g.scale() != py_scale(exp["scale"]):
            report(key, {"scenario": sc, "expected": exp, "coords": g.coords, "field_names": g.field_names, "scale": g.scale()})
        nv = len(exp["coords"]) - len(sc["nb"])
        if g.dim != len(sc["nb"]) + 1:
            report(key + ":dim", {"scenario": sc, "dim": g.dim})
        for e in extra:
            report(key + ":side-effect", {"scenario": sc, "what": e})


# --------------------------------------------------------------------------- deprecated Graph
def observe_dg(sc, op, arg):
    import lena.structures
    pts = [tuple(p) for p in sc["pts"]]
    G = lena.structures.Graph(points=list(pts), scale=py_scale(sc["scale"]), sort=sc["sort"])
    try:
        if op == "points":
            return {"ok": True, "val": [list(p) for p in G.points]}
        if op == "rows":
            return {"ok": True, "val": [list(p) for p in G.rows()]}
        if op == "setpoints":
            G.points = []
            return {"ok": True, "val": []}
        if op == "scale":
            return {"ok": True, "val": G.scale()}
        new = G.scale(arg)
        ok = isinstance(new, lena.structures.Graph) and new is not G
        res = {"ok": True, "val": [[p[0], p[1]] for p in new.points], "scale": new.scale()}
        if not ok or G.scale() != py_scale(sc["scale"]) or sorted(G.points) != sorted(pts):
            res["_orig_changed"] = True
        # whole-number factors: the rescaled values are floats equal to integers
        res["val"] = [[p[0], int(p[1]) if float(p[1]) == int(p[1]) else p[1]] for p in res["val"]]
        return res
    except Exception as exc:   # noqa
        return {"ok": False, "exc": exc_name(exc)}


def replay_dg(ctx, rec, report):
    sc, op, arg, exp = rec["sc"], rec["op"], rec["arg"], rec["res"]
    obs = observe_dg(sc, op, arg)
    key = "Graph.%s:sort=%s:scale=%s" % (op, sc["sort"], "None" if sc["scale"] == NONE else sc["scale"])
    if obs.pop("_orig_changed", False):
        report(key + ":original-changed", {"scenario": sc})
    if obs != exp:
        report(key, {"scenario": sc, "arg": arg, "expected": exp, "observed": obs})


# --------------------------------------------------------------------------- C2S: random scenarios
TOKENS = ["x", "y", "z", "E", "t", "error", "low", "high", "cl", "a1"]


def rand_names(rnd):
    ncoord = rnd.randint(1, 4)
    coords = []
    while len(coords) < ncoord:
        c = [rnd.choice(TOKENS) for _ in range(rnd.choice([1, 1, 1, 2]))]
        if c[0] == "error" and len(c) > 1:
            continue
        coords.append(c)
    errs = []
    for _ in range(rnd.randint(0, 3)):
        r = rnd.random()
        if r < 0.75:
            c = rnd.choice(coords)
        else:
            c = [rnd.choice(TOKENS)]
        errs.append(["error"] + c + [rnd.choice(TOKENS) for _ in range(rnd.choice([0, 0, 1, 2]))])
    names = coords + errs
    r = rnd.random()
    if r < 0.12:
        rnd.shuffle(names)
    elif r < 0.2 and names:
        names.append(rnd.choice(names))
    return names


def rand_records(rnd, n):
    """Records for Trace_GraphStruct from random scenarios on the real code."""
    out = []
    for k in range(n):
        r = rnd.random()
        if r < 0.55:
            names = rand_names(rnd)
            sc = {"names": names, "nform": rnd.choice(["tuple", "tuple", "str", "list"] if rnd.random() < 0.3 else ["tuple", "str"]),
                  "nc": len(names) + (rnd.choice([-1, 1]) if rnd.random() < 0.1 else 0),
                  "lens": rnd.choice(["eq", "eq", "eq", "zero", "uneq"]), "cform": "list" if rnd.random() < 0.93 else "tuple",
                  "scale": rnd.choice([NONE, 0, 2, 5])}
            sc["nc"] = max(0, sc["nc"])
            obs, g = observe_construct(sc, k)
            obs.pop("_extra", None)
            if not (obs.get("ok") and obs.get("errs") is None):      # (error fields not observable: cannot be judged)
                out.append({"k": "construct", "sc": sc, "arg": 0, "res": obs, "what": "graph(%r)" % ([name(t) for t in names],)})
            if g is not None and sc["lens"] != "zero":
                which = rnd.choice(["iter", "ctx", "add"])
                try:
                    if which == "iter":
                        out.append({"k": "iter", "sc": sc, "arg": 0, "res": [list(p) for p in g], "what": "iter"})
                    elif which == "ctx":
                        c = {}
                        upd = private(g, "_update_context")
                        if upd is not None:
                            upd(c)
                            out.append({"k": "ctx", "sc": sc, "arg": 0, "res": ctx_entries(c), "what": "_update_context"})
                    else:
                        s2 = rnd.choice([NONE, 3])
                        o, _ = build(sc, k, plus=100, scale=s2)
                        s = g + o
                        out.append({"k": "add", "sc": sc, "arg": s2, "what": "__add__",
                                    "res": {"names": [n.split("_") for n in s.field_names], "coords": s.coords}})
                except Exception as exc:   # noqa
                    out.append({"k": which, "sc": sc, "arg": 0, "res": {"raised": exc_name(exc)}, "what": which + " raised"})
        elif r < 0.8:
            nb = [rnd.randint(1, 5)] if rnd.random() < 0.5 else [rnd.randint(1, 4), rnd.randint(1, 3)]
            sc = {"nb": nb, "side": rnd.choice(["left", "right"]), "mv": rnd.choice(["none", "double", "pair", "triple"]),
                  "sc": rnd.choice(["none", "num", "true"])}
            try:
                g, _ = observe_h2g(sc, rnd.randint(0, 1), k)
                res = {"coords": g.coords, "scale": NONE if g.scale() is None else g.scale()}
            except Exception as exc:   # noqa
                res = {"raised": exc_name(exc)}
            out.append({"k": "h2g", "sc": sc, "arg": 0, "res": res, "what": "hist_to_graph"})
        else:
            coords = rnd.sample(range(-9, 10), rnd.randint(0, 6))
            sc = {"pts": [[c, rnd.randint(-9, 9)] for c in coords], "sort": rnd.random() < 0.6, "scale": rnd.choice([NONE, 0, 2, 3])}
            op = rnd.choice(["points", "rows", "scale", "rescale", "setpoints"])
            arg = (sc["scale"] if sc["scale"] not in (NONE, 0) else 2) * rnd.randint(1, 4) if op == "rescale" else 0
            obs = observe_dg(sc, op, arg)
            obs.pop("_orig_changed", None)
            out.append({"k": "dg", "sc": sc, "op": op, "arg": arg, "res": obs, "what": "Graph." + op})
    return out
