"""Harness side of C10: the ten selective elements, selected / unselected sample values, observation.

Observation is from outside only: an instrumented input iterator (logs when the element pulls a value),
object identity of what the element yields, `sys.addaudithook` for file-system and process events, a
snapshot of the scratch directory, stub converters (LaTeXToPDF `create_command`; a fake `pdftoppm` first on
PATH).  The decision whether an observed event sequence is acceptable is made by spec/Selective.tla
(layout exported by TLC) and spec/Trace_Selective.tla.
"""
from __future__ import print_function

import collections
import copy
import inspect
import io
import json
import operator
import os
import re
import shutil
import stat
import sys

# --------------------------------------------------------------------------- audit hook
_WRITE_EVENTS = {
    "os.mkdir": 0, "os.rmdir": 0, "os.remove": 0, "os.rename": 0, "os.replace": 0, "os.chmod": 0, "os.chown": 0,
    "os.utime": 0, "os.symlink": 1, "os.link": 1, "os.truncate": 0, "os.mkfifo": 0, "os.mknod": 0,
    "shutil.rmtree": 0, "shutil.copyfile": 1, "shutil.move": 1, "shutil.copytree": 1, "shutil.make_archive": 0,
    "tempfile.mkstemp": 0, "tempfile.mkdtemp": 0,
}
_PROC_EVENTS = ("subprocess.Popen", "os.system", "os.exec", "os.posix_spawn", "os.spawn", "os.fork", "os.forkpty",
                "os.startfile")
_LIST_EVENTS = ("os.listdir", "os.scandir", "os.chdir", "glob.glob")


class Recorder(object):
    """Global recorder fed by the audit hook (a hook cannot be removed; it is inert unless active)."""

    def __init__(self):
        self.active = False
        self.events = None
        self.root = None
        self.installed = False

    def install(self):
        if not self.installed:
            sys.addaudithook(self._hook)
            self.installed = True

    def _under_root(self, path):
        if isinstance(path, bytes):
            try:
                path = path.decode()
            except Exception:   # noqa
                return False
        if not isinstance(path, str):
            return False
        return os.path.abspath(path).startswith(self.root)

    def _hook(self, event, args):
        if not self.active:
            return
        try:
            if event == "open":
                path, mode, flags = (list(args) + [None, None, None])[:3]
                writing = bool(mode and any(c in str(mode) for c in "wax+")) or bool(
                    isinstance(flags, int) and flags & (os.O_WRONLY | os.O_RDWR | os.O_CREAT | os.O_TRUNC | os.O_APPEND))
                if writing or self._under_root(path):
                    self.log("open-w" if writing else "open-r", path)
            elif event in _WRITE_EVENTS:
                self.log(event, args[_WRITE_EVENTS[event]] if len(args) > _WRITE_EVENTS[event] else None)
            elif event in _PROC_EVENTS:
                self.log(event, args[0] if args else None)
            elif event in _LIST_EVENTS:
                if args and self._under_root(args[0]):
                    self.log(event, args[0])
        except Exception:   # noqa  (never let the hook break the code under test)
            pass

    def log(self, op, path):
        if isinstance(path, bytes):
            path = path.decode("utf-8", "replace")
        p = str(path)
        if self.root and p.startswith(self.root):
            p = "<S>" + p[len(self.root):]
        self.events.append({"ev": "fs", "op": op, "path": p[:200]})


REC = Recorder()


def core_canon(obj):
    return json.dumps(obj, sort_keys=True, default=repr)


class Feed(object):
    """Input iterator that logs each pull."""

    def __init__(self, items, flags, names, events, waitfor=None):
        self.items, self.flags, self.names, self.events = items, flags, names, events
        self.k = 0
        self.waitfor = waitfor      # asynchronous element: its jobs have exited before the next value is handed out

    def __iter__(self):
        return self

    def __next__(self):
        if self.k >= len(self.items):
            raise StopIteration
        k = self.k
        self.k += 1
        if self.waitfor is not None:
            for entry in list(getattr(self.waitfor, "processes", {}).values()):
                proc = entry[0] if isinstance(entry, tuple) else entry
                if hasattr(proc, "wait"):
                    proc.wait()
        self.events.append({"ev": "in", "sel": bool(self.flags[k]), "w": self.names[k]})
        return self.items[k]
    next = __next__


class _InputRaised(Exception):
    """raised by the input of a run (scenario kind "abort")"""


class _RaisingFeed(Feed):
    def __next__(self):
        if self.k >= len(self.items):
            raise _InputRaised()
        return Feed.__next__(self)
    next = __next__


def observe(el, items, flags, names, root, cut=0, kind="end", wait=False):
    """Run el.run over the items (in two runs of the same element if cut > 0: the first over items[:cut], ended
    normally or by an exception of the input); returns (events, error).  "out" events carry the yielded object."""
    events = []
    REC.install()
    REC.events, REC.root = events, root
    err = None
    so = sys.stdout
    sys.stdout = open(os.devnull, "w")
    REC.active = True
    try:
        segs = [(0, len(items), False)] if not cut else [(0, cut, kind == "abort"), (cut, len(items), False)]
        for lo, hi, raising in segs:
            feed = (_RaisingFeed if raising else Feed)(items[lo:hi], flags[lo:hi], names[lo:hi], events,
                                                       waitfor=el if wait else None)
            try:
                for o in el.run(feed):
                    events.append({"ev": "out", "obj": o})
            except _InputRaised:
                pass
            except Exception as exc:   # noqa
                err = exc
                break
            if hi != len(items) or (cut and hi == cut):
                if lo == 0 and cut:
                    events.append({"ev": "rerun", "kind": kind})
    finally:
        REC.active = False
        sys.stdout.close()
        sys.stdout = so
    events.append({"ev": "end"})
    return events, err


def observe_empty_first(el, avals, names, root, kind):
    """reference for a scenario whose first run contains no selected value: an empty first run, then all of A"""
    REC.install()
    so = sys.stdout
    sys.stdout = open(os.devnull, "w")
    try:
        try:
            list(el.run((_RaisingFeed if kind == "abort" else Feed)([], [], [], [])))
        except _InputRaised:
            pass
        except Exception as exc:   # noqa
            return [{"ev": "end"}], exc
    finally:
        sys.stdout.close()
        sys.stdout = so
    return observe(el, avals, [True] * len(avals), names, root)


# --------------------------------------------------------------------------- canonical forms, snapshots
class Foreign(object):
    """An object the framework knows nothing about."""

    def __init__(self, tag):
        self.tag = tag

    def __repr__(self):
        return "Foreign(%r)" % (self.tag,)


class Writable(object):
    """An object with a write(path) method (selected by Write)."""

    def __init__(self, text):
        self.text = text

    def write(self, path):
        d = os.path.dirname(path)
        if d and not os.path.exists(d):
            os.makedirs(d)
        with open(path, "w") as f:
            f.write(self.text)

    def __repr__(self):
        return "Writable(%r)" % (self.text,)


class OneShot(object):
    """A one-shot iterable without length (an iterator written as a class); `pulled` counts the items handed out."""

    def __init__(self, items):
        self._items = list(items)
        self.pulled = 0

    def __iter__(self):
        return self

    def __next__(self):
        if self.pulled >= len(self._items):
            raise StopIteration
        self.pulled += 1
        return self._items[self.pulled - 1]
    next = __next__

    def __repr__(self):
        return "OneShot(%r)" % (self._items,)


def lazy_state(v):
    """Position of a one-shot source, read WITHOUT advancing it (None: v is not such a source)."""
    if isinstance(v, OneShot):
        return v.pulled
    if inspect.isgenerator(v):
        return inspect.getgeneratorstate(v)
    if isinstance(v, io.IOBase):
        try:
            return "closed" if v.closed else v.tell()
        except (OSError, ValueError):
            return "?"
    if hasattr(v, "__next__") and not hasattr(v, "__len__"):
        return operator.length_hint(v, -1)
    return None


def canon(v, root, depth=0):
    import lena.structures
    if depth > 12:
        return "<deep>"
    if isinstance(v, tuple):
        return ["t"] + [canon(x, root, depth + 1) for x in v]
    if isinstance(v, list):
        return ["l"] + [canon(x, root, depth + 1) for x in v]
    if isinstance(v, dict):
        return {"d": sorted(([repr(k), canon(x, root, depth + 1)] for k, x in v.items()), key=lambda p: p[0])}
    if isinstance(v, str):
        return v.replace(root, "<S>")
    if v is None or isinstance(v, (bool, int, float)):
        return repr(v)
    if isinstance(v, lena.structures.histogram):
        return ["hist", canon(v.edges, root, depth + 1), canon(v.bins, root, depth + 1)]
    if isinstance(v, (Foreign, Writable)):
        return ["obj", type(v).__name__, canon(vars(v), root, depth + 1)]
    st = lazy_state(v)
    if st is not None:
        return ["lazy", type(v).__name__, st]
    return ["repr", type(v).__name__, re.sub(r"0x[0-9a-fA-F]+", "0x?", repr(v)).replace(root, "<S>")]


def snapshot(root):
    snap = {}
    for dp, dns, fns in os.walk(root):
        dns.sort()
        rel = os.path.relpath(dp, root)
        snap[rel + "/"] = "<dir>"
        for fn in sorted(fns):
            p = os.path.join(dp, fn)
            try:
                with open(p, "rb") as f:
                    snap[os.path.join(rel, fn)] = f.read().decode("utf-8", "replace").replace(root, "<S>")
            except OSError:
                snap[os.path.join(rel, fn)] = "<unreadable>"
    return snap


# --------------------------------------------------------------------------- sample values
def _H1():
    import lena.structures
    return lena.structures.histogram([0, 1, 2], [3, 4])


def _H2():
    import lena.structures
    return lena.structures.histogram([[0, 1, 2], [0, 1]], [[1], [2]])


def _H3():
    import lena.structures
    return lena.structures.histogram([[0, 1], [0, 1], [0, 1]], [[[5]]])


def _HH():
    import lena.structures
    return lena.structures.histogram([0, 1, 2], [lena.structures.histogram([0, 1], [1]),
                                                 lena.structures.histogram([0, 1], [2])])


def _HL():
    import lena.structures
    return lena.structures.histogram([0, 1, 2], [[1], [2]])


def _G():
    import lena.structures
    return lena.structures.graph([[0, 1], [2, 3]])


_NTPair = collections.namedtuple("_NTPair", "data context")


class _WriteAttr(object):
    """has an attribute `write` that is not callable (not selected by Write)."""
    write = 5

    def __repr__(self):
        return "_WriteAttr()"


class _MissingStores(dict):
    """a context of a dict subclass whose __missing__ stores what it returns (as collections.defaultdict does):
    asking it for a key with [] changes it"""

    def __missing__(self, key):
        self[key] = {}
        return self[key]


class _MissingPhantom(dict):
    """a context of a dict subclass whose __missing__ answers with a dictionary that is not stored"""

    def __missing__(self, key):
        return {"filetype": "csv", "to_csv": True, "template": "t.tex"}


# unselected values every element must pass: bare numbers, strings, tuples, pairs with unrelated context, foreign objects
COMMON_B = [
    ("int", lambda d: 3),
    ("pair_unrelated", lambda d: (7, {"unrelated": {"x": 1}})),
    ("foreign", lambda d: Foreign("f")),
    ("tuple3", lambda d: (1, 2, 3)),
    ("float", lambda d: 2.5),
    ("pair_empty", lambda d: (7, {})),
    ("none", lambda d: None),
    ("tuple2", lambda d: (1, 2)),
    ("list", lambda d: [1, 2]),
    ("dict", lambda d: {"a": 1}),
    ("pair_foreign", lambda d: (Foreign("g"), {"data": {"name": "d"}})),
    ("namedtuple_pair", lambda d: _NTPair(2.5, {"x": 1})),                   # a tuple subclass that is a (data, context) pair
    ("pair_ordereddict", lambda d: (2.5, collections.OrderedDict(a=1))),     # context of a dict subclass
    ("bytes", lambda d: b"raw bytes"),
    # contexts of dict subclasses that define __missing__ ("a context is a dictionary or its subclass"): looking a
    # key up with [] would insert it (the same object, but no longer unchanged) or invent a value
    ("pair_defaultdict", lambda d: (2.5, collections.defaultdict(dict))),
    ("pair_defaultdict_keys", lambda d: (Foreign("dd"), collections.defaultdict(dict, unrelated={"x": 1}))),
    ("pair_missing_stores", lambda d: (2.5, _MissingStores(a=1))),
    ("pair_missing_phantom", lambda d: (Foreign("ph"), _MissingPhantom(a=1))),
]
# values that look like "nothing" (falsy data, empty containers, empty context)
NOTHING_B = [
    ("zero", lambda d: 0),
    ("empty_str", lambda d: ""),
    ("empty_dict", lambda d: {}),
    ("empty_list", lambda d: []),
    ("false", lambda d: False),
    ("empty_tuple", lambda d: ()),
    ("pair_zero_empty", lambda d: (0, {})),
    ("pair_none_empty", lambda d: (None, {})),
    ("pair_emptystr_ctx", lambda d: ("", {"a": 0})),
    ("pair_emptylist_ctx", lambda d: ([], {"output": {}})),
]
# per element (name prefix): nothing-like values that the element SELECTS and that therefore are not added
NOTHING_SELECTED = {"Write": ("empty_str", "pair_emptystr_ctx"), "RunIf": ("zero", "false", "pair_zero_empty")}


class _RowsAttr(object):
    """has a data attribute called `rows` (not a method): not convertible by ToCSV"""
    rows = 5

    def __repr__(self):
        return "_RowsAttr()"


class _RowsRaises(object):
    """its rows() raises AttributeError: ToCSV treats it as having no rows"""

    def rows(self):
        raise AttributeError("no rows today")

    def __repr__(self):
        return "_RowsRaises()"


STR_B = [
    ("str", lambda d: "text"),
    ("pair_str", lambda d: ("text", {"output": {"filetype": "txt"}})),
]


# configurations added by the clause-coverage audit: the quick tier runs a representative slice of their scenarios
AUDIT_CONFIGS = ("Write_existing_unchanged", "LaTeXToPDF_fail", "LaTeXToPDF_mtime", "RenderLaTeX_callables",
                 "RenderLaTeX_context_template", "RenderLaTeX_strict_callable",
                 "RenderLaTeX_from_data", "MapBins_two_results", "IterateBins_int_bins", "MapGroup_no_results",
                 "MapGroup_two_results", "RunIf_objects")


class ElementSpec(object):
    def __init__(self, name, make, A, B, prepare=None, is_async=False, owner=None, doc=""):
        self.name, self.make, self.A, self.B = name, make, A, B
        self.prepare = prepare or (lambda d: None)
        self.is_async = is_async
        self.owner = owner
        self.doc = doc


class _Tag(object):
    """Run element used inside RunIf: one result per value, two for even data."""

    def run(self, flow):
        import lena.flow
        for v in flow:
            yield ("t", v)
            if lena.flow.get_data(v) % 2 == 0:
                yield ("t2", v)


class _Drop(object):
    def run(self, flow):
        import lena.flow
        for v in flow:
            if lena.flow.get_data(v) > 5:
                yield ("kept", v)


class _Twice(object):
    """Run element: every value twice (second one marked)"""

    def run(self, flow):
        for v in flow:
            yield v
            yield (v, {"second": True})


class _DropAll(object):
    def run(self, flow):
        for v in flow:
            if False:
                yield v


def _write_file(path, text):
    d = os.path.dirname(path)
    if not os.path.exists(d):
        os.makedirs(d)
    with open(path, "w") as f:
        f.write(text)


def _prep_render(d):
    _write_file(os.path.join(d, "templates", "t.tex"), r"value=\VAR{ v } file=\VAR{ output.filetype }" + "\n")
    _write_file(os.path.join(d, "templates", "t2.tex"), r"second \VAR{ v }" + "\n")


def _prep_tex(d):
    for n in ("a1", "a2", "a3"):
        _write_file(os.path.join(d, "tex", n + ".tex"), "tex " + n)
    _write_file(os.path.join(d, "tex", "a3.pdf"), "old pdf")


def _prep_pdf(d):
    for n in ("p1", "p2", "p3"):
        _write_file(os.path.join(d, "pdf", n + ".pdf"), "pdf " + n)
    _write_file(os.path.join(d, "pdf", "p3.png"), "old png")


def _stub_command(texfile_name, outfilename, output_directory, context):
    return ["/bin/cp", texfile_name, outfilename]


def _stub_command_fail(texfile_name, outfilename, output_directory, context):
    """the converter fails for a2.tex (its result is dropped by LaTeXToPDF)"""
    if os.path.basename(texfile_name).startswith("a2"):
        return ["/bin/false"]
    return ["/bin/cp", texfile_name, outfilename]


def _prep_tex_mtime(d):
    _prep_tex(d)
    for n, pdf_newer in (("a4", True), ("a5", False)):
        tex, pdf = os.path.join(d, "tex", n + ".tex"), os.path.join(d, "tex", n + ".pdf")
        _write_file(tex, "tex " + n)
        _write_file(pdf, "old pdf " + n)
        os.utime(tex, (1000000000, 1000000000 + (0 if pdf_newer else 500)))
        os.utime(pdf, (1000000000, 1000000000 + (500 if pdf_newer else 0)))


def _owner_by_basename(result, avalues):
    """k (1-based) of the selected value a converter result stems from: same file name without extension."""
    import lena.flow
    base = os.path.splitext(os.path.basename(str(lena.flow.get_data(result))))[0]
    for k, a in enumerate(avalues):
        if os.path.splitext(os.path.basename(str(lena.flow.get_data(a))))[0] == base:
            return k + 1
    return 0


def make_fake_pdftoppm(bindir):
    os.makedirs(bindir, exist_ok=True)
    p = os.path.join(bindir, "pdftoppm")
    with open(p, "w") as f:
        f.write("#!/bin/sh\n# stand-in for poppler's pdftoppm: pdftoppm <pdf> <root> -<format> -singlefile\n"
                "fmt=${3#-}\necho \"image of $(basename \"$1\")\" > \"$2.$fmt\"\n")
    os.chmod(p, os.stat(p).st_mode | stat.S_IXUSR | stat.S_IXGRP | stat.S_IXOTH)
    return p


def element_specs():
    import lena.core
    import lena.flow
    import lena.output
    import lena.structures
    out = []
    out.append(ElementSpec(
        "ToCSV", lambda d: lena.output.ToCSV(),
        A=[("hist1d_pair", lambda d: (_H1(), {"a": 1})), ("hist2d", lambda d: _H2()),
           ("graph_rows", lambda d: (_G(), {"b": 2})), ("hist1d_bare", lambda d: _H1())],
        B=COMMON_B + STR_B + [("hist_to_csv_false", lambda d: (_H1(), {"output": {"to_csv": False}})),
                              ("hist3d", lambda d: _H3()), ("hist3d_pair", lambda d: (_H3(), {"c": 3})),
                              ("graph_to_csv_false", lambda d: (_G(), {"output": {"to_csv": False, "x": 1}})),
                              # already converted: csv text with the context ToCSV itself would have produced
                              ("csv_text", lambda d: ("0.0,3.0\n1.0,4.0", {"output": {"filetype": "csv", "dirname": "new/csv",
                                                                                   "filename": "t"}})),
                              ("csv_path", lambda d: (os.path.join(d, "out", "new", "t.csv"),
                                                      {"output": {"filetype": "csv", "filepath": "out/new/t.csv"}})),
                              ("hist_to_csv_zero", lambda d: (_H1(), {"output": {"to_csv": 0, "dirname": "new/h"}})),
                              ("obj_rows_raises_attributeerror", lambda d: (_RowsRaises(), {"r": 1})),
                              ("obj_rows_not_callable", lambda d: (_RowsAttr(), {"r": 2})),
                              # option keys ToCSV reads for the values it converts, carried by values it does not convert
                              ("int_duplicate_last_bin_false", lambda d: (3, {"output": {"duplicate_last_bin": False}})),
                              ("int_duplicate_last_bin_true", lambda d: (3, {"output": {"duplicate_last_bin": True}})),
                              ("hist_to_csv_false_dlb_false", lambda d: (_H1(), {"output": {"to_csv": False,
                                                                                          "duplicate_last_bin": False}})),
                              ("csv_text_dlb_false", lambda d: ("0,1\n1,2", {"output": {"filetype": "csv", "to_csv": False,
                                                                                     "duplicate_last_bin": False}}))],
        doc="histograms (1-d, 2-d) and objects with rows() are converted; output.to_csv False, 3-d histograms and "
            "everything else pass"))
    out.append(ElementSpec(
        "Write", lambda d: lena.output.Write(os.path.join(d, "out"), verbose=False),
        A=[("named", lambda d: ("text one", {"output": {"filename": "f1"}})),
           ("writable", lambda d: (Writable("w-text"), {"output": {"filename": "w", "fileext": "dat"}})),
           ("subdir", lambda d: ("text two", {"output": {"filename": "f2", "dirname": "sub", "filetype": "csv"}})),
           ("bare_string", lambda d: "just a string")],
        B=COMMON_B + [("str_write_false", lambda d: ("text", {"output": {"write": False, "filename": "no"}})),
                      ("writable_write_false", lambda d: (Writable("x"), {"output": {"write": False}})),
                      ("hist", lambda d: (_H1(), {"output": {"filename": "h", "dirname": "new/hist"}})),
                      # already written by another Write: data equals the path this Write builds from the context;
                      # the directory of that path does not exist
                      ("already_written", lambda d: (os.path.join(d, "out", "plots/2024", "f.txt"), {"output": {
                          "filename": "f", "dirname": "plots/2024", "fileext": "txt", "changed": False,
                          "filepath": os.path.join(d, "out", "plots/2024", "f.txt")}})),
                      ("already_written_csv", lambda d: (os.path.join(d, "out", "other", "g.csv"), {"output": {
                          "filename": "g", "dirname": "other", "filetype": "csv", "fileext": "csv", "changed": True,
                          "filepath": os.path.join(d, "out", "other", "g.csv")}, "k": 1})),
                      ("write_attr_not_callable", lambda d: (_WriteAttr(), {"output": {"filename": "wa", "dirname": "new/wa"}})),
                      ("int_all_output_keys", lambda d: (3, {"output": {"changed": True, "dirname": "new/int", "filename": "i",
                                                                       "fileext": "ext", "filetype": "csv"}})),
                      ("str_write_false_changed", lambda d: ("text", {"output": {"write": False, "changed": True,
                                                                                "filename": "f1", "fileext": "dat"}})),
                      ("str_write_false_dirname", lambda d: ("text", {"output": {"write": False, "dirname": "new/nowrite",
                                                                                "filename": "n"}}))],
        doc="strings and objects with write() are written unless output.write is False or the string is the very "
            "path this Write would write to (already written by another Write)"))
    out.append(ElementSpec(
        "RenderLaTeX", lambda d: lena.output.RenderLaTeX("t.tex", template_dir=os.path.join(d, "templates")),
        prepare=_prep_render,
        A=[("csv", lambda d: ("f1.csv", {"output": {"filetype": "csv"}, "v": 1})),
           ("csv_template", lambda d: ("f2.csv", {"output": {"filetype": "csv", "template": "t2.tex"}, "v": 2})),
           ("csv_hist", lambda d: (_H1(), {"output": {"filetype": "csv"}, "v": 3}))],
        B=COMMON_B + STR_B + [("tex_typed", lambda d: ("x.tex", {"output": {"filetype": "tex"}, "v": 1})),
                              ("no_filetype", lambda d: ("f.csv", {"output": {"filename": "f"}, "v": 1})),
                              ("already_rendered", lambda d: ("value=1 file=tex\n", {"output": {
                                  "filetype": "tex", "fileext": "tex", "dirname": "new/tex", "filename": "r",
                                  "template": "t.tex"}, "v": 1})),
                              ("csv_uppercase", lambda d: ("f.csv", {"output": {"filetype": "CSV", "dirname": "new/x"}})),
                              ("int_template_key", lambda d: (3, {"output": {"template": "t2.tex", "filetype": "txt"}, "v": 99})),
                              ("tex_typed_template_key", lambda d: ("x.tex", {"output": {"filetype": "tex", "template": "t2.tex",
                                                                                    "fileext": "tex"}, "v": 98}))],
        doc="values with output.filetype == csv are rendered"))
    out.append(ElementSpec(
        "LaTeXToPDF", lambda d: lena.output.LaTeXToPDF(verbose=0, create_command=_stub_command),
        prepare=_prep_tex, is_async=True, owner=_owner_by_basename,
        A=[("tex_changed", lambda d: (os.path.join(d, "tex", "a1.tex"), {"output": {"filetype": "tex", "changed": True}})),
           ("tex_existing_unchanged", lambda d: (os.path.join(d, "tex", "a3.tex"),
                                                 {"output": {"filetype": "tex", "changed": False}})),
           ("tex_no_changed", lambda d: (os.path.join(d, "tex", "a2.tex"), {"output": {"filetype": "tex"}, "k": 1}))],
        B=COMMON_B + STR_B + [("csv_typed", lambda d: ("a.csv", {"output": {"filetype": "csv"}})),
                              ("pdf_typed", lambda d: (os.path.join(d, "tex", "a3.pdf"), {"output": {"filetype": "pdf"}})),
                              ("pdf_typed_new_dir", lambda d: (os.path.join(d, "tex", "new", "b.pdf"), {"output": {
                                  "filetype": "pdf", "dirname": "new", "filename": "b", "changed": True}})),
                              ("tex_path_without_type", lambda d: (os.path.join(d, "tex", "a1.tex"),
                                                                   {"output": {"fileext": "tex", "changed": True}})),
                              ("int_changed_false", lambda d: (3, {"output": {"changed": False, "filetype": "csv"}})),
                              ("pdf_typed_changed_false", lambda d: (os.path.join(d, "tex", "a3.pdf"),
                                                                     {"output": {"filetype": "pdf", "changed": False}}))],
        doc="values with output.filetype == tex are converted by a process; results may come at any later position"))
    out.append(ElementSpec(
        "PDFToPNG", lambda d: lena.output.PDFToPNG(verbose=False),
        prepare=_prep_pdf,
        A=[("pdf", lambda d: (os.path.join(d, "pdf", "p1.pdf"), {"output": {"filetype": "pdf"}})),
           ("pdf_existing_unchanged", lambda d: (os.path.join(d, "pdf", "p3.pdf"),
                                                 {"output": {"filetype": "pdf", "changed": False}})),
           ("pdf_changed", lambda d: (os.path.join(d, "pdf", "p2.pdf"), {"output": {"filetype": "pdf", "changed": True}}))],
        B=COMMON_B + STR_B + [("tex_typed", lambda d: (os.path.join(d, "pdf", "x.tex"), {"output": {"filetype": "tex"}})),
                              ("png_typed", lambda d: (os.path.join(d, "pdf", "p3.png"), {"output": {"filetype": "png"}})),
                              ("png_typed_new_dir", lambda d: (os.path.join(d, "pdf", "new", "q.png"), {"output": {
                                  "filetype": "png", "dirname": "new", "filename": "q", "changed": True}})),
                              ("pdf_path_without_type", lambda d: (os.path.join(d, "pdf", "p1.pdf"),
                                                                   {"output": {"fileext": "pdf", "changed": True}})),
                              ("int_changed_true", lambda d: (3, {"output": {"changed": True, "filetype": "tex"}})),
                              ("png_typed_changed_false", lambda d: (os.path.join(d, "pdf", "p3.png"),
                                                                     {"output": {"filetype": "png", "changed": False}}))],
        doc="values with output.filetype == pdf are converted with pdftoppm"))
    out.append(ElementSpec(
        "HistToGraph", lambda d: lena.structures.HistToGraph(),
        A=[("hist_pair", lambda d: (_H1(), {"a": 1})), ("hist_bare", lambda d: _H1()),
           ("hist_to_graph_true", lambda d: (_H1(), {"histogram": {"to_graph": True}}))],
        B=COMMON_B + STR_B + [("hist_to_graph_false", lambda d: (_H1(), {"histogram": {"to_graph": False}})),
                              ("graph", lambda d: (_G(), {"g": 1})),
                              ("hist_to_graph_zero", lambda d: (_H1(), {"histogram": {"to_graph": 0}})),
                              ("Histogram_element", lambda d: lena.structures.Histogram([0, 1, 2])),
                              ("int_value_key", lambda d: (3, {"value": {"variable": {"name": "zz"}},
                                                               "histogram": {"to_graph": True}})),
                              ("hist_to_graph_false_value_key", lambda d: (_H1(), {"histogram": {"to_graph": False},
                                                                                   "value": {"variable": {"name": "zz"}}}))],
        doc="histograms are transformed unless histogram.to_graph is False"))
    out.append(ElementSpec(
        "MapBins", lambda d: lena.structures.MapBins(lambda x: x + 1, select_bins=int),
        A=[("hist_int_bins", lambda d: (_H1(), {"a": 1})), ("hist_bare", lambda d: _H1())],
        B=COMMON_B + STR_B + [("hist_list_bins", lambda d: _HL()), ("hist_list_bins_pair", lambda d: (_HL(), {"a": 1})),
                              ("hist_hist_bins", lambda d: _HH()),
                              ("int_value_key", lambda d: (3, {"value": {"variable": {"name": "zz"}}})),
                              ("hist_list_bins_value_key", lambda d: (_HL(), {"value": {"variable": {"name": "zz"}}}))],
        doc="histograms whose bins pass select_bins are mapped"))
    out.append(ElementSpec(
        "IterateBins", lambda d: lena.structures.IterateBins(),
        A=[("hist_of_hists", lambda d: _HH()), ("hist_of_hists_var", lambda d: (_HH(), {"variable": {"name": "x"}}))],
        B=COMMON_B + STR_B + [("hist_numbers", lambda d: _H1()), ("hist_numbers_pair", lambda d: (_H1(), {"a": 1})),
                              ("hist_lists", lambda d: _HL()),
                              ("int_variable_key", lambda d: (3, {"variable": {"name": "v9"}, "bin": {"edges_str": "e"}})),
                              ("hist_numbers_variable_key", lambda d: (_H1(), {"variable": {"name": "v9"}, "bins": {"q": 1}}))],
        doc="histograms whose bins are histograms are iterated (one result per bin)"))
    # for RunIf(int, ...) values with int data are selected
    noint = [b for b in COMMON_B if b[0] not in ("int", "pair_unrelated", "pair_empty")] + [
        ("pair_float_unrelated", lambda d: (2.5, {"unrelated": {"x": 1}})), ("pair_str_empty", lambda d: ("s", {}))]
    out.append(ElementSpec(
        "RunIf", lambda d: lena.flow.RunIf(int, _Tag()),
        A=[("odd", lambda d: 5), ("even_pair", lambda d: (6, {"a": 1})), ("odd_pair", lambda d: (7, {"b": 1}))],
        B=noint + STR_B + [("float_pair", lambda d: (2.5, {"a": 1}))],
        doc="RunIf(int, seq): values whose data is an int are run through seq (1 or 2 results)"))
    out.append(ElementSpec(
        "RunIf_drop", lambda d: lena.flow.RunIf(lambda v: isinstance(lena.flow.get_data(v), int), _Drop()),
        A=[("small", lambda d: 1), ("big_pair", lambda d: (9, {"a": 1})), ("small_pair", lambda d: (2, {"b": 1}))],
        B=noint + STR_B,
        doc="RunIf with a sequence that drops some selected values (0 or 1 result)"))
    out.append(ElementSpec(
        "MapGroup", lambda d: lena.flow.MapGroup(lambda v: (lena.flow.get_data(v) + 1, lena.flow.get_context(v)),
                                                 map_scalars=False),
        A=[("group2", lambda d: ([1, 2], {"group": [{"a": 1}, {"a": 1, "b": 2}], "a": 1})),
           ("group1", lambda d: ([5], {"group": [{"c": 3}], "c": 3}))],
        B=COMMON_B + STR_B + [("scalar_with_group_key", lambda d: (5, {"group": [{}]})),
                              ("iterable_without_group", lambda d: ([1, 2], {"n": 1})),
                              ("scalar_output_changed", lambda d: (5, {"output": {"changed": True}, "a": 1})),
                              ("iterable_without_group_changed", lambda d: ([1, 2], {"output": {"changed": True}}))],
        doc="MapGroup(map_scalars=False): values with context.group and iterable data are mapped, scalars pass"))
    # further configurations of the same elements (same sample values)
    by = dict((e.name, e) for e in out)

    def variant(base, name, make, doc, prepare=None):
        b = by[base]
        out.append(ElementSpec(name, make, A=b.A, B=b.B, prepare=prepare or b.prepare, is_async=b.is_async,
                               owner=b.owner, doc=doc))

    def _prep_write(d):
        _write_file(os.path.join(d, "out", "f1.txt"), "text one")       # same content as the "named" sample
        _write_file(os.path.join(d, "out", "output.txt"), "older content")
    variant("ToCSV", "ToCSV_options",
            lambda d: lena.output.ToCSV(separator=";", header="x;y", duplicate_last_bin=False, row_end=" \\\\"),
            "ToCSV with separator, header, row_end, duplicate_last_bin=False")
    variant("Write", "Write_existing", lambda d: lena.output.Write(os.path.join(d, "out"), verbose=False),
            "Write into a directory where some of the files already exist (same / different content)",
            prepare=_prep_write)
    variant("Write", "Write_overwrite",
            lambda d: lena.output.Write(os.path.join(d, "out"), verbose=False, overwrite=True),
            "Write(overwrite=True) with existing files", prepare=_prep_write)
    variant("PDFToPNG", "PDFToPNG_overwrite", lambda d: lena.output.PDFToPNG(format="jpeg", overwrite=True, verbose=False),
            "PDFToPNG(format=jpeg, overwrite=True)")
    variant("HistToGraph", "HistToGraph_middle",
            lambda d: lena.structures.HistToGraph(get_coordinate="middle", field_names=("m", "n"), scale=True),
            "HistToGraph(get_coordinate=middle, field_names, scale=True)")
    variant("MapBins", "MapBins_keep_context",
            lambda d: lena.structures.MapBins(lambda x: (x + 1, {"mapped": True}), select_bins=int,
                                              drop_bins_context=False),
            "MapBins(drop_bins_context=False) with a sequence that adds context")
    variant("LaTeXToPDF", "LaTeXToPDF_overwrite",
            lambda d: lena.output.LaTeXToPDF(verbose=0, overwrite=True, create_command=_stub_command),
            "LaTeXToPDF(overwrite=True): every tex value is handed to a process")
    # ---- configurations added by the clause-coverage audit (options and branches no other configuration reaches)
    variant("Write", "Write_existing_unchanged",
            lambda d: lena.output.Write(os.path.join(d, "out"), verbose=False, existing_unchanged=True),
            "Write(existing_unchanged=True) with existing files", prepare=_prep_write)
    variant("LaTeXToPDF", "LaTeXToPDF_fail",
            lambda d: lena.output.LaTeXToPDF(verbose=0, create_command=_stub_command_fail),
            "LaTeXToPDF whose converter fails for one file: that result is dropped (fan-out 0)")
    b = by["LaTeXToPDF"]
    out.append(ElementSpec(
        "LaTeXToPDF_mtime", lambda d: lena.output.LaTeXToPDF(verbose=0, create_command=_stub_command),
        prepare=_prep_tex_mtime, is_async=True, owner=_owner_by_basename,
        A=[("tex_pdf_newer", lambda d: (os.path.join(d, "tex", "a4.tex"), {"output": {"filetype": "tex"}})),
           ("tex_newer_than_pdf", lambda d: (os.path.join(d, "tex", "a5.tex"), {"output": {"filetype": "tex"}, "k": 2})),
           ("tex_changed", lambda d: (os.path.join(d, "tex", "a1.tex"), {"output": {"filetype": "tex", "changed": True}}))],
        B=b.B, doc="output.changed missing: modification times of tex and pdf decide (pdf newer: no process)"))
    b = by["RenderLaTeX"]
    out.append(ElementSpec(
        "RenderLaTeX_callables",
        lambda d: lena.output.RenderLaTeX(select_template=lambda v: "t2.tex", template_dir=os.path.join(d, "templates"),
                                          select_data=lambda v: lena.flow.get_context(v).get("render") is True),
        prepare=_prep_render,
        A=[("render_true", lambda d: (1, {"render": True, "v": 1})),
           ("render_true_txt", lambda d: ("x", {"render": True, "v": 2, "output": {"filetype": "txt"}}))],
        B=b.B + [("csv_without_render_key", lambda d: ("f.csv", {"output": {"filetype": "csv"}, "v": 3})),
                 ("render_false", lambda d: (1, {"render": False, "v": 4})),
                 ("render_truthy_not_true", lambda d: (1, {"render": 1, "v": 5}))],
        doc="RenderLaTeX with callable select_template and select_data"))
    # no default template: the name comes from context.output.template, or from a callable that can only
    # answer for the values it is meant for (both must be asked for selected values only)
    tpl_a = [("csv_template", lambda d: ("f2.csv", {"output": {"filetype": "csv", "template": "t2.tex"}, "v": 2})),
             ("csv_template_t", lambda d: ("f1.csv", {"output": {"filetype": "csv", "template": "t.tex"}, "v": 1})),
             ("csv_hist_template", lambda d: (_H1(), {"output": {"filetype": "csv", "template": "t.tex"}, "v": 3}))]
    out.append(ElementSpec(
        "RenderLaTeX_context_template",
        lambda d: lena.output.RenderLaTeX(template_dir=os.path.join(d, "templates")),
        prepare=_prep_render, A=tpl_a, B=b.B,
        doc="RenderLaTeX without a default template: context.output.template of the selected values names it"))
    out.append(ElementSpec(
        "RenderLaTeX_strict_callable",
        lambda d: lena.output.RenderLaTeX(select_template=lambda val: val[1]["output"]["template"],
                                          template_dir=os.path.join(d, "templates")),
        prepare=_prep_render, A=tpl_a, B=b.B,
        doc="RenderLaTeX with a callable select_template that can answer only for (data, context) pairs with "
            "output.template"))
    out.append(ElementSpec(
        "RenderLaTeX_from_data",
        lambda d: lena.output.RenderLaTeX("t2.tex", template_dir=os.path.join(d, "templates"), from_data=True),
        prepare=_prep_render,
        A=[("dict_data_csv", lambda d: ({"v": 5}, {"output": {"filetype": "csv"}})),
           ("dict_data_csv2", lambda d: ({"v": 6, "w": 1}, {"output": {"filetype": "csv", "fileext": "csv"}, "v": 0}))],
        B=b.B, doc="RenderLaTeX(from_data=True): the data part is rendered"))
    b = by["MapBins"]
    out.append(ElementSpec(
        "MapBins_two_results", lambda d: lena.structures.MapBins(_Twice(), select_bins=int, drop_bins_context=True),
        A=b.A, B=b.B, doc="MapBins whose sequence yields two values per bin: two histograms per selected value"))
    b = by["IterateBins"]
    out.append(ElementSpec(
        "IterateBins_int_bins", lambda d: lena.structures.IterateBins(select_bins=int),
        A=[("hist_int_bins", lambda d: _H1()), ("hist_int_bins_var", lambda d: (_H1(), {"variable": {"name": "x"}}))],
        B=[x for x in b.B if not x[0].startswith("hist_numbers")] + [("hist_of_hists", lambda d: _HH()),
                                                                      ("hist_of_hists_pair", lambda d: (_HH(), {"a": 1}))],
        doc="IterateBins(select_bins=int): histograms with integer bins are iterated, histograms of histograms pass"))
    b = by["MapGroup"]
    out.append(ElementSpec(
        "MapGroup_no_results", lambda d: lena.flow.MapGroup(_DropAll(), map_scalars=False),
        A=b.A, B=b.B, doc="MapGroup whose sequence yields nothing: a warning and no result (fan-out 0)"))
    out.append(ElementSpec(
        "MapGroup_two_results", lambda d: lena.flow.MapGroup(_Twice(), map_scalars=False),
        A=b.A, B=b.B, doc="MapGroup whose sequence yields two values per item: two groups per selected value"))
    b = by["RunIf"]
    out.append(ElementSpec(
        "RunIf_objects", lambda d: lena.flow.RunIf(lena.flow.Selector(int), lena.core.Sequence(_Tag())),
        A=b.A, B=b.B, doc="RunIf given a Selector and a Sequence object"))
    # ---- values that look like nothing, for every configuration (except where the element selects them)
    done = set()
    for e in out:
        if id(e.B) in done:
            continue
        done.add(id(e.B))
        skip = ()
        for prefix, names in NOTHING_SELECTED.items():
            if e.name.startswith(prefix):
                skip = names
        have = set(n for n, _ in e.B)
        e.B.extend(x for x in NOTHING_B if x[0] not in skip and x[0] not in have)
    return out


# --------------------------------------------------------------------------- value anatomy (spec/SelectiveValue.tla)
# The shapes of values are enumerated by TLC (data kind x context shape along the option path of the element);
# here they are given flesh for each element: the key path of its option, what the leaf values are, and what
# data of each kind looks like for this element.
def _pc(name):
    return {"variable": {"name": name}}


def _HC1():
    """1-d histogram whose bins are (int, context) pairs"""
    import lena.structures
    return lena.structures.histogram([0, 1, 2], [(3, _pc("mean")), (4, _pc("mean"))])


def _HCL():
    """... (list, context) pairs"""
    import lena.structures
    return lena.structures.histogram([0, 1, 2], [([1], _pc("lst")), ([2], _pc("lst"))])


def _HCF():
    """... (float, context) pairs"""
    import lena.structures
    return lena.structures.histogram([0, 1, 2], [(1.5, _pc("mean")), (3.5, _pc("mean"))])


def _H3C():
    """3-d histogram with a (number, context) bin"""
    import lena.structures
    return lena.structures.histogram([[0, 1], [0, 1], [0, 1]], [[[(5, _pc("mean"))]]])


def _HHC():
    """histogram whose bins are (histogram, context) pairs"""
    import lena.structures
    return lena.structures.histogram([0, 1, 2], [(lena.structures.histogram([0, 1], [1]), _pc("inner")),
                                                 (lena.structures.histogram([0, 1], [2]), _pc("inner"))])


def _gen3():
    def events():
        for i in range(3):
            yield i
    return events()


_LAZY_NOSTREAM = [("iter", lambda d: iter([1, 2, 3])), ("gen", lambda d: _gen3()), ("oneshot", lambda d: OneShot([1, 2, 3]))]
_LAZY = _LAZY_NOSTREAM + [("stream", lambda d: io.StringIO(u"line 1\nline 2\n"))]
_CONT = [("pairs", lambda d: [(1, {"a": 1}), (2, {"a": 2, "output": {"filetype": "csv"}})])]
_PLAIN = [("int", lambda d: 3), ("foreign", lambda d: Foreign("v"))]
_NONDICT = {"str": lambda: "results_2024", "none": lambda: None, "tuple": lambda: ("write", True),
            "int": lambda: 7, "list": lambda: [1, 2]}


def _leaves(enable, other, disable=False):
    return {"enable": lambda: copy.deepcopy(enable), "disable": lambda: disable, "other": lambda: other,
            "zero": lambda: 0, "none": lambda: None, "dict": lambda: {}}


class Anatomy(object):
    """How the abstract shapes of SelectiveValue.tla look for one element configuration.
    mode / path: the selection rule; leaves: concrete option values; kinds: data kind -> [(variant, maker(dir))]"""

    def __init__(self, mode, path, leaves, kinds):
        self.mode, self.path, self.leaves, self.kinds = mode, tuple(path), leaves, kinds
        self.depth = len(self.path)

    def context(self, ck, cl, cv):
        def wrap(obj, keys):
            for k in reversed(keys):
                obj = {k: obj}
            return obj
        if ck == "bare":
            return None
        if ck == "absent":
            return wrap({} if cv == "empty" else {"unrelated": {"x": 1}}, self.path[:cl - 1])
        if ck == "cut":
            return wrap(_NONDICT[cv](), self.path[:cl])
        return wrap(self.leaves[cv](), self.path)


def _anatomy_table():
    hist = [("hist1d", lambda d: _H1())]
    hist_cp = [("hist1d", lambda d: _HC1())]
    veto = _leaves(True, "yes")
    t = {}
    t["ToCSV"] = Anatomy("veto", ("output", "to_csv"), veto, {
        "plain": _PLAIN, "target": hist, "target_cp": hist_cp, "near_cp": [("hist3d", lambda d: _H3C())],
        "lazy": _LAZY, "cont_cp": _CONT})
    t["Write"] = Anatomy("veto", ("output", "write"), veto, {
        "plain": _PLAIN, "target": [("str", lambda d: "text"), ("writable", lambda d: Writable("w"))],
        "lazy": _LAZY_NOSTREAM, "cont_cp": _CONT})        # a text stream has write(): Write selects it
    anydata = {"plain": _PLAIN, "target": [("name", lambda d: "f.csv")], "target_cp": hist_cp, "lazy": _LAZY,
               "cont_cp": _CONT}
    t["RenderLaTeX"] = Anatomy("require", ("output", "filetype"), _leaves("csv", "txt"), anydata)
    t["RenderLaTeX_callables"] = Anatomy("require", ("render",), _leaves(True, "yes"), anydata)
    t["LaTeXToPDF"] = Anatomy("require", ("output", "filetype"), _leaves("tex", "csv"), dict(
        anydata, target=[("path", lambda d: os.path.join(d, "tex", "a1.tex"))]))
    t["PDFToPNG"] = Anatomy("require", ("output", "filetype"), _leaves("pdf", "png"), dict(
        anydata, target=[("path", lambda d: os.path.join(d, "pdf", "p1.pdf"))]))
    t["HistToGraph"] = Anatomy("veto", ("histogram", "to_graph"), veto, {
        "plain": _PLAIN, "target": hist, "target_cp": hist_cp, "lazy": _LAZY, "cont_cp": _CONT})
    t["MapBins"] = Anatomy("data", ("value", "variable"), veto, {
        "plain": _PLAIN, "target": hist, "target_cp": hist_cp, "near_cp": [("hist_lists", lambda d: _HCL())],
        "lazy": _LAZY, "cont_cp": _CONT})
    t["IterateBins"] = Anatomy("data", ("variable", "name"), _leaves("x", "y"), {
        "plain": _PLAIN, "target": [("hist_hists", lambda d: _HH())], "target_cp": [("hist_hists", lambda d: _HHC())],
        "near_cp": [("hist_ints", lambda d: _HC1()), ("hist_floats", lambda d: _HCF())], "lazy": _LAZY, "cont_cp": _CONT})
    t["IterateBins_int_bins"] = Anatomy("data", ("variable", "name"), _leaves("x", "y"), {
        "plain": _PLAIN, "target": hist, "target_cp": hist_cp,
        "near_cp": [("hist_hists", lambda d: _HHC()), ("hist_floats", lambda d: _HCF())], "lazy": _LAZY, "cont_cp": _CONT})
    t["RunIf"] = Anatomy("data", ("output", "filetype"), _leaves("csv", "txt"), {
        "plain": [("float", lambda d: 2.5), ("foreign", lambda d: Foreign("v"))], "target": [("int", lambda d: 5)],
        "lazy": _LAZY, "cont_cp": _CONT})
    t["MapGroup"] = Anatomy("presence", ("group",), _leaves([{}, {}], "g"), {
        "plain": [("int", lambda d: 5), ("foreign", lambda d: Foreign("v"))], "target": [("list", lambda d: [1, 2])],
        "lazy": _LAZY, "cont_cp": _CONT})
    return t


def anatomy_of(name):
    """the Anatomy of an element configuration: its own entry, or that of the longest prefix"""
    t = _anatomy_table()
    best = None
    for k in t:
        if (name == k or name.startswith(k + "_")) and (best is None or len(k) > len(best)):
            best = k
    return t[best] if best else None


def anatomy_values(spec, verdicts):
    """[(sample name, maker(dir), descriptor)] for every value shape TLC calls unselected under the rule of this
    element configuration (verdicts: the records exported from SelectiveValue.tla), one per data variant"""
    an = anatomy_of(spec.name)
    out = []
    if an is None:
        return out
    for rec in verdicts:
        if rec["mode"] != an.mode or rec["depth"] != an.depth or rec["verdict"] != "unselected":
            continue
        for vname, mk in an.kinds.get(rec["d"], ()):
            desc = dict((k, rec[k]) for k in ("mode", "depth", "d", "ck", "cl", "cv"))
            name = "v:%s.%s:%s%d:%s" % (rec["d"], vname, rec["ck"], rec["cl"], rec["cv"])

            def make(d, mk=mk, rec=rec):
                data, ctx = mk(d), an.context(rec["ck"], rec["cl"], rec["cv"])
                return data if ctx is None else (data, ctx)
            out.append((name, make, desc))
    out.sort(key=lambda x: x[0])
    return out


def _flat_parts(data):
    import lena.structures
    if isinstance(data, lena.structures.histogram):
        todo, leaves = [data.bins], []
        while todo:
            x = todo.pop()
            if isinstance(x, list):
                todo.extend(reversed(x))
            else:
                leaves.append(x)
        return leaves
    if isinstance(data, list):
        return list(data)
    return []


def value_cells(v, root):
    """the cells of SelectiveValue.tla, read without disturbing the value"""
    pair = isinstance(v, tuple) and len(v) == 2 and isinstance(v[1], dict)
    data = v[0] if pair else v
    return {"ctx": canon(v[1], root) if pair else None, "data": canon(data, root),
            "parts": canon([p[1] for p in _flat_parts(data) if isinstance(p, tuple) and len(p) == 2], root),
            "cursor": lazy_state(data)}


# --------------------------------------------------------------------------- one scenario
class Scenario(object):
    """Reference run on A alone, then the run on the interleaving; produces the tagged event log."""

    def __init__(self, spec, pattern, anames, bnames, root, bobj=None, cut=0, kind="end", wait=False):
        # wait: in the interleaved run every started job has exited before the element gets its next value (the
        # schedule in which a finished - or failed - job is noticed while a later value is handled)
        self.wait = wait
        self.spec, self.pattern, self.root = spec, list(pattern), root
        self.anames, self.bnames = anames, bnames
        self.bobj = list(bobj) if bobj else list(range(1, len(bnames) + 1))
        self.cut, self.kind = cut, kind
        self.problems = []      # harness-level problems (element raised, ...)

    def fresh_dir(self):
        if os.path.isdir(self.root):
            shutil.rmtree(self.root)
        os.makedirs(self.root)
        self.spec.prepare(self.root)

    def run(self):
        spec, root = self.spec, self.root
        amap, bmap = dict(spec.A), dict(spec.B)
        gdesc = dict((n, dsc) for n, _, dsc in getattr(spec, "G", ()))
        bmap.update((n, mk) for n, mk, _ in getattr(spec, "G", ()))
        self.vrecords = []
        # reference: the selected values alone
        self.fresh_dir()
        avals = [amap[n](root) for n in self.anames]
        cut_a = sum(1 for x in self.pattern[:self.cut] if x) if self.cut else 0
        if self.cut and cut_a == 0 and self.kind == "end":
            # the first run of the reference has no values at all: it is still a run
            pass
        ev, err = observe(spec.make(root), avals, [True] * len(avals), self.anames, root,
                          cut=cut_a if self.cut else 0, kind=self.kind) if not (self.cut and cut_a == 0) else \
            observe_empty_first(spec.make(root), avals, self.anames, root, self.kind)
        if err is not None:
            self.problems.append(("reference-raised", "A", repr(err)))
            return None
        ref = [e["obj"] for e in ev if e["ev"] == "out"]
        self.ref_canon = [canon(o, root) for o in ref]
        own = []
        if spec.owner is not None:
            own = [spec.owner(o, avals) for o in ref]
        else:
            k = 0
            for e in ev:
                if e["ev"] == "in":
                    k += 1
                elif e["ev"] == "out":
                    own.append(k)
        fan = [sum(1 for o in own if o == k + 1) for k in range(len(avals))]
        self.ref_snapshot = snapshot(root)
        # the interleaving
        self.fresh_dir()
        avals = [amap[n](root) for n in self.anames]
        bvals = [bmap[n](root) for n in self.bnames]
        for k, first in enumerate(self.bobj):
            if first != k + 1:
                bvals[k] = bvals[first - 1]          # the very same object occurs twice in the flow
        before = [canon(b, root) for b in bvals]
        cells_before = [value_cells(b, root) if n in gdesc else None for n, b in zip(self.bnames, bvals)]
        items, names = [], []
        ia = ib = 0
        for s in self.pattern:
            if s:
                items.append(avals[ia]); names.append(self.anames[ia]); ia += 1
            else:
                items.append(bvals[ib]); names.append(self.bnames[ib]); ib += 1
        ev, err = observe(spec.make(root), items, self.pattern, names, root, cut=self.cut, kind=self.kind,
                          wait=self.wait)
        if err is not None:
            cur = [e["w"] for e in ev if e["ev"] == "in"]
            self.problems.append(("raised", cur[-1] if cur else "?", repr(err)))
        # what happened to each generated value that the element pulled (judged by Trace_SelectiveValue.tla)
        pulled = [e["w"] for e in ev if e["ev"] == "in"]
        yielded = [e["obj"] for e in ev if e["ev"] == "out"]
        for i, (n, b) in enumerate(zip(self.bnames, bvals)):
            if cells_before[i] is None or n not in pulled:
                continue
            after = value_cells(b, root)
            self.vrecords.append((n, dict(
                gdesc[n], same=any(o is b for o in yielded),
                touched=[c for c in ("ctx", "data", "parts") if after[c] != cells_before[i][c]],
                cursor=0 if after["cursor"] == cells_before[i]["cursor"] else 1,
                raised=bool(err is not None and pulled[-1] == n))))
        used = set()
        trace = [{"ev": "begin", "pat": [bool(x) for x in self.pattern], "fan": fan, "own": own,
                  "async": bool(spec.is_async), "bobj": list(self.bobj), "cut": self.cut, "kind": self.kind,
                  "w": spec.name}]
        cur = "?"
        for e in ev:
            if e["ev"] == "in":
                cur = e["w"]
                trace.append(e)
            elif e["ev"] == "rerun":
                trace.append(dict(e, w=spec.name))
            elif e["ev"] == "fs":
                trace.append(dict(e, w=cur))
            elif e["ev"] == "out":
                o = e["obj"]
                hit = [i for i, b in enumerate(bvals) if b is o]
                if hit:
                    i = hit[0]
                    same = canon(o, root) == before[i]
                    trace.append({"ev": "out", "k": "u" if same else "m", "i": i + 1, "w": self.bnames[i]})
                else:
                    c = canon(o, root)
                    r = 0
                    for idx, rc in enumerate(self.ref_canon):
                        if idx not in used and rc == c:
                            r = idx + 1
                            used.add(idx)
                            break
                    rec = {"ev": "out", "k": "s", "i": r, "w": cur}
                    if r == 0:
                        rec["val"] = core_canon(c)[:300]
                    trace.append(rec)
            elif e["ev"] == "end":
                snap = snapshot(root)
                mutated = [self.bnames[i] for i, b in enumerate(bvals) if canon(b, root) != before[i]]
                trace.append({"ev": "end", "fsok": snap == self.ref_snapshot and err is None, "mutated": mutated,
                              "raised": "" if err is None else type(err).__name__, "w": spec.name})
                if snap != self.ref_snapshot:
                    self.fsdiff = sorted(set(snap.items()) ^ set(self.ref_snapshot.items()))[:6]
        self.fan, self.own = fan, own
        return trace
