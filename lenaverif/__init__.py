"""Model-based verification harness for ynikitenko/lena (TLA+ specs in ../spec)."""
