"""C05 (round 8): replay of spec/FillEdge.tla on real lena elements.

Two dimensions of a chain pre* acc post*: the KIND OF OBJECT a selector returns (True/False and truthy / falsy
non-bools) and ABNORMAL ENDINGS inside an element (a callable, predicate or selector that raises StopIteration or
another exception when it meets a given datum).  Every exported chain is driven by Sequence.run, FillComputeSeq,
FillSeq and Split (several bufsizes, tuple and FillComputeSeq branch); the outcome (status, exception class, results
yielded before the end) is compared with the outcome the specification gives.
"""
import re

NONE = -1000


class Truth(object):
    def __init__(self, truth):
        self.truth = truth

    def __bool__(self):
        return self.truth

    __nonzero__ = __bool__

    def __repr__(self):
        return "Truth(%r)" % self.truth


class Len0(object):
    def __len__(self):
        return 0


def result_object(kind):
    """A fresh object of the kind (the truth value is the specification's business, not this table's)."""
    if kind == "True":
        return True
    if kind == "False":
        return False
    if kind == "one":
        return 1
    if kind == "zero":
        return 0
    if kind == "two":
        return 2
    if kind == "empty_str":
        return ""
    if kind == "str_x":
        return "x"
    if kind == "none":
        return None
    if kind == "empty_list":
        return []
    if kind == "list_0":
        return [0]
    if kind == "obj_true":
        return Truth(True)
    if kind == "obj_false":
        return Truth(False)
    if kind == "zero_float":
        return 0.0
    if kind == "nan":
        return float("nan")
    if kind == "len0":
        return Len0()
    if kind == "match":
        return re.match("a", "a")
    raise ValueError(kind)


def inc(v):
    return v + 1


def ident(v):
    return v


def predicate(ko, ke):
    def pred(v):
        return result_object(ko if v % 2 == 1 else ke)
    return pred


EXC = {"StopIteration": StopIteration, "ValueError": ValueError}


def faulty(at, exc, otherwise):
    """otherwise(v), but raises exc at the datum `at`."""
    def fn(v):
        if v == at:
            raise EXC[exc]("fault at %r" % (v,))
        return otherwise(v)
    return fn


def yes(v):
    return True


def no(v):
    return False


def build_el(el, variant=0):
    import lena.flow
    t = el["t"]
    if t == "inc":
        return inc
    if t in ("filter", "runif"):
        pred = predicate(el["ko"], el["ke"])
        if variant % 2:
            pred = lena.flow.Selector(pred)           # the same predicate given as a Selector
        return lena.flow.Filter(pred) if t == "filter" else lena.flow.RunIf(pred, inc)
    if t == "fault":
        h, at, exc = el["h"], el["at"], el["e"]
        if h == "call":
            return faulty(at, exc, ident)
        if h == "filter":
            return lena.flow.Filter(faulty(at, exc, yes))
        if h == "runif_sel":
            return lena.flow.RunIf(faulty(at, exc, no), inc)
        if h == "runif_in":
            return lena.flow.RunIf(yes, faulty(at, exc, ident))
    raise ValueError(el)


def build_acc(a):
    import lena.flow
    import lena.math
    return lena.math.Sum() if a == "sum" else lena.flow.StoreFilled(yield_as_a_group=False)


def el_key(el):
    t = el["t"]
    if t == "inc":
        return "inc"
    if t in ("filter", "runif"):
        return "%s(odd->%s,even->%s)" % (t, el["ko"], el["ke"])
    return "fault(%s,at=%s,%s)" % (el["h"], el["at"], el["e"])


def chain_key(ch):
    return "%s|%s|%s" % ("+".join(el_key(e) for e in ch["pre"]), ch["acc"], "+".join(el_key(e) for e in ch["post"]))


def _consume(results):
    """(status, exception class, results yielded before the end)."""
    out = []
    try:
        for r in results:
            out.append(r)
    except Exception as exc:     # noqa
        return ["raised", type(exc).__name__, out]
    return ["ok", "", out]


def drive(ch, n_values, drv, bs=None, form="tuple", variant=0):
    """One driver on fresh elements: [status, exception class, results so far]."""
    import lena.core
    pre = [build_el(e, variant) for e in ch["pre"]]
    post = [build_el(e, variant) for e in ch["post"]]
    acc = build_acc(ch["acc"])
    els = pre + [acc] + post
    flow = iter(range(n_values))
    try:
        if drv == "run":
            results = lena.core.Sequence(*els).run(flow)
        elif drv == "split":
            branch = tuple(els) if form == "tuple" else lena.core.FillComputeSeq(*els)
            results = lena.core.Split([branch], bufsize=None if bs == NONE else bs).run(flow)
        elif drv == "fill_compute_seq":
            s = lena.core.FillComputeSeq(*els)
            for v in flow:
                try:
                    s.fill(v)
                except lena.core.LenaStopFill:
                    break
            results = s.compute()
        elif drv == "fill_seq":
            s = lena.core.FillSeq(*(pre + [acc]))
            for v in flow:
                try:
                    s.fill(v)
                except lena.core.LenaStopFill:
                    break
            results = lena.core.Sequence(*post).run(acc.compute())
        else:
            raise ValueError(drv)
    except Exception as exc:     # noqa
        return ["raised", type(exc).__name__, []]
    return _consume(results)


def drivers(n_values, k):
    sizes = list(range(1, n_values + 2)) + [1000, NONE]
    ds = [("run", None, "tuple"), ("fill_compute_seq", None, "tuple"), ("fill_seq", None, "tuple")]
    for j, bs in enumerate(sizes):
        ds.append(("split", bs, "tuple" if (j + k) % 2 else "fcseq"))
    return ds


def has_fault(ch):
    return any(e["t"] == "fault" for e in ch["pre"] + ch["post"])


def nonbool(ch):
    return any(e["t"] in ("filter", "runif") and not {e["ko"], e["ke"]} <= {"True", "False"} for e in ch["pre"] + ch["post"])


def replay(col, mini, rec, k):
    """Every driver on the chain of one exported behaviour.  mini.fail(signature, size, key tail, detail)."""
    ch, n_values = rec["ch"], rec["N"]
    exp_st, exp_out, allowed = rec["st"], list(rec["out"]), list(rec["allowed"])
    size = (len(ch["pre"]) + len(ch["post"]), n_values, chain_key(ch))
    tail = "%s:N=%d" % (chain_key(ch), n_values)
    dim = "fault" if has_fault(ch) else "selector-result"
    for drv, bs, form in drivers(n_values, k):
        st, cls, out = drive(ch, n_values, drv, bs, form, variant=k)
        col.case(["edge", drv, bs, form, ch, n_values, k % 2], nontrivial=n_values > 0)
        where = tail + (":bufsize=" + ("None" if bs == NONE else str(bs)) if drv == "split" else "")
        detail = {"chain": ch, "N": n_values, "driver": drv, "bufsize": bs, "form": form,
                  "expected": {"st": exp_st, "exc_in": allowed, "out": exp_out}, "observed": {"st": st, "exc": cls, "out": out}}
        if st != exp_st:
            # results where an error is due (an error swallowed: "quiet end"), or the reverse
            what = "quiet-end" if exp_st == "raised" else "raised:" + cls
            mini.fail("edge:%s:%s:%s" % (dim, drv, what), size, where, detail)
        elif out != exp_out:
            mini.fail("edge:%s:%s:results" % (dim, drv), size, where, detail)
        elif st == "raised" and cls not in allowed:
            mini.fail("edge:%s:%s:exception-class:%s" % (dim, drv, cls), size, where, detail)


# ------------------------------------------------------------------ random chains (C2S)
KINDS = ["True", "False", "one", "zero", "two", "empty_str", "str_x", "none", "empty_list", "list_0", "obj_true",
         "obj_false", "zero_float", "nan", "len0", "match"]


def random_el(rnd, max_at):
    r = rnd.random()
    if r < 0.15:
        return {"t": "inc"}
    if r < 0.65:
        return {"t": rnd.choice(["filter", "filter", "runif"]), "ko": rnd.choice(KINDS), "ke": rnd.choice(KINDS)}
    return {"t": "fault", "h": rnd.choice(["call", "filter", "runif_sel", "runif_in"]), "at": rnd.randint(0, max_at),
            "e": rnd.choice(["StopIteration", "StopIteration", "ValueError"])}


def record_random(col, rnd, count):
    trace = []
    for k in range(count):
        n_values = rnd.randint(0, 8)
        ch = {"pre": [random_el(rnd, n_values + 2) for _ in range(rnd.randint(0, 3))], "acc": rnd.choice(["sum", "store"]),
              "post": [random_el(rnd, n_values + 2) for _ in range(rnd.randint(0, 2))]}
        drv, bs, form = rnd.choice(drivers(n_values, k))
        st, cls, out = drive(ch, n_values, drv, bs, form, variant=k)
        col.case(["edge-random", drv, bs, form, ch, n_values], nontrivial=n_values > 0)
        trace.append({"ch": ch, "N": n_values, "drv": drv, "bs": NONE if bs is None else bs, "st": st, "exc": cls, "out": out})
    return trace
