"""Harness for spec/Output.tla: runs the real chain

    ToCSV, MakeFilename, Write, RenderLaTeX, Write, LaTeXToPDF, PDFToPNG

in a scratch directory over histories of runs (changed data, changed template, deleted files) with stub
converters, and records for every run what the statement talks about: the content of the files named
by the yielded values (decoded to template / data versions), which files were written (audit hook on
`open`), which converters were launched (the stubs log their invocations), output.changed of the
yielded values.  The records are judged by spec/Trace_Output.tla only.

LaTeXToPDF gets a `create_command` that runs a stub script writing "PDF(<tex content>|<csv content>)";
PDFToPNG calls `pdftoppm`: a fake one is first on PATH and writes "PNG(<pdf content>)".
"""
from __future__ import print_function

import contextlib
import io
import json
import os
import re
import shutil
import sys

from . import core

KINDS = ("csv", "tex", "pdf", "png")

_LATEX_STUB = """#!/bin/sh
# $1 tex file (its first line names the csv file), $2 pdf file
read -r csv < "$1"
{ printf 'PDF('; cat "$1"; printf '|'; cat "$csv" 2>/dev/null; printf ')'; } > "$2"
echo "latex $1" >> "%(log)s"
"""
_PDFTOPPM_STUB = """#!/bin/sh
# pdftoppm <pdf> <root> -png -singlefile
{ printf 'PNG('; cat "$1"; printf ')'; } > "$2.png"
echo "pdftoppm $1" >> "%(log)s"
"""

_audit = {"on": False, "root": None, "writes": [], "installed": False}


def _hook(event, args):
    if event == "open" and _audit["on"]:
        path, mode = args[0], args[1]
        if isinstance(path, str) and isinstance(mode, str) and path.startswith(_audit["root"]) \
                and any(c in mode for c in "wax+"):
            _audit["writes"].append(path)


class Plot(object):
    """Naming and data of one plot.  Odd plots are histograms, even ones graphs; the second one lives
    in a sub-directory given through context.output.dirname, the third has a path in its file name."""

    def __init__(self, p):
        self.p = p
        self.name = {1: "plot1", 2: "plot2", 3: os.path.join("deep", "er", "plot3")}.get(p, "plot%d" % p)
        self.dirname = "sub" if p == 2 else ""

    def data(self, version):
        import lena.structures
        if self.p % 2:
            h = lena.structures.histogram([0, 1, 2, 3])
            h.fill(0.5, version)
            h.fill(1.5, self.p)
            return h
        return lena.structures.graph([[0, 1, 2], [version, self.p, 7]])

    def context(self):
        ctx = {"name": self.name}
        if self.dirname:
            ctx["output"] = {"dirname": self.dirname}
        return ctx

    def path(self, outdir, kind):
        return os.path.join(outdir, self.dirname, self.name + "." + kind)


class Tap(object):
    """Pass-through element that remembers the text produced for each plot (the content the
    files must have: 'exactly the content produced from the current data')."""

    def __init__(self):
        self.seen = {}

    def run(self, flow):
        import lena.flow
        for val in flow:
            data, context = lena.flow.get_data_context(val)
            if isinstance(data, str):
                self.seen[context.get("name")] = data
            yield val


class Workspace(object):
    def __init__(self, root):
        self.root = root
        shutil.rmtree(root, ignore_errors=True)
        self.bin = os.path.join(root, "bin")
        self.tpl = os.path.join(root, "tpl")
        self.log = os.path.join(root, "invocations.log")
        os.makedirs(self.bin)
        os.makedirs(self.tpl)
        for name, text in (("latexstub", _LATEX_STUB), ("pdftoppm", _PDFTOPPM_STUB)):
            path = os.path.join(self.bin, name)
            with open(path, "w") as f:
                f.write(text % {"log": self.log})
            os.chmod(path, 0o755)
        self.nhist = 0
        if not _audit["installed"]:
            sys.addaudithook(_hook)
            _audit["installed"] = True

    @contextlib.contextmanager
    def activated(self):
        """Fake pdftoppm first on PATH; file writes below the workspace are audited."""
        old = os.environ.get("PATH", "")
        os.environ["PATH"] = self.bin + os.pathsep + old
        _audit["root"] = self.root
        try:
            yield self
        finally:
            os.environ["PATH"] = old
            _audit["on"] = False

    def write_template(self, version, stamp):
        path = os.path.join(self.tpl, "plot.tex")
        with open(path, "w") as f:
            # first line: the csv file the plot is made from; then the template proper
            f.write("\\VAR{ output.filepath }\n%% template version %d for \\VAR{ name }\n" % version)
        # jinja2 reloads a template when its modification time differs
        os.utime(path, (stamp, stamp))

    def pipeline(self, outdir, st):
        import lena.core
        import lena.output
        cmd = lambda tex, pdf, d, ctx: [os.path.join(self.bin, "latexstub"), tex, pdf]
        kw = {"check": {}, "existing_unchanged": {"existing_unchanged": True}, "overwrite": {"overwrite": True}}
        self.tap_csv, self.tap_tex = Tap(), Tap()
        return lena.core.Sequence(
            lena.output.ToCSV(),
            self.tap_csv,
            lena.output.MakeFilename("{{name}}"),
            lena.output.Write(outdir, verbose=False, **kw[st["m1"]]),
            lena.output.RenderLaTeX("plot.tex", template_dir=self.tpl),
            self.tap_tex,
            lena.output.Write(outdir, verbose=False, **kw[st["m2"]]),
            lena.output.LaTeXToPDF(overwrite=st["lo"], verbose=0, create_command=cmd),
            lena.output.PDFToPNG(overwrite=st["po"], verbose=False),
        )


def run_history(ws, np_, st, steps, same_objects=False):
    """One history: steps = list of {"del": [[p, kind]..], "data": [p..], "tpl": bool} (the touches before
    each run; the first run starts from an empty output directory).  Returns the list of run records."""
    ws.nhist += 1
    outdir = os.path.join(ws.root, "out%d" % ws.nhist)
    plots = [Plot(p) for p in range(1, np_ + 1)]
    data_ver = {p.p: 1 for p in plots}
    tpl_ver = 1
    ws.write_template(tpl_ver, 1000000000)
    texts = {p.p: {"csv": {}, "tex": {}} for p in plots}     # version -> text produced
    seq = ws.pipeline(outdir, st) if same_objects else None
    records = []

    def decode(p, kind, path):
        """File -> [a, t, d] of OutputRef.tla (version -1: a content that was never produced)."""
        if not os.path.exists(path):
            return {"a": True, "t": 0, "d": 0}
        with open(path) as f:
            text = f.read()
        tx = texts[p]
        if kind == "csv":
            d = [v for v, t in tx["csv"].items() if t == text]
            return {"a": False, "t": 0, "d": max(d) if d else -1}
        if kind == "tex":
            t = [v for v, x in tx["tex"].items() if x == text]
            return {"a": False, "t": max(t) if t else -1, "d": 0}
        pre, post = ("PDF(", ")") if kind == "pdf" else ("PNG(PDF(", "))")
        for tv, tt in sorted(tx["tex"].items(), reverse=True):
            for dv, dt in sorted(tx["csv"].items(), reverse=True):
                if text == pre + tt + "|" + dt + post:
                    return {"a": False, "t": tv, "d": dv}
        return {"a": False, "t": -1, "d": -1}

    for k, step in enumerate(steps):
        for p, kind in step.get("del", []):
            path = plots[p - 1].path(outdir, kind)
            if os.path.exists(path):
                os.remove(path)
        for p in step.get("data", []):
            data_ver[p] += 1
        if step.get("tpl"):
            tpl_ver += 1
            ws.write_template(tpl_ver, 1000000000 + 10 * tpl_ver)
        if not same_objects or seq is None:
            seq = ws.pipeline(outdir, st)
        flow = [(pl.data(data_ver[pl.p]), pl.context()) for pl in plots]
        open(ws.log, "w").close()
        _audit["writes"] = []
        _audit["on"] = True
        exc = ""
        out = []
        try:
            with contextlib.redirect_stdout(io.StringIO()):
                for val in seq.run(iter(flow)):
                    out.append(val)
        except Exception as e:   # noqa
            exc = type(e).__name__
        _audit["on"] = False
        writes = list(_audit["writes"])
        with open(ws.log) as f:
            log = [line.split(" ", 1) for line in f.read().splitlines() if " " in line]
        for pl in plots:
            if pl.name in ws.tap_csv.seen:
                texts[pl.p]["csv"][data_ver[pl.p]] = ws.tap_csv.seen[pl.name]
            if pl.name in ws.tap_tex.seen:
                texts[pl.p]["tex"][tpl_ver] = ws.tap_tex.seen[pl.name]
        obs = []
        for pl in plots:
            paths = {kind: pl.path(outdir, kind) for kind in KINDS}
            mine = [v for v in out if isinstance(v, tuple) and len(v) == 2 and isinstance(v[1], dict)
                    and v[1].get("name") == pl.name]
            ch, path_ok = "U", False
            if len(mine) == 1:
                data, ctx = mine[0]
                path_ok = data == paths["png"]
                c = ctx.get("output", {}).get("changed", "U")
                ch = "T" if c is True else "F" if c is False else "U"
            obs.append({
                "files": {kind: decode(pl.p, kind, paths[kind]) for kind in KINDS},
                "wrote": {kind: paths[kind] in writes for kind in ("csv", "tex")},
                "launched": {"pdf": sum(1 for c, a in log if c == "latex" and a == paths["tex"]) > 0,
                             "png": sum(1 for c, a in log if c == "pdftoppm" and a == paths["pdf"]) > 0},
                "nlaunch": sum(1 for c, a in log if a in (paths["tex"], paths["pdf"])),
                "ch": ch, "path_ok": path_ok, "nvals": len(mine)})
        others = [w for w in writes if not any(w == pl.path(outdir, kd) for pl in plots for kd in KINDS)]
        records.append({"touched": {"del": [list(x) for x in step.get("del", [])], "data": list(step.get("data", [])),
                                    "tpl": bool(step.get("tpl"))},
                        "obs": obs, "exc": exc, "stray": len(others) + len(out) - sum(o["nvals"] for o in obs)})
    shutil.rmtree(outdir, ignore_errors=True)
    return records


# ------------------------------------------------------------------------------------------
# validation by Trace_Output.tla (all histories side by side in one TLC run per shard)

# order of the predicates along the chain: the first failing one names the violation
PRIORITY = ["RunRaised", "Yielded", "Current_csv", "Current_tex", "Changed", "Regenerated_pdf", "Current_pdf",
            "Regenerated_png", "Current_png", "NoRedo"]
_BAD_RE = re.compile(r'^<<"BAD", (\d+), (\d+), "(\w+)", (\d+)>>', re.M)
_END_RE = re.compile(r'^<<"END", (\d+)>>', re.M)


def validate_shard(workdir, recs, label):
    """recs: [{np, set, runs}].  -> ({history index: [(run index, predicate, plot)]}, stats)"""
    path = os.path.join(workdir, "%s.json" % label)
    with open(path, "w") as f:
        json.dump([{"np": r["np"], "set": r["set"], "runs": r["runs"]} for r in recs], f)
    res = core.run_tlc("Trace_Output", "Trace_Output.cfg", workdir, workers=1, env={"TRACE_FILE": path}, timeout=3000)
    os.remove(path)
    stats = {"cfg": "Trace_Output.cfg", "generated": res.generated, "distinct": res.distinct, "wall": res.wall,
             "exit": res.exit, "violated": res.violated, "tail": res.out[-2500:] if res.exit != 0 else ""}
    bad = {}
    if res.exit == 0:
        ended = set(int(x) for x in _END_RE.findall(res.out))
        if len(ended) != len(recs):
            stats["exit"] = -1
            stats["tail"] = "only %d of %d histories were consumed by Trace_Output" % (len(ended), len(recs))
        for hi, j, pred, p in _BAD_RE.findall(res.out):
            bad.setdefault(int(hi) - 1, []).append((int(j) - 1, pred, int(p)))
    return bad, stats


def touch_sig(t):
    parts = ["del_%s%d" % (k, p) for p, k in t["del"]] + ["data%d" % p for p in t["data"]] + (["tpl"] if t["tpl"] else [])
    return "+".join(parts) or "none"


def _shard_job(args):
    import hashlib
    workdir, shard, items, repo = args
    if repo not in sys.path:
        sys.path.insert(0, repo)
    d = os.path.join(workdir, "shard_%s" % shard)
    ws = Workspace(os.path.join(d, "ws"))
    recs = []
    with ws.activated():
        for gi, np_, st, steps, same in items:
            runs = run_history(ws, np_, st, steps, same_objects=same)
            recs.append({"np": np_, "set": st, "runs": runs, "same_objects": same, "gi": gi})
    bad, stats = validate_shard(d, recs, "trace")
    hashes = [hashlib.md5(core.canon([r["np"], r["set"], r["runs"]]).encode()).hexdigest()
              for i, r in enumerate(recs) if i not in bad and len(r["runs"]) > 1]
    out = {"n": len(recs), "runs": sum(len(r["runs"]) for r in recs),
           "bad": [(recs[i], v) for i, v in sorted(bad.items())], "hashes": hashes, "stats": stats,
           "samples": [r for i, r in enumerate(recs) if i not in bad and len(r["runs"]) > 2][:1]}
    shutil.rmtree(d, ignore_errors=True)
    return out


class _Res(object):
    def __init__(self, st):
        self.generated, self.distinct, self.wall, self.exit = st["generated"], st["distinct"], st["wall"], st["exit"]
        self.coverage = {}


def settings_sig(st):
    parts = []
    if st["m1"] != "check":
        parts.append("w1=" + st["m1"])
    if st["m2"] != "check":
        parts.append("w2=" + st["m2"])
    if st["lo"]:
        parts.append("latex_overwrite")
    if st["po"]:
        parts.append("png_overwrite")
    return ",".join(parts) or "default"


def check_histories(ctx, items, what, min_shard=40, reported=None):
    """items: list of (np, settings, steps, same_objects).  Replays each history on the real chain,
    validates the recorded runs with Trace_Output.tla, accounts them, and reports one violation per
    (first failing predicate, minimal set of touches of the failing run); `reported` collects these pairs
    across calls so that a later (sparser) batch does not report the same failure under another name."""
    import multiprocessing
    if not items:
        return 0
    nsh = max(1, min(ctx.nworkers, (len(items) + min_shard - 1) // min_shard))
    shards = [[] for _ in range(nsh)]
    for gi, it in enumerate(items):
        shards[gi % nsh].append((gi,) + tuple(it))
    jobs = [(ctx.workdir, "%s%d" % (what, k), sh, ctx.repo) for k, sh in enumerate(shards)]
    if nsh == 1:
        outs = [_shard_job(jobs[0])]
    else:
        pool = multiprocessing.get_context("fork").Pool(nsh)
        try:
            outs = pool.map(_shard_job, jobs)
        finally:
            pool.close()
            pool.join()
    nacc = 0
    found = {}     # predicate -> list of (touch set, settings signature, rec, run index, plot)
    for o in outs:
        st = o["stats"]
        ctx._account("trace", "Trace_Output", st["cfg"], _Res(st))
        if st["exit"] != 0:
            raise core.MachineryError("trace validation Trace_Output broke (exit %s, violated %s):\n%s" % (
                st["exit"], st["violated"], st["tail"]))
        ctx.evaluations += o["n"]
        ok = o["n"] - len(o["bad"])
        nacc += ok
        ctx.traces += ok
        ctx.distinct.update(o["hashes"])
        for rec, verdicts in o["bad"]:
            # only the first run with a verdict counts (later runs start from a state that is already
            # wrong), and of its verdicts the one earliest in the chain (the others follow from it)
            first = min(j for j, _, _ in verdicts)
            j, pred, p = min((v for v in verdicts if v[0] == first), key=lambda v: (PRIORITY.index(v[1]), v[2]))
            t = rec["runs"][j]["touched"]
            # touches of other plots are irrelevant for plot p; the plot is renumbered to 1
            rel = {"del": [[1, k] for q, k in t["del"] if q == p], "data": [1 for q in t["data"] if q == p],
                   "tpl": t["tpl"]}
            tset = frozenset(touch_sig(rel).split("+")) | (frozenset(["first-run"]) if j == 0 else frozenset())
            found.setdefault(pred, []).append((tset, settings_sig(rec["set"]), rec, j, p))
        for r in o["samples"]:
            ctx.sample({"recorded_history_%s" % what: {k: r[k] for k in ("np", "set", "runs")}}, limit=4)
    for pred, lst in sorted(found.items()):
        # one violation per minimal set of touches
        minimal = set(x[0] for x in lst if not any(y[0] < x[0] for y in lst))
        for tset in sorted(minimal, key=sorted):
            if reported is not None:
                if (pred, tset) in reported:
                    continue
                reported.add((pred, tset))
            xs = [x for x in lst if x[0] == tset]
            # the options go into the key only when every failing history has them in common
            ssigs = sorted(set(x[1] for x in xs))
            common = set.intersection(*[set(x.split(",")) - {"default"} for x in ssigs])
            suffix = ":" + ",".join(sorted(common)) if common else ""
            _, _, rec, j, p = min(xs, key=lambda x: (x[1] != "default", len(x[2]["runs"]), x[2]["np"], x[2]["gi"]))
            ctx.violation("Output:%s:%s%s" % (pred, "+".join(sorted(tset)), suffix), {
                "found_by": what, "np": rec["np"], "settings": rec["set"], "same_objects": rec["same_objects"],
                "failing_run": j, "plot": p, "failing_histories": len(xs), "failing_settings": ssigs[:12],
                "history": [{"touched": r["touched"], "exc": r["exc"], "obs": r["obs"]} for r in rec["runs"][:j + 1]]})
    return nacc
