"""Harness for spec/Output.tla: runs the real chain

    ToCSV, MakeFilename, Write, RenderLaTeX, Write, LaTeXToPDF, PDFToPNG

or its grouped variant

    GroupBy, group_plots, MapGroup(ToCSV, MakeFilename, Write), MakeFilename, RenderLaTeX, Write,
    LaTeXToPDF, PDFToPNG                      (or the deprecated GroupPlots(transform=...) in place of the first three)

in a scratch directory over histories of runs (changed data, changed template, deleted files) with stub
converters, and records for every run what the statement talks about: the content of the files named
by the yielded values (decoded to template / data versions), which files were written (audit hook on
`open`), which converters were launched (the stubs log their invocations), output.changed of the
yielded values.  The records are judged by spec/Trace_Output.tla only.

LaTeXToPDF gets a `create_command` that runs a stub script writing "PDF(<tex>|<csv 1>|<csv 2>...)";
PDFToPNG calls `pdftoppm`: a fake one is first on PATH and writes "PNG(<pdf content>)".
"""
from __future__ import print_function

import contextlib
import io
import json
import os
import re
import shutil
import sys
import warnings

from . import core

_LATEX_STUB = """#!/bin/sh
# $1 tex file (its first line names the csv files, then END), $2 pdf file
exec 2>/dev/null
echo "latex $1" >> "%(log)s"
read -r first < "$1"
{ printf 'PDF('; cat "$1"
  for c in $first; do case "$c" in END) ;; *) printf '|'; cat "$c";; esac; done
  printf ')'; } > "$2" || exit 1
"""
_PDFTOPPM_STUB = """#!/bin/sh
# pdftoppm <pdf> <root> -<format> -singlefile
exec 2>/dev/null
echo "pdftoppm $1" >> "%(log)s"
fmt=${3#-}
{ printf 'PNG('; cat "$1"; printf ')'; } > "$2.$fmt" || exit 1
"""

_audit = {"on": False, "root": None, "writes": [], "installed": False}


def _hook(event, args):
    if event == "open" and _audit["on"]:
        path, mode = args[0], args[1]
        if isinstance(path, str) and isinstance(mode, str) and path.startswith(_audit["root"]) \
                and any(c in mode for c in "wax+"):
            _audit["writes"].append(path)


class CsvObject(object):
    """Data with a method write(filepath): written by Write through that method."""

    def __init__(self, text):
        self.text = text

    def write(self, filepath):
        # Write does not create the directory for objects with a write method
        os.makedirs(os.path.dirname(filepath), exist_ok=True)
        with open(filepath, "w") as f:
            f.write(self.text)


# "content versions" are distinct but SIMILAR texts: consecutive versions may differ only in white space at
# the end (or at the beginning) - "exactly the content produced from the current data" means exactly.
def data_text(version, p, m):
    """Text of a string / write-method source: version 1 body 1; versions 2, 3, 4 = body 2 as it is, with a
    trailing newline, with a leading newline; 5, 6, 7 = body 3 ..."""
    if version < 2:
        return "x,y\n0,1\n1,%d\n2,%d" % (p, m)
    k = version - 2
    body = "x,y\n0,%d\n1,%d\n2,%d" % (k // 3 + 2, p, m)
    return (body, body + "\n", "\n" + body)[k % 3]


def tpl_body(version):
    """Template versions 1, 2 render the same body without / with a trailing newline, versions 3, 4 the next body ..."""
    return (version + 1) // 2


def tpl_tail(version):
    return "\n" if version % 2 == 0 else ""


def render(chars):
    """A name of spec/OutputNames.tla (a sequence of characters; "U" stands for a non-ASCII letter) as a string."""
    return "".join(u"\u00f6" if c == "U" else c for c in chars)


class Plot(object):
    """Naming and data of one plot (one source) or one group (several sources, one tex / pdf / png).

    plain plots: 1 plain name; 2 directory through MakeFilename(dirname="{{dir}}"); 3 a path inside the
    file name and context.output.fileext "dat" for the data file; others through context.output.dirname.
    The plain chain ends its naming with MakeFilename(dirname="{{dflt}}", fileext="csv") - defaults for values
    that come without these names: plot 3 takes that directory in odd variants (context.dflt), plot 1 in every
    fourth variant comes with context.dflt AND an explicit context.output.dirname "" (the top of the output
    directory - an existing name, to be kept), plot 2 comes with an explicit empty file extension.
    Sources are histograms, graphs, plain strings (by position and `variant`) or objects with a write method.
    """

    def __init__(self, p, nsrc, obj, grouped, variant=0, pngext="png", nplots=2, named=None):
        self.p, self.nsrc, self.obj, self.grouped, self.variant = p, nsrc, obj, grouped, variant
        self.named = None          # names and places given by a scenario of spec/OutputNames.tla
        self.base = None
        self.unnamed = False       # bare data without any context: Write's default name "output"
        self.dirname = ""          # where the files are expected, relative to the output directory
        self.ctx_dirname = None    # what context.output.dirname says (an absolute one is made relative by Write)
        self.dflt = None           # context.dflt: the directory MakeFilename(dirname="{{dflt}}") would give
        self.csvext = "csv"
        self.pngext = pngext
        self.template = None       # context.output.template (takes precedence over RenderLaTeX's default)
        self.name_class = ""       # "substring-name": the path contains ".tex" / ".pdf" inside a name
        if grouped:
            self.gname = "group%d" % p
            self.members = ["g%dm%d" % (p, m) for m in range(1, nsrc + 1)]
            if p == 2:
                # an absolute dirname: documented RuntimeWarning, the leading separator is dropped
                self.dirname, self.ctx_dirname = "grp", os.sep + "grp"
        else:
            self.gname = {1: "plot1", 2: "plot2", 3: os.path.join("deep", "er", "plot3")}.get(p, "plot%d" % p)
            if p == 1 and variant % 3 == 1:
                self.gname = u"plöt.v1"                 # unicode and a dot inside the name
            if p == 1 and variant % 12 == 10:
                self.gname, self.name_class = "my.textures.pdfs", "substring-name"
            if p == 1 and variant % 12 == 11:
                self.dirname = self.ctx_dirname = "run.texts.pdf.d"
                self.name_class = "substring-name"
            self.members = [self.gname]
            if nplots == 1 and not obj and not self.name_class and variant % 5 == 4:
                # the only value of the flow is bare data (no context at all): no name can be made,
                # Write falls back to its *output_filename* ("output")
                self.unnamed, self.gname, self.members = True, "output", [None]
            if p == 1 and variant % 4 == 2 and not self.name_class and not self.unnamed:
                # an explicitly empty directory name wins over the default directory of the chain
                self.dflt, self.dirname, self.ctx_dirname = "elsewhere", "", ""
            if p == 3 and variant % 2 == 1:
                self.dflt = self.dirname = "d3"     # no directory of its own: the default of the chain
            if p == 2:
                self.dirname = "sub"       # through MakeFilename(dirname="{{dir}}")
                self.csvext = ""           # an empty file extension: the data file has no dot
                self.template = "alt.tex"  # named in the context
            elif p == 3:
                self.csvext = "dat"
            elif p >= 4:
                self.dirname = self.ctx_dirname = "d%d" % p
            if named is not None:
                # a scenario of spec/OutputNames.tla: the names are those of the model (rendered), and so are the
                # places where the files are expected (named["stated"]: output_directory/dirname/filename.fileext)
                self.named = named
                self.unnamed, self.dflt, self.ctx_dirname = False, None, None
                self.gname = render(named["names"][p - 1])
                self.members = [self.gname]
                self.dirname = render(named["dir"])
                self.csvext = render(named["cext"])
                self.pngext = render(named["fmt"])
                self.name_class = "name-" + named["class"][p - 1]

    def kind(self, m):
        if self.obj:
            return "obj"
        k = ("hist", "graph", "str")[(self.p + m + self.variant) % 3]
        return "hist" if self.unnamed and k == "str" else k    # (a bare string has no filetype: not a plot)

    def data(self, m, version):
        import lena.structures
        k = self.kind(m)
        if k == "hist":
            h = lena.structures.histogram([0, 1, 2, 3])
            h.fill(0.5, version)
            h.fill(1.5 + (m > 1), self.p)
            return h
        if k == "graph":
            return lena.structures.graph([[0, 1, 2], [version, self.p, 7 + m]])
        text = data_text(version, self.p, m)
        if k == "str" and version == 1:
            text = ""      # data that looks like nothing: the first version of a string source is the empty string
        return CsvObject(text) if k == "obj" else text

    def context(self, m):
        if self.unnamed:
            return None
        ctx = {"name": self.members[m - 1]}
        out = {}
        if self.grouped:
            ctx["grp"] = self.gname
        if self.named is not None:
            # the directory name: in the context already, through MakeFilename(dirname="{{dir}}"), or through
            # MakeFilename(dirname="{{dir}}", overwrite=True) over a stale name the value comes with
            if self.named["via"] == "ctx":
                if self.dirname:
                    out["dirname"] = self.dirname
            else:
                ctx["dir"] = self.dirname
                if self.named["via"] == "mfow":
                    out["dirname"] = render(self.named["stale"])
        elif not self.grouped and self.p == 2:
            ctx["dir"] = self.dirname
        elif self.ctx_dirname is not None:
            out["dirname"] = self.ctx_dirname
        if self.dflt:
            ctx["dflt"] = self.dflt
        if self.csvext != "csv":
            out["fileext"] = self.csvext
        if self.template:
            out["template"] = self.template
        if self.kind(m) in ("str", "obj"):
            out["filetype"] = "csv"
        if out:
            ctx["output"] = out
        return ctx

    def csv_path(self, outdir, m):
        if self.named is not None:
            return os.path.join(self.base, render(self.named["stated"][self.p - 1]["csv"]))
        return os.path.join(outdir, self.dirname,
                            (self.members[m - 1] or self.gname) + ("." + self.csvext if self.csvext else ""))

    def path(self, outdir, kind):
        if self.named is not None:
            return os.path.join(self.base, render(self.named["stated"][self.p - 1][kind]))
        return os.path.join(outdir, self.dirname, self.gname + "." + (self.pngext if kind == "png" else kind))

    def expected_tex(self, outdir, version):
        """What Workspace.write_template(version) renders to for this plot / group."""
        csvs = " ".join(self.csv_path(outdir, m) for m in range(1, self.nsrc + 1))
        # (an unnamed value has no "name" in its context: the template variable renders as nothing)
        return "%s END\n%% %stemplate version %d for %s%s" % (csvs, "ALT " if self.template else "", tpl_body(version),
                                                             "" if self.unnamed else self.gname, tpl_tail(version))


class Tap(object):
    """Pass-through element that remembers the text produced for each source / plot (the content the
    files must have: 'exactly the content produced from the current data')."""

    def __init__(self):
        self.seen = {}

    def run(self, flow):
        import lena.flow
        for val in flow:
            data, context = lena.flow.get_data_context(val)
            key = context.get("grp") if "group" in context else context.get("name")
            if isinstance(data, str):
                self.seen[key] = data
            elif isinstance(data, CsvObject):
                self.seen[key] = data.text
            yield val


class Workspace(object):
    def __init__(self, root):
        self.root = root
        shutil.rmtree(root, ignore_errors=True)
        self.bin = os.path.join(root, "bin")
        self.tpl = os.path.join(root, "tpl")
        self.log = os.path.join(root, "invocations.log")
        os.makedirs(self.bin)
        os.makedirs(self.tpl)
        for name, text in (("latexstub", _LATEX_STUB), ("pdftoppm", _PDFTOPPM_STUB)):
            path = os.path.join(self.bin, name)
            with open(path, "w") as f:
                f.write(text % {"log": self.log})
            os.chmod(path, 0o755)
        self.nhist = 0
        if not _audit["installed"]:
            sys.addaudithook(_hook)
            _audit["installed"] = True

    @contextlib.contextmanager
    def activated(self):
        """Fake pdftoppm first on PATH; file writes below the workspace are audited."""
        old = os.environ.get("PATH", "")
        os.environ["PATH"] = self.bin + os.pathsep + old
        _audit["root"] = self.root
        try:
            yield self
        finally:
            os.environ["PATH"] = old
            _audit["on"] = False

    def write_template(self, version, stamp):
        # first line: the csv file(s) the plot is made from, then END; then the template proper
        # (jinja2 drops ONE newline at the end of a template: an even version ends with two of them and
        # renders to the text of the version before it plus a newline)
        body, tail = tpl_body(version), tpl_tail(version)
        texts = {"plot.tex": "\\VAR{ output.filepath } END\n%% template version %d for \\VAR{ name }\n%s" % (body, tail),
                 # chosen through context.output.template
                 "alt.tex": "\\VAR{ output.filepath } END\n%% ALT template version %d for \\VAR{ name }\n%s" % (body, tail),
                 "group.tex": "\\BLOCK{ for item in group }\\VAR{ item.output.filepath } \\BLOCK{ endfor }END\n"
                              "%% template version %d for \\VAR{ grp }\n%s" % (body, tail)}
        for name, text in texts.items():
            path = os.path.join(self.tpl, name)
            with open(path, "w") as f:
                f.write(text)
            # jinja2 reloads a template when its modification time differs
            os.utime(path, (stamp, stamp))

    def pipeline(self, outdir, st, grouped, variant=0, fmt=None, mf_overwrite=False):
        import lena.core
        import lena.flow
        import lena.output
        from lena.flow.group_plots import group_plots, GroupPlots
        import jinja2
        from lena.output.render_latex import _Environment
        cmd = lambda tex, pdf, d, ctx: [os.path.join(self.bin, "latexstub"), tex, pdf]
        kw = {"check": {}, "existing_unchanged": {"existing_unchanged": True}, "overwrite": {"overwrite": True}}
        self.tap_csv, self.tap_tex = Tap(), Tap()
        v = variant
        # element arguments rotate with the history (same meaning for the statement; stdout is swallowed)
        tocsv = (lena.output.ToCSV(), lena.output.ToCSV(separator=";"), lena.output.ToCSV(header="# x y"),
                 lena.output.ToCSV(duplicate_last_bin=False))[v % 4]
        default_tpl = "group.tex" if grouped else "plot.tex"
        if v % 3 == 1:      # a callable instead of a template name (context.output.template still wins)
            render = lena.output.RenderLaTeX(
                select_template=lambda val: val[1].get("output", {}).get("template", default_tpl),
                template_dir=self.tpl, verbose=v % 2)
        elif v % 3 == 2:    # a user-made jinja environment instead of template_dir
            render = lena.output.RenderLaTeX(
                default_tpl, environment=_Environment(loader=jinja2.FileSystemLoader(self.tpl)), verbose=v % 2)
        else:
            render = lena.output.RenderLaTeX(default_tpl, template_dir=self.tpl, verbose=v % 2)
        write1 = lena.output.Write(outdir, verbose=bool(v % 2), **kw[st["m1"]])
        tail = (self.tap_tex,
                lena.output.Write(outdir, verbose=bool((v + 1) % 2), **kw[st["m2"]]),
                lena.output.LaTeXToPDF(overwrite=st["lo"], verbose=v % 3, create_command=cmd),
                # (a generous subprocess timeout: the default 60 s can expire on a heavily loaded machine)
                lena.output.PDFToPNG(format=fmt or png_format(v), overwrite=st["po"], verbose=bool(v % 2), timeoutsec=1800))
        if not grouped:
            return lena.core.Sequence(
                tocsv, self.tap_csv,
                lena.output.MakeFilename("{{name}}"), lena.output.MakeFilename(dirname="{{dir}}", overwrite=mf_overwrite),
                # defaults for values that come without a directory / an extension of their own
                lena.output.MakeFilename(dirname="{{dflt}}", fileext="csv"),
                write1, render, *tail)
        per_member = (tocsv, self.tap_csv, lena.output.MakeFilename("{{name}}"), write1)
        if variant % 2:
            with warnings.catch_warnings():
                warnings.simplefilter("ignore")
                head = (GroupPlots("{{grp}}", transform=per_member),)
        else:
            head = (lena.flow.GroupBy("grp"), group_plots, lena.flow.MapGroup(*per_member))
        return lena.core.Sequence(*(head + (lena.output.MakeFilename("{{grp}}"), render) + tail))


def png_format(variant):
    """The image format given to PDFToPNG (the fake pdftoppm honours -<format>)."""
    return "jpeg" if variant % 4 == 3 else "png"


def run_history(ws, sc, st, steps, same_objects=False, variant=0):
    """One history.  sc = {"srcs": sources per plot, "obj": [...], "grouped": bool};
    steps = list of {"del": [[p, kind, m]..], "data": [[p, m]..], "tpl": bool} (the touches before each run;
    the first run starts from an empty output directory).  Returns the list of run records."""
    ws.nhist += 1
    outdir = top = os.path.join(ws.root, "out%d" % ws.nhist)
    named = sc.get("names")
    if named is not None:
        # the output directory has a name of the model as well (it may contain ".tex" / ".pdf")
        outdir = os.path.join(top, render(named["root"]))
    plots = [Plot(p + 1, n, sc["obj"][p], sc["grouped"], variant, png_format(variant),
                  nplots=len(sc["srcs"]) if not sc["grouped"] else 9, named=named)
             for p, n in enumerate(sc["srcs"])]
    for pl in plots:
        pl.base = top
    pipe_kw = {} if named is None else {"fmt": render(named["fmt"]), "mf_overwrite": named["via"] == "mfow"}
    data_ver = {pl.p: [1] * pl.nsrc for pl in plots}
    tpl_ver = 1
    ws.write_template(tpl_ver, 1000000000)
    texts = {pl.p: {"csv": [dict() for _ in range(pl.nsrc)], "tex": {}} for pl in plots}   # version -> text
    seq = None
    records = []

    def read(path):
        with open(path) as f:
            return f.read()

    def decode(pl, kind, m=0):
        """File -> [a, t, d] of OutputRef.tla (version -1: a content that was never produced)."""
        path = pl.csv_path(outdir, m) if kind == "csv" else pl.path(outdir, kind)
        if not os.path.exists(path):
            return {"a": True, "t": 0, "d": []}
        text = read(path)
        tx = texts[pl.p]
        if kind == "csv":
            d = [v for v, t in tx["csv"][m - 1].items() if t == text]
            return {"a": False, "t": 0, "d": [max(d) if d else -1]}
        if kind == "tex":
            t = [v for v, x in tx["tex"].items() if x == text]
            return {"a": False, "t": max(t) if t else -1, "d": []}
        pre, post = ("PDF(", ")") if kind == "pdf" else ("PNG(PDF(", "))")
        bad = {"a": False, "t": -1, "d": [-1] * pl.nsrc}
        if not (text.startswith(pre) and text.endswith(post)):
            return bad
        parts = text[len(pre):len(text) - len(post)].split("|")
        if len(parts) != pl.nsrc + 1:
            return bad
        t = [v for v, x in tx["tex"].items() if x == parts[0]]
        ds = []
        for i in range(pl.nsrc):
            d = [v for v, x in tx["csv"][i].items() if x == parts[i + 1]]
            ds.append(max(d) if d else -1)
        return {"a": False, "t": max(t) if t else -1, "d": ds}

    for step in steps:
        for p, kind, m in step.get("del", []):
            pl = plots[p - 1]
            path = pl.csv_path(outdir, m) if kind == "csv" else pl.path(outdir, kind)
            if os.path.exists(path):
                os.remove(path)
        for p, m in step.get("data", []):
            data_ver[p][m - 1] += 1
        if step.get("tpl"):
            tpl_ver += 1
            ws.write_template(tpl_ver, 1000000000 + 10 * tpl_ver)
        # (GroupBy keeps its groups between runs: a grouped pipeline is always built anew)
        if not same_objects or seq is None or sc["grouped"]:
            seq = ws.pipeline(outdir, st, sc["grouped"], variant, **pipe_kw)
        flow = []
        for pl in plots:
            for m in range(1, pl.nsrc + 1):
                data, context = pl.data(m, data_ver[pl.p][m - 1]), pl.context(m)
                flow.append(data if context is None else (data, context))
        open(ws.log, "w").close()
        _audit["writes"] = []
        _audit["on"] = True
        exc = ""
        out = []
        try:
            with contextlib.redirect_stdout(io.StringIO()), warnings.catch_warnings():
                warnings.simplefilter("ignore")
                for val in seq.run(iter(flow)):
                    out.append(val)
        except Exception as e:   # noqa
            exc = type(e).__name__
        _audit["on"] = False
        writes = list(_audit["writes"])
        with open(ws.log) as f:
            log = [line.split(" ", 1) for line in f.read().splitlines() if " " in line]
        for pl in plots:
            for m in range(1, pl.nsrc + 1):
                if pl.members[m - 1] in ws.tap_csv.seen:
                    texts[pl.p]["csv"][m - 1][data_ver[pl.p][m - 1]] = ws.tap_csv.seen[pl.members[m - 1]]
            # the tex text is computed here from the template version, NOT taken from what RenderLaTeX
            # yielded: a RenderLaTeX that renders an outdated template must not define "current"
            for v in range(1, tpl_ver + 1):
                texts[pl.p]["tex"][v] = pl.expected_tex(outdir, v)
        obs = []
        expected_paths = set()
        for pl in plots:
            paths = {kind: pl.path(outdir, kind) for kind in ("tex", "pdf", "png")}
            csvs = [pl.csv_path(outdir, m) for m in range(1, pl.nsrc + 1)]
            expected_paths.update(paths.values())
            expected_paths.update(csvs)
            if pl.grouped:
                mine = [v for v in out if isinstance(v, tuple) and len(v) == 2 and isinstance(v[1], dict)
                        and v[1].get("grp") == pl.gname and "group" in v[1]]
            else:
                mine = [v for v in out if isinstance(v, tuple) and len(v) == 2 and isinstance(v[1], dict)
                        and v[1].get("name") == pl.members[0]]
            ch, path_ok = "U", False
            if len(mine) == 1:
                data, ctx = mine[0]
                path_ok = data == paths["png"]
                c = ctx.get("output", {}).get("changed", "U")
                ch = "T" if c is True else "F" if c is False else "U"
            files = {kind: decode(pl, kind) for kind in ("tex", "pdf", "png")}
            files["csv"] = [decode(pl, "csv", m) for m in range(1, pl.nsrc + 1)]
            obs.append({
                "files": files,
                "wrote": {"csv": [c in writes for c in csvs], "tex": paths["tex"] in writes},
                "launched": {"pdf": any(c == "latex" and a == paths["tex"] for c, a in log),
                             "png": any(c == "pdftoppm" and a == paths["pdf"] for c, a in log)},
                "ch": ch, "path_ok": path_ok, "nvals": len(mine), "name_class": pl.name_class})
        others = [w for w in writes if w not in expected_paths]
        records.append({"touched": {"del": [list(x) for x in step.get("del", [])],
                                    "data": [list(x) for x in step.get("data", [])],
                                    "tpl": bool(step.get("tpl"))},
                        "obs": obs, "exc": exc, "stray": len(others) + len(out) - sum(o["nvals"] for o in obs)})
    shutil.rmtree(top, ignore_errors=True)
    return records


# ------------------------------------------------------------------------------------------
# validation by Trace_Output.tla (all histories side by side in one TLC run per shard)

# order of the predicates along the chain: the first failing one names the violation
PRIORITY = ["RunRaised", "Yielded", "Current_csv", "Current_tex", "Changed", "Regenerated_pdf", "Current_pdf",
            "Regenerated_png", "Current_png", "NoRedo", "NoRedoPlot"]
_BAD_RE = re.compile(r'^<<"BAD", (\d+), (\d+), "(\w+)", (\d+), "(\w+)">>', re.M)
_DEV_RE = re.compile(r'^<<"DEV", (\d+), (\d+), (\d+), "([\w-]+)">>', re.M)
_END_RE = re.compile(r'^<<"END", (\d+)>>', re.M)


def validate_shard(workdir, recs, label):
    """recs: [{sc, set, runs}].  -> ({history index: [(run index, predicate, plot, whose, deviation)]}, stats)
    whose = "design": the pinned design of the chain (spec/OutputSem.tla, RunPlot with a Write that leaves
    output.changed alone when it creates a file - the known finding) fails the predicate as well in that situation;
    "other": it does not.  deviation: where along the chain the observation first departs from that design."""
    path = os.path.join(workdir, "%s.json" % label)
    with open(path, "w") as f:
        json.dump([{"srcs": r["sc"]["srcs"], "obj": r["sc"]["obj"], "grouped": bool(r["sc"]["grouped"]), "set": r["set"],
                    "runs": r["runs"]} for r in recs], f)
    res = core.run_tlc("Trace_Output", "Trace_Output.cfg", workdir, workers=1, env={"TRACE_FILE": path}, timeout=3000)
    os.remove(path)
    stats = {"cfg": "Trace_Output.cfg", "generated": res.generated, "distinct": res.distinct, "wall": res.wall,
             "exit": res.exit, "violated": res.violated, "tail": res.out[-2500:] if res.exit != 0 else ""}
    bad = {}
    if res.exit == 0:
        ended = set(int(x) for x in _END_RE.findall(res.out))
        if len(ended) != len(recs):
            stats["exit"] = -1
            stats["tail"] = "only %d of %d histories were consumed by Trace_Output" % (len(ended), len(recs))
        dev = {(int(hi), int(j), int(p)): w for hi, j, p, w in _DEV_RE.findall(res.out)}
        for hi, j, pred, p, whose in _BAD_RE.findall(res.out):
            bad.setdefault(int(hi) - 1, []).append((int(j) - 1, pred, int(p), whose,
                                                    dev.get((int(hi), int(j), int(p)), "none")))
    return bad, stats


def _actions(rec, j, p):
    """What the chain did to the files of plot p in run j: per file 'created' (was absent, written),
    'rewritten' / 'redone' (was there), 'kept' / 'skipped' (there, untouched) or 'missing'."""
    run = rec["runs"][j]
    o = run["obs"][p - 1]
    prev = rec["runs"][j - 1]["obs"][p - 1]["files"] if j > 0 else None
    gone = set((q, k, m) for q, k, m in run["touched"]["del"] if q == p)

    def absent_before(kind, m=0):
        if prev is None or (p, kind, m) in gone:
            return True
        f = prev["csv"][m - 1] if kind == "csv" else prev[kind]
        return f["a"]

    def act(kind, done, m=0, words=("created", "rewritten", "kept")):
        post = o["files"]["csv"][m - 1] if kind == "csv" else o["files"][kind]
        if done:
            return words[0] if absent_before(kind, m) else words[1]
        return "missing" if post["a"] else words[2]

    conv = ("made", "redone", "skipped")
    return {"csv": sorted(set(act("csv", w, m + 1) for m, w in enumerate(o["wrote"]["csv"]))),
            "tex": act("tex", o["wrote"]["tex"]),
            "pdf": act("pdf", o["launched"]["pdf"], words=conv),
            "png": act("png", o["launched"]["png"], words=conv),
            "pdf_absent_before": absent_before("pdf"), "png_absent_before": absent_before("png")}


def cause(rec, j, pred, p):
    """Short description of the circumstances of a failed predicate (part of the violation key):
    which file was created / rewritten / kept / skipped in that run."""
    run = rec["runs"][j]
    if pred == "RunRaised":
        return run["exc"] or "?"
    o = run["obs"][p - 1]
    a = _actions(rec, j, p)
    csv = "csv=" + "/".join(a["csv"])
    # the first thing done along the chain
    if any(x in ("created", "rewritten") for x in a["csv"]):
        first = csv
    elif a["tex"] in ("created", "rewritten"):
        first = "tex=" + a["tex"]
    elif a["pdf"] in ("made", "redone"):
        first = "pdf=" + a["pdf"]
    elif a["png"] in ("made", "redone"):
        first = "png=" + a["png"]
    else:
        first = "nothing-done"
    if pred == "Yielded":
        # (plots whose file or directory name contains ".tex" / ".pdf" as a substring are kept apart)
        return ("nvals=%d" % o["nvals"] if o["nvals"] != 1 else "path") + \
               (":" + o["name_class"] if o.get("name_class") else "")
    if pred == "Current_csv":
        return csv
    if pred == "Current_tex":
        return "tex=" + a["tex"]
    if pred in ("Changed", "NoRedo", "NoRedoPlot"):
        return first
    if pred == "Regenerated_pdf":
        return first if first.startswith(("csv", "tex")) else "pdf=missing"
    if pred == "Current_pdf":
        return "pdf=" + a["pdf"]
    if pred == "Regenerated_png":
        return "pdf=" + a["pdf"] if a["pdf"] in ("made", "redone") else "png=missing"
    if pred == "Current_png":
        return "png=" + a["png"]
    return "?"


def verdict_key(rec, verdicts):
    """The violation key of a rejected history -> (key, run, plot).

    A failed predicate that the pinned design of the chain does NOT fail in the same situation ("other") is
    not the known finding: the first run with such a verdict counts (every run is judged from the observed
    state before it, and so is the design), of its verdicts the one earliest along the chain, and the key
    also says where the run first departed from the design.  Only when every failed predicate of the
    history is one the pinned design fails as well, the key is that of the first run with a verdict
    (later runs start from a state that is already wrong) and of the predicate earliest in the chain."""
    other = [v for v in verdicts if v[3] == "other"]
    pool = other or verdicts
    first = min(v[0] for v in pool)
    j, pred, p, whose, dev = min((v for v in pool if v[0] == first), key=lambda v: (PRIORITY.index(v[1]), v[2]))
    key = "Output:%s:%s" % (pred, cause(rec, j, pred, p))
    if whose == "other" and pred not in ("RunRaised", "Yielded"):     # (those two say nothing about the design)
        key += ":" + dev
    return key, j, p


MAX_JVMS = 6
_TLC_SEM = None


def _shard_job(args):
    import hashlib
    workdir, shard, items, repo = args
    if repo not in sys.path:
        sys.path.insert(0, repo)
    d = os.path.join(workdir, "shard_%s" % shard)
    ws = Workspace(os.path.join(d, "ws"))
    recs = []
    with ws.activated():
        for gi, sc, st, steps, same in items:
            runs = run_history(ws, sc, st, steps, same_objects=same, variant=gi)
            recs.append({"sc": sc, "set": st, "runs": runs, "same_objects": same, "gi": gi})
    # at most MAX_JVMS TLC processes at a time (memory), however many replay workers there are
    if _TLC_SEM is not None:
        _TLC_SEM.acquire()
    try:
        bad, stats = validate_shard(d, recs, "trace")
    finally:
        if _TLC_SEM is not None:
            _TLC_SEM.release()
    hashes = [hashlib.md5(core.canon([r["sc"], r["set"], r["runs"]]).encode()).hexdigest()
              for i, r in enumerate(recs) if i not in bad and len(r["runs"]) > 1]
    out = {"n": len(recs), "runs": sum(len(r["runs"]) for r in recs),
           "bad": [(recs[i], v) for i, v in sorted(bad.items())], "hashes": hashes, "stats": stats,
           "samples": [r for i, r in enumerate(recs) if i not in bad and len(r["runs"]) > 1 and r["sc"]["grouped"]][:1]
                      + [r for i, r in enumerate(recs) if i not in bad and len(r["runs"]) > 2][:1]}
    shutil.rmtree(d, ignore_errors=True)
    return out


class _Res(object):
    def __init__(self, st):
        self.generated, self.distinct, self.wall, self.exit = st["generated"], st["distinct"], st["wall"], st["exit"]
        self.coverage = {}


def touch_sig(t):
    parts = ["del_%s%d%s" % (k, p, "" if not m else ".%d" % m) for p, k, m in t["del"]] + \
            ["data%d.%d" % (p, m) for p, m in t["data"]] + (["tpl"] if t["tpl"] else [])
    return "+".join(parts) or "none"


def private_scratch(ctx):
    import tempfile
    os.makedirs(core.BUILD, exist_ok=True)
    return tempfile.mkdtemp(prefix="%s_scratch_" % ctx.pid, dir=core.BUILD)


def check_histories(ctx, items, what, min_shard=40):
    """items: list of (scenario, settings, steps, same_objects).  Replays each history on the real chain,
    validates the recorded runs with Trace_Output.tla, accounts them, and reports one violation per
    (first failing predicate of the first failing run, what the chain did in that run); the example is the
    shortest such history."""
    import multiprocessing
    if not items:
        return 0
    nsh = max(1, min(ctx.nworkers, (len(items) + min_shard - 1) // min_shard))
    if len(items) < 5000:
        nsh = min(nsh, MAX_JVMS)      # one wave of TLC runs
    shards = [[] for _ in range(nsh)]
    for gi, it in enumerate(items):
        shards[gi % nsh].append((gi,) + tuple(it))
    # a private scratch directory (ctx.workdir is wiped when another run of the same check starts)
    scratch = private_scratch(ctx)
    jobs = [(scratch, "%s%d" % (what, k), sh, ctx.repo) for k, sh in enumerate(shards)]
    global _TLC_SEM
    try:
        if nsh == 1:
            _TLC_SEM = None
            outs = [_shard_job(jobs[0])]
        else:
            mp = multiprocessing.get_context("fork")
            _TLC_SEM = mp.Semaphore(MAX_JVMS)     # inherited by the forked workers
            pool = mp.Pool(nsh)
            try:
                outs = pool.map(_shard_job, jobs)
            finally:
                pool.close()
                pool.join()
                _TLC_SEM = None
    finally:
        shutil.rmtree(scratch, ignore_errors=True)
    nacc = 0
    found = {}
    for o in outs:
        st = o["stats"]
        ctx._account("trace", "Trace_Output", st["cfg"], _Res(st))
        if st["exit"] != 0:
            raise core.MachineryError("trace validation Trace_Output broke (exit %s, violated %s):\n%s" % (
                st["exit"], st["violated"], st["tail"]))
        ctx.evaluations += o["n"]
        ok = o["n"] - len(o["bad"])
        nacc += ok
        ctx.traces += ok
        ctx.distinct.update(o["hashes"])
        for rec, verdicts in o["bad"]:
            key, j, p = verdict_key(rec, verdicts)
            found.setdefault(key, []).append((rec, j, p))
        for r in o["samples"]:
            ctx.sample({"recorded_history_%s" % what: {k: r[k] for k in ("sc", "set", "runs")}}, limit=5)
    for key in sorted(found):
        xs = found[key]
        rec, j, p = min(xs, key=lambda x: (x[0]["set"] != {"m1": "check", "m2": "check", "lo": False, "po": False},
                                            x[1], len(x[0]["sc"]["srcs"]), sum(x[0]["sc"]["srcs"]), x[0]["gi"]))
        ctx.violation(key, {
            "found_by": what, "scenario": rec["sc"], "settings": rec["set"], "same_objects": rec["same_objects"],
            "failing_run": j, "plot": p, "touched_before_failing_run": touch_sig(rec["runs"][j]["touched"]),
            "failing_histories": len(xs),
            "history": [{"touched": r["touched"], "exc": r["exc"], "obs": r["obs"]} for r in rec["runs"][:j + 1]]})
    return nacc
