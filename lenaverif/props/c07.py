"""C07  Nested-dictionary algebra: intersection, difference, update_recursively, update_nested.

spec/CtxValue.tla        nested dictionaries with Python-equality classes; Contained, Inter2/InterN,
                         Diff, UpdRec, NestedD written from the documentation
spec/CtxAlgebra.tla      one call per behaviour, one action per loop body of the implementation;
                         operational = reference; laws: glb, commutative/associative/idempotent,
                         difference = exactly the terminal items of d1 not in d2, reconstruction for
                         every level, update_recursively least upper merge, update_nested keeps old
spec/CtxHeap.tla         the same functions on OBJECTS: environments with one sub-dictionary object in several
                         places of the arguments, and small programs (histories) of calls on the caller's
                         dictionaries; every step must change the values exactly as CtxValue says
spec/Trace_CtxAlgebra.tla  validation of recorded calls (seeded random, repository test-suite)

S2C: every call of the bounded model is exported with its expected outcome over *symbolic* leaf
classes and executed on the real functions under several valuations of the classes by Python values
(falsy ones first: 0, False, 0.0, None, "", [], ()).
"""
import copy
import os
import random
import subprocess
import sys
import json
import tempfile

from .. import core
from .. import ctxlib as cl
from ..util import exc_name

FN = {"inter": "intersection", "diff": "difference", "updrec": "update_recursively", "updstr": "update_recursively(string)",
      "nested": "update_nested", "recon": "reconstruct"}
ACTIONS = ("IStart", "IPrune", "IReturn", "DStart", "DKey", "DReturn",
           "UStart", "UStrConv", "UKey", "UReturn", "NStart", "NWalk", "NInsert", "NAssign")


Fails = cl.Fails


CLASSES = {"dict": dict, "MyDict": cl.MyDict}       # + Context, if it can be deep-copied (see run)


def call(fns, op, args, lv, key, default_form):
    if op == "inter":
        if default_form and lv == -1:
            return fns.intersection(*args)
        return fns.intersection(*args, level=lv)
    if op == "diff":
        if default_form and lv == -1:
            return fns.difference(args[0], args[1])
        if default_form:
            return fns.difference(args[0], args[1], level=lv)
        return fns.difference(args[0], args[1], lv)
    if op == "updrec":
        return fns.update_recursively(args[0], args[1])
    if op == "nested":
        return fns.update_nested(key, args[0], args[1])
    raise core.MachineryError("unknown op %r" % (op,))


def replay_updstr(fails, rec, val, rnd, fns):
    """update_recursively(d, "k1.k2...", value) and its variants; rec["key"] names the variant"""
    variant, sz = rec["key"], cl.size(rec["args"])
    exp_exc = rec["exc"]
    chain, cur = [], rec["args"][1]
    while cl.is_d(cur) and len(list(cl.items(cur))) == 1:
        (k, v), = cl.items(cur)
        chain.append(k)
        cur = v
    calls = []
    if variant == "value":
        # every way to read the one-key chain as "path + value" gives the same other dictionary
        for n in range(1, len(chain) + 1):
            rest = cur
            for k in reversed(chain[n:]):
                rest = {"k": "D", "m": {k: rest}}
            calls.append((".".join(chain[:n]), [rest]))
    elif variant == "novalue":
        calls.append((".".join(chain + [cur["v"]]), []))
    elif variant == "novalue1":
        calls.append((chain[0], []))
    else:
        calls.append((None, None))
    for s_arg, extra in calls:
        d = cl.decode(rec["args"][0], val, rnd)
        snap = copy.deepcopy(d)
        other = s_arg if s_arg is not None else cl.decode(rec["args"][1], val, rnd)
        pyextra = [1] if extra is None else [cl.decode(x, val, rnd) for x in extra]
        try:
            fns.update_recursively(d, other, *pyextra)
            obs = ""
        except Exception as exc:     # noqa
            obs = exc_name(exc)
        det = {"call": "update_recursively", "d": snap, "other": repr(other), "value": repr(pyextra), "variant": variant}
        if obs != exp_exc:
            fails.add("update_recursively(string):%s:%s" % (variant, obs or "no-" + exp_exc), sz, det)
        elif not obs:
            exp = cl.decode(rec["post"][0], val)
            mm = cl.mismatches(exp, d)
            if mm:
                fails.add("update_recursively(string):d-after:%s" % mm[0][1], sz, dict(det, expected=exp, observed=d))
        elif d != snap:
            fails.add("update_recursively(string):changed-although-raised", sz, det)


def replay(ctx, fails, rec, val, rnd, fns):
    op, lv, key = rec["op"], rec["lv"], rec["key"]
    if op == "updstr":
        return replay_updstr(fails, rec, val, rnd, fns)
    name = FN[op]
    # the model's keys may stand for any hashable Python keys, falsy and non-string ones included,
    # and its dictionaries for instances of dict subclasses
    keymap = cl.random_keymap(rnd) if rnd.random() < 0.35 else None
    cls_name = rec.get("cls", "dict")
    if cls_name == "dict" and rnd.random() < 0.3:
        cls_name = rnd.choice(sorted(CLASSES))
    if keymap and cls_name == "Context":
        keymap = None          # Context is for JSON-like contexts (its repr sorts the keys)
    cls = CLASSES.get(cls_name, dict)
    args = [cl.as_class(cl.decode(a, val, rnd, keymap=keymap), cls) for a in rec["args"]]
    if keymap and key in keymap:
        key = keymap[key]
    snap = copy.deepcopy(args)
    sz = cl.size(rec["args"])

    def detail(**kw):
        d = {"call": name, "level": lv, "key": repr(key), "args": repr(snap) if keymap else snap, "keys": repr(keymap),
             "valuation": cl.val_name(val), "class": cls_name}
        if keymap:
            kw = dict((k, repr(v)) for k, v in kw.items())
        d.update(kw)
        return d
    same_object = op in ("inter", "diff") and len(args) == 2 and rec["args"][0] == rec["args"][1] \
        and rnd.random() < 0.5
    if same_object:
        args[1] = args[0]           # one object passed twice
    try:
        res = call(fns, op, args, lv, key, rnd.random() < 0.5)
    except Exception as exc:     # noqa
        fails.add("%s:raised:%s" % (name, exc_name(exc)), sz, detail(exception=repr(exc)))
        return
    if op in ("inter", "diff"):
        exp = cl.decode(rec["res"], val, keymap=keymap)
        mm = cl.mismatches(exp, res)
        if op == "inter" and args and res and type(res) is not type(args[0]):
            # "returns a dictionary or its subtype (copied from dicts[0])"
            fails.add("intersection:result-class", sz, detail(observed=type(res).__name__))
        if mm:
            fails.add("%s:result:%s" % (name, mm[0][1]), sz,
                      detail(expected=exp, observed=res, at=list(mm[0][0])))
        if args != snap:
            fails.add("%s:argument-changed" % name, sz, detail(after=args))
        if op == "inter" and cl.shared_mutables(res, args):
            fails.add("intersection:not-a-deep-copy", sz, detail(shared_with=cl.shared_mutables(res, args)))
        # the functions are pure: called again with the same argument objects they return an equal result,
        # leave the arguments alone and do not reach into the result returned before
        if not mm:
            first = copy.deepcopy(res)
            try:
                res2 = call(fns, op, args, lv, key, rnd.random() < 0.5)
                if cl.mismatches(exp, res2):
                    fails.add("%s:repeated-call:result-differs" % name, sz, detail(first=first, second=res2))
                if res != first:
                    fails.add("%s:repeated-call:earlier-result-changed" % name, sz, detail(first=first, now=res))
                if args != snap:
                    fails.add("%s:repeated-call:argument-changed" % name, sz, detail(after=args))
            except Exception as exc:     # noqa
                fails.add("%s:repeated-call:raised:%s" % (name, exc_name(exc)), sz, detail(exception=repr(exc)))
        if op == "diff" and not mm:
            # recursively updating the intersection with the difference reconstructs d1
            exp_inter = cl.decode(rec["inter"], val, keymap=keymap)
            try:
                it = fns.intersection(*args, level=lv)
                if it == exp_inter:     # a wrong intersection is judged by its own records
                    fns.update_recursively(it, res)
                    if it != snap[0]:
                        fails.add("reconstruct:differs", sz, detail(intersection=exp_inter, difference=res,
                                                                    reconstructed=it))
            except Exception as exc:     # noqa
                fails.add("reconstruct:raised:%s" % exc_name(exc), sz, detail(exception=repr(exc)))
    else:
        exp = cl.decode(rec["post"][0], val, keymap=keymap)
        mm = cl.mismatches(exp, args[0])
        if mm:
            fails.add("%s:d-after:%s" % (name, mm[0][1]), sz,
                      detail(expected=exp, observed=args[0], at=list(mm[0][0])))
        elif op == "updrec":
            # the same update applied again changes nothing (law UpdRec(UpdRec(d, o), o) = UpdRec(d, o))
            try:
                fns.update_recursively(args[0], args[1])
                if cl.mismatches(exp, args[0]):
                    fails.add("update_recursively:repeated-call:d-changes", sz, detail(expected=exp, observed=args[0]))
            except Exception as exc:     # noqa
                fails.add("update_recursively:repeated-call:raised:%s" % exc_name(exc), sz,
                          detail(exception=repr(exc)))


# ---------------------------------------------------------------- S2C: programs on object graphs (CtxHeap)
HEAP_ACTIONS = ("DoInter", "DoDiff", "DoUpdRec", "DoUpdStr", "DoNested", "DoTouch", "DoDiffR", "DoStrD")
STEP_FN = {"inter": "intersection", "diff": "difference", "updrec": "update_recursively",
           "updvar": "update_recursively", "updstr": "update_recursively(string)", "nested": "update_nested",
           "touch": "intersection", "diffr": "difference", "strd": "str_to_dict"}
RES_OPS = ("inter", "diffr", "strd")          # calls whose result becomes a dictionary of the caller (spec: ResOps)
WRITES = ("touch", "updrec", "updvar", "updstr", "nested")


def run_step(fns, env, c, val, rnd):
    """execute one call of a CtxHeap program on the caller's dictionaries env; returns the returned value"""
    op, xs = c["op"], [i - 1 for i in c["xs"]]
    if op == "inter":
        res = fns.intersection(*[env[i] for i in xs], level=c["lv"]) if (c["lv"] != -1 or rnd.random() < 0.5) \
            else fns.intersection(*[env[i] for i in xs])
        env.append(res)
        return res
    if op == "diff":
        return fns.difference(env[xs[0]], env[xs[1]], c["lv"])
    if op == "diffr":
        # the result is kept (and written into) by the caller: the arguments are private copies, because
        # "d1 or some of its subdictionaries may be returned directly"
        a, b = copy.deepcopy(env[xs[0]]), copy.deepcopy(env[xs[1]])
        res = fns.difference(a, b, c["lv"]) if (c["lv"] != -1 or rnd.random() < 0.5) else fns.difference(a, b)
        env.append(res)
        return res
    if op == "strd":
        if c["vk"] == "value":
            res = fns.str_to_dict(".".join(c["p"]), cl.decode(c["t"], val, rnd))
        else:
            res = fns.str_to_dict(".".join(c["p"]))
        env.append(res)
        return res
    if op == "updrec":
        return fns.update_recursively(env[xs[0]], cl.decode(c["t"], val, rnd))
    if op == "updvar":
        return fns.update_recursively(env[xs[0]], env[xs[1]])
    if op == "updstr":
        if c["vk"] == "value":
            return fns.update_recursively(env[xs[0]], ".".join(c["p"]), cl.decode(c["t"], val, rnd))
        return fns.update_recursively(env[xs[0]], ".".join(c["p"]))
    if op == "nested":
        return fns.update_nested(c["key"], env[xs[0]], cl.decode(c["t"], val, rnd))
    if op == "touch":
        return cl.touch(env[xs[0]])
    raise core.MachineryError("unknown step %r" % (op,))


def replay_program(fails, rec, val, rnd, fns):
    """Build the environment with the sharing the specification describes, run the program on the real
    functions, and after every call compare the value of every dictionary the caller holds (and the returned
    value) with what the specification says the caller sees."""
    envd, prog, obs = rec["env"], rec["prog"], rec["obs"]
    tag = "shared-objects" if cl.has_tokens(envd["roots"]) else "history"
    sz = cl.size([cl_unfold(r, envd["sv"]) for r in envd["roots"]]) + 3 * len(prog)
    env = cl.build_env(envd, val, rnd)
    start = copy.deepcopy(env)

    def detail(j, **kw):
        d = {"environment": envd, "dictionaries_at_start": start, "program": prog, "failing_call": j + 1,
             "valuation": cl.val_name(val)}
        d.update(kw)
        return d
    # the harness builds what the specification means
    for i, e in enumerate(env):
        if cl.mismatches(cl.decode(cl_unfold(envd["roots"][i], envd["sv"]), val), e):
            raise core.MachineryError("CtxHeap environment built wrongly: %r" % (envd,))
    producer = [None] * len(env)         # the call that returned the dictionary held in each variable
    written = set()                      # results the caller has written into so far
    for j, c in enumerate(prog):
        xs = [i - 1 for i in c["xs"]]
        fn = STEP_FN[c["op"]]
        if c["op"] == "touch" and producer[xs[0]]:
            fn = STEP_FN[producer[xs[0]]]
        name = "%s[%s]" % (fn, tag)
        try:
            res = run_step(fns, env, c, val, rnd)
        except Exception as exc:     # noqa
            fails.add("%s:raised:%s" % (name, exc_name(exc)), sz, detail(j, exception=repr(exc)))
            return
        want = obs[j]
        if len(env) != len(want["vals"]):
            raise core.MachineryError("CtxHeap: harness and specification disagree on the variables")
        if c["op"] in RES_OPS:
            producer.append(c["op"])
        if c["op"] in WRITES and producer[xs[0]]:
            written.add(xs[0])
        if c["op"] in RES_OPS + ("diff",):
            exp = cl.decode(want["res"], val)
            mm = [(("<not a dictionary>",), "differs-kind")] if not isinstance(res, dict) else cl.mismatches(exp, res)
            if mm:
                what = "result-after-earlier-result-was-changed" if written else "result"
                fails.add("%s:%s:%s" % (name, what, mm[0][1]), sz,
                          detail(j, expected=exp, observed=res, at=list(mm[0][0])))
                return
        if c["op"] in RES_OPS:
            # the result is a new object of the caller: no dictionary the caller already holds (an earlier
            # result, an argument) - spec: Reach(result) disjoint from everything reachable before
            sh = cl.shared_mutables(res, env[:-1])
            if sh:
                earlier = [i for i in range(len(env) - 1) if cl.shared_mutables(res, [env[i]])]
                what = ("result-is-a-dictionary-handed-out-before"
                        if any(producer[i] for i in earlier) and not any(i in xs for i in earlier)
                        else "not-a-deep-copy" if c["op"] == "inter" else "result-shares-a-dictionary-with-the-caller")
                fails.add("%s:%s" % (name, what), sz, detail(j, result=res, shares_objects_with_variables=[i + 1 for i in earlier]))
                return
        for i, e in enumerate(env):
            if cl.has_cycle(e):
                fails.add("%s:dictionary-contains-itself" % name, sz, detail(j, variable=i + 1))
                return
            exp = cl.decode(want["vals"][i], val)
            mm = cl.mismatches(exp, e)
            if not mm:
                continue
            if c["op"] == "touch":
                # writing into the result reached something else: the result was not a deep copy
                what = ("result-shares-a-dictionary-with-itself-wrongly" if i == xs[0]
                        else "not-a-deep-copy" if producer[xs[0]] == "inter"
                        else "writing-into-the-result-changed-another-dictionary")
            elif c["op"] in RES_OPS and i == len(env) - 1:
                what = "result:%s" % mm[0][1]
            elif i == xs[0] and c["op"] in ("updrec", "updvar", "updstr", "nested"):
                what = "d-after:%s" % mm[0][1]
            elif i in xs:
                what = "argument-changed"
            else:
                what = "another-dictionary-changed"
            fails.add("%s:%s" % (name, what), sz,
                      detail(j, variable=i + 1, expected=exp, observed=e, at=list(mm[0][0])))
            return


def cl_unfold(v, svs):
    """the value an environment description stands for (tokens replaced by the shared values)"""
    if v["k"] == "S":
        return cl_unfold(svs[v["i"] - 1], svs)
    if v["k"] == "D":
        return {"k": "D", "m": dict((k, cl_unfold(x, svs)) for k, x in cl.items(v))}
    return v


# ---------------------------------------------------------------- C2S: seeded random calls
def leaf_pool():
    pool = []
    for _, _, ctors in cl.PYCLASSES:
        pool.extend(ctors)
    pool.extend([lambda: "y", lambda: 3, lambda: [2], lambda: (1,), lambda: -1.5])
    return pool


def mutate(rnd, d, keys, leaves, depth):
    """a dictionary related to d: some items kept, dropped, changed, added"""
    out = {}
    for k, v in d.items():
        x = rnd.random()
        if x < 0.45:
            out[k] = copy.deepcopy(v)
        elif x < 0.6:
            continue
        elif x < 0.8 and isinstance(v, dict):
            out[k] = mutate(rnd, v, keys, leaves, depth - 1)
        elif x < 0.9:
            out[k] = rnd.choice(leaves)()
        else:
            out[k] = cl.random_dict(rnd, keys, max(depth - 1, 1), leaves)
    for k in keys:
        if k not in out and rnd.random() < 0.15:
            out[k] = rnd.choice(leaves)() if rnd.random() < 0.7 else cl.random_dict(rnd, keys, max(depth - 1, 1), leaves)
    return out


def chain_ok(other, key):
    d = other
    while isinstance(d, dict) and key in d:
        d = d[key]
    return isinstance(d, dict)


def scribble(rnd, res, keys, leaves):
    """the caller treats a returned dictionary as its own: writes into it at a random depth (a new key, an
    existing key overwritten, a key removed, everything marked).  The arguments of the call are never used
    again, so whatever the result shares with them is not observed; every LATER call is validated by the trace
    specification as the function of its own arguments."""
    if not isinstance(res, dict):
        return
    x = rnd.random()
    if x < 0.3:
        cl.touch(res)
        return
    d = res
    while rnd.random() < 0.5:
        subs = [v for v in d.values() if isinstance(v, dict)]
        if not subs:
            break
        d = rnd.choice(subs)
    if x < 0.8 or not d:
        d[rnd.choice(keys)] = rnd.choice(leaves)() if rnd.random() < 0.6 else {rnd.choice(keys): rnd.choice(leaves)()}
    else:
        del d[rnd.choice(sorted(d))]


LAST_RESULT = [None]


def record(fns, op, args, lv, key):
    """execute one call on the real code, return the trace record"""
    rec, LAST_RESULT[0] = _record(fns, op, args, lv, key)
    return rec


def _record(fns, op, args, lv, key):
    enc = cl.Encoder()
    before = [enc.enc(a) for a in args]
    if op == "recon":
        it = fns.intersection(*args, level=lv)
        df = fns.difference(args[0], args[1], lv)
        fns.update_recursively(it, df)
        res = it
    else:
        res = call(fns, op, args, lv, key, False)
    return {"op": op, "lv": lv, "key": key, "args": before,
            "res": enc.enc(res) if isinstance(res, dict) else enc.enc({}),
            "post": [enc.enc(a) for a in args]}, res


def random_trace(ctx, fails, fns, n):
    rnd = random.Random(ctx.seed + 7)
    keys = ["a", "b", "c", "d"]
    leaves = leaf_pool()
    depth = 4 if ctx.thorough else 3
    trace = []
    nscribbled = [0]
    for _ in range(n):
        a = cl.random_dict(rnd, keys, depth, leaves)
        b = mutate(rnd, a, keys, leaves, depth)
        x = rnd.random()
        lv = rnd.choice([-1, -1, 0, 1, 2, 3, 4])
        key = "-"
        if x < 0.3:
            op = "inter"
            args = [a, b]
            for _k in range(rnd.choice([0, 0, 1, 2])):
                args.append(mutate(rnd, rnd.choice(args), keys, leaves, depth))
            if rnd.random() < 0.1:
                args = args[:1]
            rnd.shuffle(args)
        elif x < 0.55:
            op, args = "diff", [a, b]
        elif x < 0.7:
            op, args = "recon", [a, b]
        elif x < 0.75:
            # the string form; the record carries the dictionary the string (and value) stand for.
            # A history: the string is used on one dictionary, that dictionary is updated further below the
            # first key, then the same string is used on another dictionary - every call must do what it
            # does the first time.
            parts = [rnd.choice(keys) for _k in range(rnd.randint(1, 3))]
            novalue = len(parts) >= 2 and rnd.random() < 0.4
            value = rnd.choice(leaves)() if rnd.random() < 0.6 else cl.random_dict(rnd, keys, 2, leaves)
            if isinstance(value, str):
                value = 3
            if novalue:
                other, path = parts[-1], parts[:-1]
            else:
                other, path = value, parts
            for k in reversed(path):
                other = {k: other}
            targets = [a]
            if rnd.random() < 0.6:
                targets += [{parts[0]: cl.random_dict(rnd, keys, 2, leaves)}, b]     # [d, further update of d, d2]
            for n, tgt in enumerate(targets):
                if n == 1:
                    # an ordinary update of the first dictionary with a dictionary made on the spot
                    try:
                        trace.append(record(fns, "updrec", [a, tgt], -1, "-"))
                    except Exception as exc:     # noqa
                        fails.add("update_recursively:raised:%s" % exc_name(exc), 10 ** 6, {"d": a, "other": tgt})
                        break
                    continue
                snap = copy.deepcopy(tgt)
                enc = cl.Encoder()
                before = [enc.enc(snap), enc.enc(copy.deepcopy(other))]
                try:
                    if novalue:
                        fns.update_recursively(tgt, ".".join(parts))
                    else:
                        fns.update_recursively(tgt, ".".join(parts), copy.deepcopy(value))
                except Exception as exc:     # noqa
                    fails.add("update_recursively(string):raised:%s" % exc_name(exc), 10 ** 6,
                              {"d": snap, "other": ".".join(parts), "value": "-" if novalue else repr(value)})
                    break
                trace.append({"op": "updrec", "lv": -1, "key": "-", "args": before, "res": enc.enc({}),
                              "post": [enc.enc(tgt), before[1]]})
            continue
        elif x < 0.85:
            op, args, lv = "updrec", [a, b], -1
        else:
            op, args, lv = "nested", [a, b], -1
            key = rnd.choice(keys)
            if rnd.random() < 0.5:
                # a chain other.key.key...
                cur = args[1]
                for _k in range(rnd.randint(1, 3)):
                    cur[key] = cl.random_dict(rnd, [k for k in keys if k != key], 2, leaves)
                    cur = cur[key]
            if not chain_ok(args[1], key):
                continue        # inserting into a scalar is outside the documented domain
        if op in ("inter", "diff", "recon") and rnd.random() < 0.3:
            # one sub-dictionary object in two places of the arguments: the values (and so the record) say nothing
            # about it, and the result may not depend on it
            cl.alias_somewhere(rnd, args)
            if op == "recon" and args[0] is args[1]:
                args[1] = copy.deepcopy(args[1])
        snap = copy.deepcopy(args)
        try:
            trace.append(record(fns, op, args, lv, key))
            if op in ("inter", "diff", "recon") and rnd.random() < 0.4:
                # results are the caller's objects: written into between calls (round 8)
                scribble(rnd, LAST_RESULT[0], keys, leaves)
                nscribbled[0] += 1
        except Exception as exc:     # noqa
            fails.add("%s:raised:%s" % (FN[op], exc_name(exc)), 10 ** 6,
                      {"call": FN[op], "level": lv, "key": key, "args": snap, "exception": repr(exc)})
    ctx.extra["random_calls_whose_result_the_caller_wrote_into"] = nscribbled[0]
    return trace


def corrupt(r):
    """drop one item of a recorded intersection / difference result"""
    if r["op"] in ("inter", "diff") and r["res"]["m"]:
        m = dict(r["res"]["m"])
        m.pop(sorted(m)[0])
        return dict(r, res={"k": "D", "m": m})
    return None


# ---------------------------------------------------------------- REPO: calls made by the test-suite
def repo_trace(ctx):
    """run the repository's tests under the recorder plugin; return the recorded calls"""
    out = os.path.join(ctx.workdir, "repo_calls.json")
    env = dict(os.environ)
    env["LENAVERIF_RECORD"] = out
    env["LENAVERIF_RECORD_SET"] = "c07"
    env["PYTHONPATH"] = core.VERIF + os.pathsep + ctx.repo + os.pathsep + env.get("PYTHONPATH", "")
    cmd = [sys.executable, "-m", "pytest", "-q", "-x", "-p", "no:cacheprovider", "-p", "lenaverif.ctxrecorder",
           "--no-header", "-o", "addopts=", os.path.join(ctx.repo, "tests")]
    try:
        subprocess.run(cmd, cwd=ctx.repo, env=env, stdout=subprocess.PIPE, stderr=subprocess.STDOUT, timeout=600)
    except subprocess.TimeoutExpired:
        return []
    if not os.path.exists(out):
        return []
    with open(out) as f:
        return json.load(f)


def run(ctx):
    import lena.context as fns
    tag = "thorough" if ctx.thorough else "quick"
    try:
        probe = copy.deepcopy(fns.Context({"a": fns.Context({"b": 1})}))
        if type(probe) is fns.Context and probe == {"a": {"b": 1}}:
            CLASSES["Context"] = fns.Context
    except Exception:    # noqa
        pass
    ctx.assume("leaves are used only through == (and truth value); symbolic classes c0..c2 are instantiated "
               "by Python values of distinct equality classes, several representatives per class")
    ctx.assume("update_nested: the chain other.key.key... consists of dictionaries (inserting the old value "
               "into a scalar is not defined by the documentation)")
    ctx.assume("keys are strings; no recursive dictionaries")
    fails = Fails()
    rnd = random.Random(ctx.seed)
    tmod, tcfg = "Trace_CtxAlgebra", "Trace_CtxAlgebra.cfg"

    def repo_job():
        rtrace = repo_trace(ctx)
        return rtrace, (ctx.validate(tmod, tcfg, rtrace, label="repo") if rtrace else 0)

    with cl.Jobs(ctx, max_workers=10) as jobs:
        # ---- design level: the machine against the reference operators, then the laws of the statement
        f_mc = jobs.submit(ctx.mc, "CtxAlgebra", "CtxAlgebra_%s.cfg" % tag, coverage=True, must_cover=ACTIONS)
        f_laws = jobs.submit(ctx.mc, "CtxAlgebra", "CtxAlgebra_%s_laws.cfg" % tag)
        f_exp = jobs.submit(ctx.export, "CtxAlgebra", "CtxAlgebra_%s_export.cfg" % tag, min_records=1000)
        # ---- object level: sharing inside / between the arguments, histories of calls (CtxHeap)
        f_heap = jobs.submit(ctx.mc, "CtxHeap", "CtxHeap_%s.cfg" % tag, coverage=True, must_cover=HEAP_ACTIONS)
        f_hexp = [jobs.submit(ctx.export, "CtxHeap", "CtxHeap_%s_export_%s.cfg" % (tag, part), min_records=300)
                  for part in ("sharing", "history", "results")]
        # the explored universe must be able to tell wrong object-level algorithms from the right one
        guards = [("CtxHeap_guard_inplace.cfg", "the sharing universe does not refute narrowing the deep copy in place"),
                  ("CtxHeap_guard_strcache.cfg", "the histories do not refute a str_to_dict that hands out a kept dictionary"),
                  ("CtxHeap_guard_diffempty.cfg", "the result histories do not refute a difference that hands out one "
                                                  "module-level empty dictionary for equal arguments"),
                  ("CtxHeap_guard_interempty.cfg", "the result histories do not refute an intersection that hands out one "
                                                   "module-level empty dictionary"),
                  ("CtxHeap_guard_strdempty.cfg", "the result histories do not refute a str_to_dict('') that hands out one "
                                                  "module-level empty dictionary")]
        f_guards = [jobs.submit(ctx.mc, "CtxHeap", g, workers=2, expect_violation="report") for g, _ in guards]
        # ---- the repository's own tests as a trace source (Split static context, Zip, group_plots ...)
        f_repo = jobs.submit(repo_job)
        # ---- code -> spec: seeded random calls
        trace = random_trace(ctx, fails, fns, 20000 if ctx.thorough else 3000)
        f_trace = jobs.submit(ctx.validate, tmod, tcfg, trace)
        good = [r for r in trace if r["op"] in ("inter", "diff")][:40]
        f_demo = jobs.submit(ctx.binding_demo, tmod, tcfg, good, corrupt)
        # ---- spec -> code
        nval = 3 if ctx.thorough else 2
        small_size = 5 if ctx.thorough else 4
        ncalls = 0
        exports = [(f_exp, nval)]
        if ctx.thorough:
            exports += [(jobs.submit(ctx.export, "CtxAlgebra", c, min_records=1000), 2)
                        for c in ("CtxAlgebra_thorough_wide_export.cfg", "CtxAlgebra_thorough_deep_export.cfg")]

            def more():
                f_mc.result()
                f_laws.result()
                # all depth-2 pairs; depth 3 (nesting below one key); three keys; triples of depth-2 dictionaries
                for extra in ("full", "deep", "wide", "triples"):
                    ctx.mc("CtxAlgebra", "CtxAlgebra_thorough_%s.cfg" % extra)
                f_heap.result()
                ctx.mc("CtxHeap", "CtxHeap_thorough_any.cfg")        # any three updates of two dictionaries
            f_more = jobs.submit(more)
        for fut, nv in exports:
            recs = fut.result()
            ctx.sample({"spec_behaviour": recs[(2 * len(recs)) // 3]})
            for rec in recs:
                syms = cl.symbols_of(rec["args"])
                small = cl.size(rec["args"]) <= small_size
                for val in cl.valuations(syms, rnd, nv, systematic=small):
                    replay(ctx, fails, rec, val, rnd, fns)
                    ncalls += 1
                ctx.case([rec["op"], rec["lv"], rec["key"], rec["args"]],
                         nontrivial=any(cl.items(a) for a in rec["args"]))
            del recs
        # ---- spec -> code, object level: every program of the CtxHeap universes
        nprog = 0
        for fut in f_hexp:
            recs = fut.result()
            ctx.sample({"spec_behaviour_objects": recs[len(recs) // 2]})
            for rec in recs:
                syms = cl.graph_symbols([rec["env"], rec["prog"]])
                for val in cl.valuations(syms, rnd, nval):
                    replay_program(fails, rec, val, rnd, fns)
                    ncalls += len(rec["prog"])
                nprog += 1
                ctx.case(["objects", rec["env"], rec["prog"]])
            del recs
        ctx.extra["object_level_programs_s2c"] = nprog
        ctx.extra["implementation_calls_s2c"] = ncalls
        fails.report(ctx)
        f_heap.result()
        for (g, msg), f in zip(guards, f_guards):
            if f.result().violated != "StepsOK":
                raise core.MachineryError(msg)
        ctx.extra["object_level_guards"] = ("in-place narrowing, cached str_to_dict and a module-level empty dictionary "
                                            "returned by difference / intersection / str_to_dict refuted by TLC (StepsOK)")
        f_mc.result()
        f_laws.result()
        cl.account_trace(ctx, tmod, trace, f_trace.result(),
                         lambda r: "%s:level=%s" % (FN[r["op"]], r["lv"]))
        f_demo.result()
        if ctx.thorough:
            f_more.result()
        rtrace, racc = f_repo.result()
        ctx.extra["repo_suite_calls_recorded"] = len(rtrace)
        cl.account_trace(ctx, tmod, rtrace, racc,
                         lambda r: "repo-suite:%s:level=%s" % (FN[r["op"]], r["lv"]))
    return ctx.finish(
        rule="S2C: every call (function, arguments, level, key) of the bounded CtxAlgebra model, each executed "
             "under several valuations of the symbolic leaf classes (all injective valuations for the smallest "
             "arguments); non-trivial = some argument is a non-empty dictionary; C2S: seeded random related "
             "dictionaries (depth <= 3/4, 4 keys, list/tuple leaves) and the calls made by the repository's "
             "test-suite, validated by Trace_CtxAlgebra",
        exhaustive=True)
