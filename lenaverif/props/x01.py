"""X01  Sequence containers and structural transformations.

spec/SeqStructRef.tla   element kinds as capability sets; documented constructor contracts (BuildExcs),
                        Python sequence protocol (PyIndex, PySliceIdx), trees with FlattenRef, the alter
                        envelope, ClassRef / PredsOf (check_sequence_type docstrings), ReprAt
spec/SeqStruct.tla      one scenario per behaviour: constructors scanning their arguments, item / slice /
                        eq, flatten with an explicit stack, alter_sequence, the branch decision chain, repr
spec/Trace_SeqStruct.tla  validation of recorded calls on larger random scenarios

S2C: every scenario of the bounded model is executed on lena.core (Sequence, Source, FillSeq,
FillComputeSeq, FillRequestSeq, flatten, alter_sequence, Split's branch classification, the is_* predicates).
"""
import random
import warnings

from .. import core
from .. import ctxlib as cl
from .. import seqlib as sl
from ..util import exc_name

ACTIONS = ("BStart", "BScan", "BScanEnd", "BFinish", "IItem", "ISlice", "EEq", "FStart", "FStep", "FReturn",
           "AStart", "AAsk", "AFinish", "CExplicit", "CElement", "CTuple", "RRepr")
NONE = -1000
SEQ_KINDS = ("Sequence", "Source", "FillSeq", "FillComputeSeq", "FillRequestSeq")


def py(x):
    return None if x == NONE else x


def observe(fn):
    try:
        return {"ok": True, "r": fn()}
    except Exception as exc:     # noqa
        return {"ok": False, "exc": exc_name(exc), "msg": repr(exc)[:120]}


def srepr(x):
    """repr that cannot fail (a broken element must not break the report)"""
    try:
        return repr(x)
    except Exception as exc:     # noqa
        return "<unprintable: %s>" % exc_name(exc)


def same_objects(a, b):
    a, b = list(a), list(b)
    return len(a) == len(b) and all(x is y for x, y in zip(a, b))


class Replay(object):
    def __init__(self, ctx, lcore, rnd):
        self.ctx, self.core, self.rnd = ctx, lcore, rnd
        self.fails = cl.Fails()
        self.ncalls = 0

    def fail(self, key, size, **detail):
        self.fails.add(key, size, detail)

    # ------------------------------------------------------------ constructors + container protocol
    def check_container(self, name, seq, objs, sz, scen):
        n = len(objs)
        o = observe(lambda: len(seq))
        if not o["ok"] or o["r"] != n:
            self.fail("%s:len" % name, sz, scenario=scen, observed=o, expected=n)
            return
        for _ in range(2):          # iteration, repeatable, in the order of the arguments
            o = observe(lambda: list(seq))
            if not o["ok"] or not same_objects(o["r"], objs):
                self.fail("%s:iteration" % name, sz, scenario=scen, observed=srepr(o)[:200], expected=srepr(objs))
                return
        for i in range(-n, n):
            o = observe(lambda: seq[i])
            if not o["ok"] or o["r"] is not objs[i]:
                self.fail("%s:getitem" % name, sz, scenario=scen, index=i, observed=srepr(o)[:200])
                return
        for i in (n, -n - 1, n + 3):
            o = observe(lambda: seq[i])
            if o["ok"] or o["exc"] != "Other:IndexError":
                self.fail("%s:getitem:no-IndexError" % name, sz, scenario=scen, index=i, observed=srepr(o)[:200])
                return

    def rp_build(self, rec):
        sc = rec["sc"]
        kind, els, kw, single = sc["kind"], sc["els"], sc["kw"], sc["single"]
        objs = [sl.make(k, "e%d" % j) for j, k in enumerate(els)]
        scen = {"class": kind, "elements": els, "kwargs": sl.FRS_KW[kw] if kind == "FillRequestSeq" else {},
                "single_tuple": single}
        sz = len(els)
        o = observe(lambda: sl.construct(self.core, kind, objs, kw, single))
        self.ncalls += 1
        obs = "" if o["ok"] else o["exc"]
        if obs not in rec["allowed"]:
            what = "not-built" if "" in rec["allowed"] else "built" if o["ok"] else "wrong-exception"
            form = "(single tuple)" if single else ""
            self.fail("%s%s:%s:%s" % (kind, form, what, obs or "ok"), sz, scenario=scen, observed=o.get("msg", "built"),
                      allowed=rec["allowed"])
            return
        if o["ok"] and (not single or kind == "Sequence"):
            seq = o["r"]
            self.check_container(kind, seq, objs, sz, scen)
            if single:
                # the same sequence as with the elements given one by one
                other = sl.construct(self.core, kind, objs, kw, False)
                if not (seq == other) or seq != other or repr(seq) != repr(other):
                    self.fail("%s(single tuple):differs-from-unpacked" % kind, sz, scenario=scen)

    def rp_item(self, rec, slice_mode):
        sc, out = rec["sc"], rec["out"]
        n = sc["n"]
        for kind in SEQ_KINDS:
            objs = sl.universal(self.core, kind, n)
            if objs is None:
                continue
            made = observe(lambda: sl.construct(self.core, kind, objs))
            self.ncalls += 1
            if not made["ok"]:
                self.fail("%s:not-built:%s" % (kind, made["exc"]), n, elements=srepr(objs), observed=made)
                continue
            seq = made["r"]
            if slice_mode:
                a, b, s = py(sc["a"]), py(sc["b"]), py(sc["s"])
                o = observe(lambda: seq[a:b:s])
                want = [objs[p - 1] for p in out["pos"]]
                if not o["ok"] or not same_objects(o["r"], want):
                    self.fail("%s:slice" % kind, n, n=n, slice=[a, b, s], observed=srepr(o)[:200], expected=srepr(want))
            else:
                a = sc["a"]
                o = observe(lambda: seq[a])
                if out["ok"]:
                    if not o["ok"] or o["r"] is not objs[out["pos"] - 1]:
                        self.fail("%s:getitem" % kind, n, n=n, index=a, observed=srepr(o)[:200])
                elif o["ok"] or o["exc"] != "Other:IndexError":
                    self.fail("%s:getitem:no-IndexError" % kind, n, n=n, index=a, observed=srepr(o)[:200])

    def rp_eq(self, rec):
        sc = rec["sc"]
        if not (rec["b1"] and rec["b2"]):
            return
        pool = {1: sl.CallEl("p1"), 2: sl.CallEl("p2"), 3: sl.UniEl("p3")}
        scen = {"left": [sc["kind"], sc["ids"]], "right": [sc["kind2"], sc["ids2"]]}
        sz = len(sc["ids"]) + len(sc["ids2"])
        m1 = observe(lambda: sl.construct(self.core, sc["kind"], [pool[j] for j in sc["ids"]]))
        m2 = observe(lambda: sl.construct(self.core, sc["kind2"], [pool[j] for j in sc["ids2"]]))
        self.ncalls += 1
        for kind, m in ((sc["kind"], m1), (sc["kind2"], m2)):
            if not m["ok"]:
                self.fail("%s:not-built:%s" % (kind, m["exc"]), sz, scenario=scen, observed=m)
        if not (m1["ok"] and m2["ok"]):
            return
        s1, s2 = m1["r"], m2["r"]
        eq, ne = observe(lambda: s1 == s2), observe(lambda: s1 != s2)
        if not (eq["ok"] and ne["ok"] and isinstance(eq["r"], bool) and isinstance(ne["r"], bool)):
            self.fail("eq:not-a-boolean", sz, scenario=scen, observed=[repr(eq)[:80], repr(ne)[:80]])
            return
        verdict = rec["out"]["verdict"]
        if eq["r"] == ne["r"]:
            self.fail("eq:ne-is-not-the-negation", sz, scenario=scen)
        elif verdict == "eq" and not eq["r"]:
            self.fail("eq:%s:same-elements-unequal" % sc["kind"], sz, scenario=scen)
        elif verdict == "ne" and eq["r"]:
            self.fail("eq:%s:different-elements-equal" % sc["kind"], sz, scenario=scen)
        if (s2 == s1) != eq["r"]:
            self.fail("eq:not-symmetric", sz, scenario=scen)

    # ------------------------------------------------------------ trees
    def rp_flat(self, rec):
        tree = rec["sc"]["tree"]
        obj, leaves = sl.build_tree(self.core, tree)
        before = sl.leaf_elements(self.core, obj) if tree["t"] != "el" else [obj]
        o = observe(lambda: self.core.flatten(obj))
        self.ncalls += 1
        sz = cl_size(tree)
        if not o["ok"]:
            self.fail("flatten:raised:%s" % o["exc"], sz, tree=tree, observed=o)
            return
        out = rec["out"]
        if out["same"]:
            if o["r"] is not obj:
                self.fail("flatten:flat-input-not-returned-as-is", sz, tree=tree, observed=srepr(o["r"])[:200])
        else:
            want = [leaves[tuple(p)] if tuple(p) in leaves else sub_object(obj, p) for p in out["els"]]
            got = observe(lambda: list(o["r"]))
            if not got["ok"] or not same_objects(got["r"], want):
                self.fail("flatten:wrong-elements", sz, tree=tree, observed=srepr(got)[:300], expected=srepr(want)[:300])
        after = sl.leaf_elements(self.core, obj) if tree["t"] != "el" else [obj]
        if not same_objects(before, after):
            self.fail("flatten:argument-changed", sz, tree=tree)

    def rp_alter(self, rec):
        tree = rec["sc"]["tree"]
        obj, leaves = sl.build_tree(self.core, tree)
        sz = cl_size(tree)
        alt = [leaves.get(tuple(p), obj) for p in rec["alt"]]
        before = sl.leaf_elements(self.core, obj) if tree["t"] != "el" else [obj]
        results = []
        for _ in range(2):
            del sl.LOG[:]
            o = observe(lambda: self.core.alter_sequence(obj))
            self.ncalls += 1
            if not o["ok"]:
                self.fail("alter_sequence:raised:%s" % o["exc"], sz, tree=tree, observed=o)
                return
            r = o["r"]
            asked = [a for a, _, _ in sl.LOG]
            if any(not any(a is x for x in alt) for a in asked):
                self.fail("alter_sequence:consulted-a-foreign-element", sz, tree=tree, asked=srepr(asked))
            produced = [new for _, _, new in sl.LOG]
            if rec["mustsame"]:
                if r is not obj:
                    self.fail("alter_sequence:changed-although-nothing-alters", sz, tree=tree, observed=srepr(r)[:200])
            elif tree["t"] == "el":
                # the element's own alter_sequence decides
                if not (len(sl.LOG) >= 1 and any(r is new for new in produced)):
                    self.fail("alter_sequence:element-answer-not-returned", sz, tree=tree, observed=srepr(r)[:200])
            elif r is not obj:
                # nothing invented: made of the elements at hand
                pool = before + [e for new in produced for e in sl.leaf_elements(self.core, new)]
                got = sl.leaf_elements(self.core, r)
                if any(not any(g is x for x in pool) for g in got):
                    self.fail("alter_sequence:foreign-elements-in-result", sz, tree=tree, observed=srepr(r)[:200])
            results.append(r is obj)
        if len(set(results)) != 1:
            self.fail("alter_sequence:not-repeatable", sz, tree=tree)
        after = sl.leaf_elements(self.core, obj) if tree["t"] != "el" else [obj]
        if not same_objects(before, after):
            self.fail("alter_sequence:argument-changed", sz, tree=tree)

    def rp_repr(self, rec):
        tree = rec["sc"]["tree"]
        if tree["t"] in ("el", "tuple"):
            return
        obj, leaves = sl.build_tree(self.core, tree)
        sz = cl_size(tree)
        lines = []
        for pc in rec["out"]["pieces"]:
            ind = " " * 4 * pc["ind"]
            if pc["kind"] == "comma":
                lines[-1] += ","
            elif pc["kind"] == "el":
                lines.append(ind + repr(leaves[tuple(pc["p"])]))
            elif pc["kind"] == "open":
                lines.append(ind + pc["name"] + "(")
            elif pc["kind"] == "empty":
                lines.append(ind + pc["name"] + "()")
            else:
                lines.append(ind + ")")
        want = "\n".join(lines)
        o = observe(lambda: repr(obj))
        self.ncalls += 1
        if not o["ok"] or o["r"] != want:
            self.fail("repr:nested-style", sz, tree=tree, observed=o.get("r", o), expected=want)
        if rec["out"]["flat"] and hasattr(obj, "_repr_nested"):
            # the one-line style of a sequence without nested sequences
            els = [leaves[(j + 1,)] for j in range(len(tree["c"]))]
            want1 = "%s(%s)" % (tree["t"], ", ".join(repr(e) for e in els))
            o = observe(lambda: obj._repr_nested(el_separ=", ", indent=""))
            if not o["ok"] or o["r"] != want1:
                self.fail("repr:one-line-style", sz, tree=tree, observed=o.get("r", o), expected=want1)

    # ------------------------------------------------------------ classification
    def branch_object(self, form, els):
        objs = [sl.make(k, "e%d" % j) for j, k in enumerate(els)]
        if form == "el":
            return objs[0], objs
        if form == "tuple":
            return tuple(objs), objs
        return sl.construct(self.core, form, objs), objs

    def classify(self, x):
        """(result record, the sequence made) through Split's classification of one branch"""
        import lena.core.split as split
        fn = getattr(split, "_get_seq_with_type", None)
        with warnings.catch_warnings():
            warnings.simplefilter("ignore")
            if fn is not None:
                o = observe(lambda: fn(x, 10))
                if o["ok"]:
                    seq, typ = o["r"]
            else:
                o = observe(lambda: self.core.Split([x], bufsize=10))
                if o["ok"]:
                    try:
                        seq, typ = o["r"]._seqs[0], o["r"]._seq_types[0]
                    except AttributeError:
                        # the private helper and the private lists were renamed: the classification is then
                        # observed only from outside (split_type); no alarm for names that are not public
                        self.private_unobservable = True
                        return None, None
        if not o["ok"]:
            return {"ok": False, "type": "", "built": "", "kept": False, "exc": o["exc"]}, None
        kept = seq is x
        if kept:
            built = type(x).__name__ if isinstance(x, self.core.LenaSequence) else "el"
        else:
            built = type(seq).__name__
        return {"ok": True, "type": typ, "built": built, "kept": kept, "exc": ""}, seq

    def split_type(self, x):
        """the type of a one-branch Split seen from outside: the common-type methods it offers"""
        with warnings.catch_warnings():
            warnings.simplefilter("ignore")
            o = observe(lambda: self.core.Split([x], bufsize=10))
        if not o["ok"]:
            return o["exc"]
        s = o["r"]
        if hasattr(s, "compute"):
            return "fill_compute"
        if hasattr(s, "request"):
            return "fill_request"
        c = observe(lambda: list(zip(range(1), s())))
        return "source" if c["ok"] else "sequence"

    def rp_class(self, rec):
        sc = rec["sc"]
        form, els = sc["kind"], sc["els"]
        scen = {"branch": form, "elements": els}
        sz = len(els)
        made = observe(lambda: self.branch_object(form, els))
        if not made["ok"]:
            self.fail("%s:not-built:%s" % (form, made["exc"]), sz, scenario=scen, observed=made)
            return
        x, objs = made["r"]
        res, seq = self.classify(x)
        self.ncalls += 1
        if res is None:
            pass
        elif res not in rec["callowed"]:
            exp = rec["callowed"][0]
            if not res["ok"] and exp["ok"]:
                key = "classify:raised:%s" % res["exc"]
            elif res["ok"] and not exp["ok"]:
                key = "classify:accepted:%s" % res["type"]
            elif not res["ok"]:
                key = "classify:wrong-exception:%s" % res["exc"]
            elif res["type"] != exp["type"]:
                key = "classify:type:%s-instead-of-%s" % (res["type"], exp["type"])
            else:
                key = "classify:sequence:%s-instead-of-%s" % (res["built"], exp["built"])
            self.fail(key, sz, scenario=scen, observed=res, allowed=rec["callowed"])
        elif res["ok"] and not res["kept"] and seq is not None:
            # the derived sequence consists of the branch's elements
            if not same_objects(list(seq), objs):
                self.fail("classify:derived-sequence-elements", sz, scenario=scen, observed=srepr(seq)[:200])
        # the same from outside, for one-branch Splits
        st = self.split_type(x)
        types = set(r["type"] if r["ok"] else r["exc"] for r in rec["callowed"])
        if st not in types:
            self.fail("Split:common-type:%s" % st, sz, scenario=scen, allowed=sorted(types))
        for name, want in rec["preds"].items():
            fn = getattr(self.core, name, None)
            if fn is None:
                continue
            o = observe(lambda: fn(x))
            if not o["ok"] or bool(o["r"]) != want:
                self.fail("%s:%s" % (name, "raised:" + o["exc"] if not o["ok"] else "wrong"), sz, scenario=scen,
                          observed=o, expected=want)

    def run_record(self, rec):
        mode = rec["sc"]["mode"]
        if mode == "build":
            self.rp_build(rec)
        elif mode == "item":
            self.rp_item(rec, False)
        elif mode == "slice":
            self.rp_item(rec, True)
        elif mode == "eq":
            self.rp_eq(rec)
        elif mode == "flat":
            self.rp_flat(rec)
        elif mode == "alter":
            self.rp_alter(rec)
        elif mode == "repr":
            self.rp_repr(rec)
        elif mode == "class":
            self.rp_class(rec)
        else:
            raise core.MachineryError("unknown mode %r" % (mode,))


def cl_size(tree):
    return 1 + sum(cl_size(c) for c in tree["c"])


def sub_object(obj, path):
    for j in path:
        obj = list(obj)[j - 1]
    return obj


# ---------------------------------------------------------------- C2S: seeded random scenarios
def random_tree(rnd, depth, width, root=True):
    if depth == 0 or (not root and rnd.random() < 0.45):
        return {"t": "el", "k": rnd.choice(["call", "call", "same", "cut"]), "c": []}
    t = rnd.choice(["Sequence", "Sequence", "Source", "tuple"] if root else ["Sequence", "Sequence", "Source"])
    n = rnd.randint(0, width)
    cs = [random_tree(rnd, depth - 1, width, False) for _ in range(n)]
    if t == "Source":
        if not cs:
            cs = [{"t": "el", "k": "call", "c": []}]
        cs[0] = {"t": "el", "k": "call", "c": []}
    return {"t": t, "k": "", "c": cs}


def paths_of(lcore, obj, tree):
    """paths of the leaf objects of a flatten result, by identity"""
    index = {}

    def rec(x, o, p):
        if x["t"] == "el":
            index[id(o)] = list(p)
        else:
            for j, (c, oc) in enumerate(zip(x["c"], list(o))):
                rec(c, oc, p + [j + 1])
    rec(tree, obj, [])
    return index


def random_trace(ctx, rp, n):
    rnd = random.Random(ctx.seed + 23)
    lcore = rp.core
    kinds = ["call", "run", "runb", "fc", "fcr", "fr", "fi", "fill", "iter", "none", "nodata", "uni"]
    trace = []
    for _ in range(n):
        x = rnd.random()
        if x < 0.3:
            kind = rnd.choice(SEQ_KINDS)
            els = [rnd.choice(kinds if rnd.random() < 0.5 else ["call", "call", "fc", "fr", "fill", "run"])
                   for _ in range(rnd.randint(0, 6))]
            if kind in ("Source", "FillSeq", "FillComputeSeq", "FillRequestSeq"):
                els = [k for k in els if k != "nodata"]         # static-context elements: Sequence only
            if kind == "Source" and els and rnd.random() < 0.7:
                els[0] = rnd.choice(["call", "iter"])
            kw = rnd.choice(["ok", "ok", "ok", "noreset", "nobuf", "unknown"]) if kind == "FillRequestSeq" else "ok"
            single = rnd.random() < 0.1
            objs = [sl.make(k, "e%d" % j) for j, k in enumerate(els)]
            o = observe(lambda: sl.construct(lcore, kind, objs, kw, single))
            ln = -1
            if o["ok"]:
                l = observe(lambda: len(o["r"]))
                ln = l["r"] if l["ok"] else -2
            trace.append({"mode": "build", "kind": kind, "els": els, "kw": kw, "single": single,
                          "obs": "" if o["ok"] else o["exc"], "len": ln})
        elif x < 0.5:
            kind = rnd.choice(SEQ_KINDS)
            nn = rnd.randint(0 if kind == "Sequence" else 1, 12)
            objs = sl.universal(lcore, kind, nn)
            made = observe(lambda: sl.construct(lcore, kind, objs))
            if not made["ok"]:
                rp.fail("%s:not-built:%s" % (kind, made["exc"]), 10 ** 6, elements=srepr(objs))
                continue
            seq = made["r"]
            pos_of = dict((id(o), j + 1) for j, o in enumerate(objs))
            if rnd.random() < 0.3:
                a = rnd.randint(-nn - 3, nn + 3)
                o = observe(lambda: seq[a])
                pos = pos_of.get(id(o["r"]), -1) if o["ok"] else (0 if o["exc"] == "Other:IndexError" else -1)
                trace.append({"mode": "item", "n": nn, "a": a, "pos": pos})
            else:
                def bound():
                    return NONE if rnd.random() < 0.25 else rnd.randint(-nn - 3, nn + 3)
                a, b = bound(), bound()
                s = NONE if rnd.random() < 0.3 else rnd.choice([1, 2, 3, 5, -1, -2, -3])
                o = observe(lambda: seq[py(a):py(b):py(s)])
                pos = [pos_of.get(id(e), -1) for e in o["r"]] if o["ok"] else [-1]
                trace.append({"mode": "slice", "n": nn, "a": a, "b": b, "s": s, "pos": pos})
        elif x < 0.75:
            tree = random_tree(rnd, 4, 4)
            obj, leaves = sl.build_tree(lcore, tree)
            o = observe(lambda: lcore.flatten(obj))
            if not o["ok"]:
                rp.fail("flatten:raised:%s" % o["exc"], 10 ** 6, tree=tree)
                continue
            if o["r"] is obj:
                trace.append({"mode": "flat", "tree": tree, "same": True, "els": []})
            else:
                index = paths_of(lcore, obj, tree)
                # nested tuples are elements: name them by their path too
                def path_of(e):
                    if id(e) in index:
                        return index[id(e)]
                    return find_path(obj, e) or [-1]
                trace.append({"mode": "flat", "tree": tree, "same": False, "els": [path_of(e) for e in o["r"]]})
        else:
            form = rnd.choice(["tuple", "tuple", "tuple", "el"])
            ks = [k for k in kinds if k not in ("nodata", "iter")]
            els = [rnd.choice(ks)] if form == "el" else [rnd.choice(ks if rnd.random() < 0.4 else ["call", "run", "fc", "fr", "fcr"])
                                                        for _ in range(rnd.randint(0, 5))]
            made = observe(lambda: rp.branch_object(form, els))
            if not made["ok"]:
                continue
            x_obj, objs = made["r"]
            if rnd.random() < 0.5:
                res, _ = rp.classify(x_obj)
                if res is None:      # private names not observable: nothing to validate
                    continue
                trace.append({"mode": "class", "form": form, "els": els, "res": res})
            else:
                preds = {}
                for name in ("is_source", "is_fill_compute_seq", "is_fill_request_seq", "is_run_el"):
                    o = observe(lambda: bool(getattr(lcore, name)(x_obj)))
                    if not o["ok"]:
                        rp.fail("%s:raised:%s" % (name, o["exc"]), 10 ** 6, scenario={"branch": form, "elements": els})
                        break
                    preds[name] = o["r"]
                else:
                    trace.append({"mode": "preds", "form": form, "els": els, "preds": preds})
    return trace


def find_path(obj, target, p=None):
    p = p or []
    if obj is target:
        return p
    if isinstance(obj, tuple) or hasattr(obj, "_seq"):
        for j, e in enumerate(list(obj)):
            r = find_path(e, target, p + [j + 1])
            if r:
                return r
    return None


def corrupt(r):
    """drop one position of a recorded slice / one element of a flattening"""
    if r["mode"] == "slice" and len(r["pos"]) >= 1:
        return dict(r, pos=r["pos"][:-1])
    if r["mode"] == "flat" and not r["same"] and len(r["els"]) >= 2:
        return dict(r, els=list(reversed(r["els"])))
    return None


def trace_key(r):
    if r["mode"] == "build":
        return "build:%s:%s" % (r["kind"], r["obs"] or "built")
    if r["mode"] in ("class", "preds"):
        return "%s:%s" % (r["mode"], r["form"])
    return r["mode"]


def run(ctx):
    import lena.core as lcore
    tag = "thorough" if ctx.thorough else "quick"
    ctx.assume("an element kind stands for a capability set; harness classes have exactly those methods")
    ctx.assume("where the documentation is silent the specification allows a set of outcomes: a single tuple "
               "argument for classes other than Sequence, equality between sequences of different classes, "
               "what alter_sequence builds from the elements' answers, the container type of a slice")
    ctx.assume("static-context elements (_has_no_data) are used in Sequence only; keyword arguments of "
               "FillRequestSeq: reset=False, buffer_input=True unless the scenario says otherwise")
    rnd = random.Random(ctx.seed)
    rp = Replay(ctx, lcore, rnd)
    tmod, tcfg = "Trace_SeqStruct", "Trace_SeqStruct.cfg"
    with cl.Jobs(ctx, max_workers=8) as jobs:
        f_mc = jobs.submit(ctx.mc, "SeqStruct", "SeqStruct_%s.cfg" % tag, coverage=True, must_cover=ACTIONS)
        f_laws = jobs.submit(ctx.mc, "SeqStruct", "SeqStruct_%s_laws.cfg" % tag)
        f_exp = jobs.submit(ctx.export, "SeqStruct", "SeqStruct_%s_export.cfg" % tag, min_records=1000)
        trace = random_trace(ctx, rp, 12000 if ctx.thorough else 2500)
        f_trace = jobs.submit(ctx.validate, tmod, tcfg, trace)
        f_demo = jobs.submit(ctx.binding_demo, tmod, tcfg,
                             [r for r in trace if r["mode"] in ("slice", "flat")][:40], corrupt)
        recs = f_exp.result()
        for m in ("build", "flat", "class"):
            ctx.sample({"spec_behaviour": [r for r in recs if r["sc"]["mode"] == m
                                           and (len(r["sc"]["els"]) >= 2 or len(r["sc"]["tree"]["c"]) >= 2)][7]})
        for rec in recs:
            rp.run_record(rec)
            sc = rec["sc"]
            ctx.case(sc, nontrivial=bool(sc["els"]) or sc["n"] > 0 or bool(sc["ids"]) or bool(sc["tree"]["c"]))
        ctx.extra["implementation_calls_s2c"] = rp.ncalls
        rp.fails.report(ctx)
        f_mc.result()
        f_laws.result()
        cl.account_trace(ctx, tmod, trace, f_trace.result(), trace_key)
        f_demo.result()
    return ctx.finish(
        rule="S2C: every scenario of the bounded SeqStruct model (constructors of the five sequence classes over "
             "all element lists up to length 2 (3) of 11 (12) kinds, indices and slices on containers up to length "
             "3 (5), equality of all pairs, flatten / alter_sequence / repr on all trees of depth <= 2 (3), the branch "
             "classification of all tuples up to length 2 (3)); non-trivial = non-empty; C2S: seeded random larger "
             "scenarios validated by Trace_SeqStruct",
        exhaustive=True)
