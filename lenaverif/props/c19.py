"""C19  Output files always match the current data and nothing unchanged is redone.

spec/OutputRef.tla      the statement as predicates (Current, RegeneratedPdf/Png, ChangedFlag, Nothing)
spec/Output.tla         the chain Write - Write - LaTeXToPDF - PDFToPNG with output.changed over histories
                        of runs (changed data / template, deleted files, Write and converter options)
spec/Trace_Output.tla   runs recorded from the real chain, judged by the predicates of OutputRef
spec/MakeFilename.tla   naming rules of MakeFilename on chains of elements
lenaverif/outlib.py     scratch workspace, stub converters, audit of writes, replay, sharded validation
"""
import random

from .. import core
from .. import outlib as ol
from ..util import exc_name

MUST = ("Delete", "ChangeData", "ChangeTpl", "StartRun", "WriteCSV", "WriteTeX", "LaTeX", "PNG")


# ---------------------------------------------------------------------------- MakeFilename
VAL = "VAL"
FIELDS = ("filename", "dirname", "fileext", "prefix", "suffix")
ARGS = (("filename", "fn", "f"), ("dirname", "dn", "d"), ("fileext", "fe", "e"), ("prefix", "px", "p"),
        ("suffix", "sx", "s"))


def _render(field):
    if not field["has"]:
        return None
    return "".join(VAL if t[0] == "V" else "%s%d" % (t[0], t[1]) for t in field["v"])


def mf_key(rec):
    def name(el):
        return "".join(l for _, flag, l in ARGS if el[flag]) + ("!" if el["ow"] else "") + ("?" if el["nk"] else "")
    c0 = rec["c0"]
    return "%s|var=%d,name=%d,affix=%d" % (">".join(name(el) for el in rec["chain"]),
                                           c0["var"], c0["fn0"], c0["ax0"])


def replay_makefilename(ctx, rec):
    import lena.output
    c0 = rec["c0"]
    context = {}
    if c0["var"]:
        context["var"] = VAL
    out0 = {}
    if c0["fn0"]:
        out0["filename"] = "F0"
    if c0["ax0"]:
        out0["prefix"], out0["suffix"] = "P0", "S0"
    if out0:
        context["output"] = out0
    val = ("data", context) if context else "data"
    exp = {k: _render(rec["out"][k]) for k in FIELDS}
    try:
        for i, el in enumerate(rec["chain"], 1):
            kw = {key: "%s%d" % (letter, i) + ("{{var}}" if el["nk"] else "")
                  for key, flag, letter in ARGS if el[flag]}
            val = lena.output.MakeFilename(overwrite=el["ow"], **kw)(val)
        res = val[1].get("output", {}) if isinstance(val, tuple) else {}
        got = {k: res.get(k) for k in FIELDS}
        data_ok = (val[0] if isinstance(val, tuple) else val) == "data"
    except Exception as exc:   # noqa
        got, data_ok = "raised " + exc_name(exc), True
    ctx.case(["makefilename", rec["chain"], c0], nontrivial=len(rec["chain"]) > 1)
    if got != exp or not data_ok:
        return {"chain": rec["chain"], "c0": c0, "expected": exp, "observed": got}
    return None


def report_makefilename(ctx, failures):
    """One violation per shortest failing chain shape (smallest initial context as the example)."""
    if not failures:
        return
    shortest = min(len(f["chain"]) for f in failures)
    by_shape = {}
    for f in failures:
        if len(f["chain"]) == shortest:
            by_shape.setdefault(mf_key(f).split("|")[0], []).append(f)
    for shape in sorted(by_shape)[:12]:
        fs = by_shape[shape]
        f = min(fs, key=lambda x: (x["c0"]["var"], x["c0"]["fn0"], x["c0"]["ax0"]))
        ctx.violation("MakeFilename:%s" % mf_key(f), dict(f, failing_contexts=len(fs), failing_scenarios=len(failures)))


# ---------------------------------------------------------------------------- output chain
def items_from_export(recs, same_every=3):
    items = []
    for i, r in enumerate(recs):
        steps = [x["touched"] for x in r["h"]]
        items.append((r["np"], r["set"], steps, i % same_every == 0))
    return items


def random_history(rnd):
    np_ = rnd.choice([1, 2, 2, 3])
    st = {"m1": rnd.choice(["check", "check", "existing_unchanged", "overwrite"]),
          "m2": rnd.choice(["check", "check", "existing_unchanged", "overwrite"]),
          "lo": rnd.random() < 0.15, "po": rnd.random() < 0.15}
    steps = [{"del": [], "data": [], "tpl": False}]
    for _ in range(rnd.randint(2, 5)):
        dels = sorted([p, k] for p in range(1, np_ + 1) for k in ol.KINDS if rnd.random() < 0.2)
        deleted = set((p, k) for p, k in dels)
        # existing_unchanged: the data / template change only when the file to be written is gone
        data = [p for p in range(1, np_ + 1) if rnd.random() < 0.35
                and (st["m1"] != "existing_unchanged" or (p, "csv") in deleted)]
        tpl = rnd.random() < 0.25 and (st["m2"] != "existing_unchanged"
                                      or all((p, "tex") in deleted for p in range(1, np_ + 1)))
        steps.append({"del": dels, "data": data, "tpl": tpl})
    return (np_, st, steps, rnd.random() < 0.3)


def binding_demo(ctx):
    import os
    d = os.path.join(ctx.workdir, "demo")
    ws = ol.Workspace(os.path.join(d, "ws"))
    st = {"m1": "check", "m2": "check", "lo": False, "po": False}
    with ws.activated():
        runs = ol.run_history(ws, 1, st, [{}, {"data": [1]}, {}])
    good = {"np": 1, "set": st, "runs": runs}
    notes = []
    for field, pred in (("pdf", "Current_pdf"), ("launch", "NoRedo")):
        bad = {"np": 1, "set": st, "runs": [dict(r, obs=[dict(o) for o in r["obs"]]) for r in runs]}
        if field == "pdf":       # the pdf of the second run was made from the old data
            o = bad["runs"][1]["obs"][0]
            o["files"] = dict(o["files"], pdf=dict(o["files"]["pdf"], d=1))
            where = 1
        else:                    # a converter launched in the third run although nothing changed
            o = bad["runs"][2]["obs"][0]
            o["launched"] = dict(o["launched"], png=True)
            where = 2
        verdicts, stats = ol.validate_shard(d, [good, bad], "demo")
        ctx._account("trace", "Trace_Output", stats["cfg"], ol._Res(stats))
        if stats["exit"] != 0:
            raise core.MachineryError("binding demo: TLC failed: %s" % stats["tail"])
        if 0 in verdicts:
            ctx.extra.setdefault("binding_demo", []).append("skipped: the uncorrupted history was rejected")
            return
        got = verdicts.get(1, [])
        if not got or min(j for j, _, _ in got) != where or pred not in [q for j, q, _ in got if j == where]:
            raise core.MachineryError("Trace_Output does not bind: corrupted %s in run %d, verdicts %r" % (field, where, got))
        notes.append("Trace_Output: run %d with %s corrupted -> %s reported for exactly that run; uncorrupted history accepted"
                     % (where, field, pred))
    ctx.extra.setdefault("binding_demo", []).extend(notes)


def run(ctx):
    tag = "thorough" if ctx.thorough else "quick"
    ctx.assume("converters are stubs: LaTeXToPDF.create_command runs a script writing PDF(<tex>|<csv>), a fake pdftoppm "
               "first on PATH writes PNG(<pdf>); both log their invocations; file writes are seen through an audit hook")
    ctx.assume("under Write(existing_unchanged=True) the histories keep existing files up to date (the option's "
               "documented assumption); NoRedo is not claimed when an overwrite option is set")
    # ---- design level
    ctx.mc("Output", "Output_%s.cfg" % tag, coverage=True, must_cover=MUST)
    if ctx.thorough:
        ctx.mc("Output", "Output_thorough2.cfg")
    pinned = ctx.mc("Output", "Output_pinned.cfg", expect_violation="report")
    ctx.extra["model_of_pinned_design"] = (
        "CreatedSetsChanged=FALSE: TLC refutes %s" % pinned.violated if pinned.violated else
        "CreatedSetsChanged=FALSE: no invariant refuted")
    ctx.mc("MakeFilename", "MakeFilename_%s.cfg" % tag, coverage=True, must_cover=("Step",))
    if ctx.thorough:
        ctx.mc("MakeFilename", "MakeFilename_thorough2.cfg")
    # ---- MakeFilename: spec -> code
    recs = ctx.export("MakeFilename", "MakeFilename_%s_export.cfg" % tag, min_records=1000)
    report_makefilename(ctx, [f for f in (replay_makefilename(ctx, rec) for rec in recs) if f])
    ctx.sample({"makefilename_behaviour": recs[len(recs) // 3]})
    del recs
    # ---- output chain: spec -> code
    items = []
    for part in ("a", "b", "c") + (("d",) if ctx.thorough else ()):
        recs = ctx.export("Output", "Output_%s_export_%s.cfg" % (tag, part), min_records=50)
        if part == "a":
            ctx.sample({"exported_history": {"np": recs[len(recs) // 2]["np"], "set": recs[len(recs) // 2]["set"],
                                             "touched_before_each_run": [x["touched"] for x in recs[len(recs) // 2]["h"]]}})
        items.extend(items_from_export(recs))
    ctx.extra["exported_histories"] = len(items)
    reported = set()
    ol.check_histories(ctx, items, "export", reported=reported)
    # ---- code -> spec: random longer histories
    rnd = random.Random(ctx.seed)
    ol.check_histories(ctx, [random_history(rnd) for _ in range(2000 if ctx.thorough else 200)], "random",
                       reported=reported)
    binding_demo(ctx)
    return ctx.finish(
        rule="S2C: every history of the bounded Output model (touch subsets of bounded size before each of 2-3 runs, "
             "1-3 plots, Write / converter options) replayed on the real chain with stub converters; every MakeFilename "
             "chain of the model compared exactly; C2S: seeded random histories (<= 6 runs, <= 3 plots) - all runs judged "
             "by Trace_Output.tla; non-trivial = at least two runs / two elements",
        exhaustive=True)
