"""C19  Output files always match the current data and nothing unchanged is redone.

spec/OutputRef.tla      the statement as predicates (Current, RegeneratedPdf/Png, ChangedFlag, Nothing)
spec/OutputSem.tla      the elements as functions and one plot through the whole chain in closed form (RunPlot), for the
                        documented Write and for the pinned one (a created file leaves output.changed alone)
spec/Output.tla         the chain Write - Write - LaTeXToPDF - PDFToPNG with output.changed over histories
                        of runs (changed data / template, deleted files, Write and converter options); SemOK: the
                        interleaved actions = RunPlot; LaTeXByTime: output.changed absent, modification times decide
spec/Trace_Output.tla   runs recorded from the real chain, judged by the predicates of OutputRef; for every failed
                        predicate: does the pinned design (RunPlot) fail it too from the same state ("design") or
                        not ("other": not the known finding), and where the run first departs from that design
spec/MakeFilename.tla   naming rules of MakeFilename on chains of elements; incoming values with names / affixes that
                        are absent, texts, or present but EMPTY strings
lenaverif/outlib.py     scratch workspace, stub converters, audit of writes, replay, sharded validation
"""
import random

from .. import core
from .. import outlib as ol
from ..util import exc_name

MUST = ("DeleteCsvAny", "DeleteOtherAny", "ChangeDataAny", "ChangeTpl", "StartRun", "WriteCSV", "WriteTeX", "LaTeX", "PNG")


# ---------------------------------------------------------------------------- MakeFilename
VAL = "VAL"
FIELDS = ("filename", "dirname", "fileext", "prefix", "suffix")
ARGS = (("filename", "fn", "f"), ("dirname", "dn", "d"), ("fileext", "fe", "e"), ("prefix", "px", "p"),
        ("suffix", "sx", "s"))


SVAL = "STATIC"
INCOMING = {"filename": "F0", "dirname": "D0", "fileext": "E0", "prefix": "P0", "suffix": "S0"}


def _render(field):
    if not field["has"]:
        return None
    return "".join(VAL if t[0] == "V" else SVAL if t[0] == "SV" else "%s%d" % (t[0], t[1]) for t in field["v"])


def mf_key(rec):
    def name(el):
        return "".join(l for _, flag, l in ARGS if el[flag]) + ("!" if el["ow"] else "") + ("?" if el["nk"] else "")
    c0 = rec["c0"]
    return "%s|var=%s,name=%s,dirext=%s,affix=%s" % (">".join(name(el) for el in rec["chain"]),
                                                     c0["var"], c0["fn0"], c0["dx0"], c0["ax0"])


def replay_makefilename(ctx, rec):
    import lena.output
    c0 = rec["c0"]
    context = {}
    if c0["var"] in ("run", "both"):
        context["var"] = VAL
    out0 = {}
    # names and affixes the value comes with: "some" text, or keys that are there but hold EMPTY strings
    # (dirname "" = top of the output directory, fileext "" = no extension: existing names like any other)
    for kind, keys in ((c0["fn0"], ("filename",)), (c0["dx0"], ("dirname", "fileext")), (c0["ax0"], ("prefix", "suffix"))):
        for key in keys:
            if kind != "none":
                out0[key] = INCOMING[key] if kind == "some" else ""
    if out0:
        context["output"] = out0
    val = ("data", context) if context else "data"
    exp = {k: _render(rec["out"][k]) for k in FIELDS}
    try:
        for i, el in enumerate(rec["chain"], 1):
            kw = {key: "%s%d" % (letter, i) + ("{{var}}" if el["nk"] else "")
                  for key, flag, letter in ARGS if el[flag]}
            mf = lena.output.MakeFilename(overwrite=el["ow"], **kw)
            if c0["var"] in ("static", "both"):
                # the static context (as a Sequence would set it); the run-time context has precedence
                mf._set_context({"var": SVAL, "other": {"x": 1}})
            val = mf(val)
        res = val[1].get("output", {}) if isinstance(val, tuple) else {}
        got = {k: res.get(k) for k in FIELDS}
        data_ok = (val[0] if isinstance(val, tuple) else val) == "data"
    except Exception as exc:   # noqa
        got, data_ok = "raised " + exc_name(exc), True
    ctx.case(["makefilename", rec["chain"], c0], nontrivial=len(rec["chain"]) > 1)
    if got != exp or not data_ok:
        return {"chain": rec["chain"], "c0": c0, "expected": exp, "observed": got}
    return None


def report_makefilename(ctx, failures):
    """One violation per shortest failing chain shape (smallest initial context as the example)."""
    if not failures:
        return
    shortest = min(len(f["chain"]) for f in failures)
    by_shape = {}
    for f in failures:
        if len(f["chain"]) == shortest:
            by_shape.setdefault(mf_key(f).split("|")[0], []).append(f)
    for shape in sorted(by_shape)[:12]:
        fs = by_shape[shape]
        order = ("none", "some", "empty")
        f = min(fs, key=lambda x: (order.index(x["c0"]["fn0"]), order.index(x["c0"]["dx0"]), order.index(x["c0"]["ax0"]),
                                   x["c0"]["var"]))
        ctx.violation("MakeFilename:%s" % mf_key(f), dict(f, failing_contexts=len(fs), failing_scenarios=len(failures)))


# ---------------------------------------------------------------------------- output chain
DEFAULT = {"m1": "check", "m2": "check", "lo": False, "po": False}


def items_from_export(recs, alternate):
    """thorough: every plain history is exported with reuse = FALSE (pipeline objects built anew for every run)
    and with reuse = TRUE (the same objects run again and again) and replayed both ways.
    quick (alternate): histories are exported once; a deterministic half of the plain ones (every second
    one) is replayed with reused objects, the other half with fresh objects."""
    items = []
    for i, r in enumerate(recs):
        steps = [x["touched"] for x in r["h"]]
        same = bool(r["reuse"])
        if alternate and not r["sc"]["grouped"]:
            same = i % 2 == 1
        items.append((r["sc"], r["set"], steps, same))
    return items


def name_items(ctx, histories):
    """spec/OutputNames.tla: the alphabet of names.  TLC proves that with the documented string operations ("only the
    extension is replaced / removed") every file of every scenario is where the statement says and that distinct plots
    have distinct files, refutes the same for wrong operations (sensitivity guards), and exports the scenarios: two
    plots whose names differ only in a tail made of the letters of the extensions, directories and output directories
    containing ".tex" / ".pdf", the directory name given by the context / MakeFilename / MakeFilename(overwrite), two
    image formats, two data extensions - with the stated place of every file.  Each is replayed over a history of the
    Output model (2 plain plots, default settings) followed by an untouched run."""
    tag = "thorough" if ctx.thorough else "quick"
    guards = ("charset", "replace") + (("firstdot",) if ctx.thorough else ())
    notes = []
    for g in guards:
        res = ctx.mc("OutputNames", "OutputNames_%s%s.cfg" % (g, "_full" if ctx.thorough else ""), expect_violation="report")
        if not res.violated:
            raise core.MachineryError("OutputNames: the wrong string operation %r is not refuted by TLC" % g)
        notes.append("StripMode=%s: TLC refutes %s" % (g, res.violated))
    ctx.extra["model_of_wrong_extension_handling"] = notes
    if ctx.thorough:
        ctx.mc("OutputNames", "OutputNames_thorough.cfg", coverage=True, must_cover=("Name", "WriteCSV", "RenderWrite", "LaTeX", "ToPNG"))
    recs = ctx.export("OutputNames", "OutputNames_%s_export.cfg" % tag, min_records=100)
    classes = set(c for r in recs for c in r["class"])
    if not {"ends-in-pdf-letter", "ends-in-tex-letter", "contains-ext", "plain"} <= classes:
        raise core.MachineryError("OutputNames export: classes %r" % sorted(classes))
    recs.sort(key=lambda r: (r["k"], r["dir"], r["via"]))
    ctx.sample({"exported_name_scenario": recs[len(recs) // 2]})
    ctx.extra["name_scenarios"] = len(recs)
    items = []
    for i, r in enumerate(recs):
        sc = {"srcs": [1, 1], "obj": [False, False], "grouped": False,
              "names": {k: r[k] for k in ("root", "dir", "via", "fmt", "cext", "names", "class", "stale", "stated")}}
        steps = list(histories[(i * 7) % len(histories)]) if histories else [{"del": [], "data": [], "tpl": False}]
        items.append((sc, DEFAULT, steps + [{"del": [], "data": [], "tpl": False}], i % 2 == 1))
    return items


def random_history(rnd):
    kind = rnd.choice(["plain", "plain", "group", "group", "obj"])
    if kind == "group":
        srcs = rnd.choice([[2], [3], [2, 2], [2, 3], [4]])
        sc = {"srcs": srcs, "obj": [False] * len(srcs), "grouped": True}
    else:
        n = rnd.choice([1, 2, 2, 3, 4])
        sc = {"srcs": [1] * n, "obj": [kind == "obj" and rnd.random() < 0.6 for _ in range(n)], "grouped": False}
    st = {"m1": rnd.choice(["check", "check", "existing_unchanged", "overwrite"]),
          "m2": rnd.choice(["check", "check", "existing_unchanged", "overwrite"]),
          "lo": rnd.random() < 0.15, "po": rnd.random() < 0.15}
    plots = range(1, len(sc["srcs"]) + 1)
    steps = [{"del": [], "data": [], "tpl": False}]
    for _ in range(rnd.randint(2, 5)):
        dels = []
        for p in plots:
            dels += [[p, "csv", m] for m in range(1, sc["srcs"][p - 1] + 1) if rnd.random() < 0.2]
            dels += [[p, k, 0] for k in ("tex", "pdf", "png") if rnd.random() < 0.2]
        deleted = set((p, k, m) for p, k, m in dels)
        # existing_unchanged: the data / template change only when the file to be written is gone
        data = [[p, m] for p in plots for m in range(1, sc["srcs"][p - 1] + 1) if rnd.random() < 0.3
                and (st["m1"] != "existing_unchanged" or (p, "csv", m) in deleted)]
        tpl = rnd.random() < 0.25 and (st["m2"] != "existing_unchanged" or all((p, "tex", 0) in deleted for p in plots))
        steps.append({"del": dels, "data": data, "tpl": tpl})
    # half of the plain histories run the same pipeline objects again and again
    return (sc, st, steps, not sc["grouped"] and rnd.random() < 0.5)


def binding_demo(ctx):
    """Corrupt recorded observations of an accepted history of a group of two sources: Trace_Output must
    report the right predicate for exactly the corrupted run (one TLC run for the original and both corruptions)."""
    import os
    import shutil
    d = ol.private_scratch(ctx)
    try:
        _binding_demo(ctx, d)
    finally:
        shutil.rmtree(d, ignore_errors=True)


def _binding_demo(ctx, d):
    import os
    ws = ol.Workspace(os.path.join(d, "ws"))
    sc = {"srcs": [2], "obj": [False], "grouped": True}
    with ws.activated():
        runs = ol.run_history(ws, sc, DEFAULT, [{}, {"data": [[1, 2]]}, {}])
    recs = [{"sc": sc, "set": DEFAULT, "runs": runs}]
    plan = (("pdf", "Current_pdf", 1), ("launch", "NoRedo", 2))
    for field, pred, where in plan:
        bad = {"sc": sc, "set": DEFAULT, "runs": [dict(r, obs=[dict(o) for o in r["obs"]]) for r in runs]}
        o = bad["runs"][where]["obs"][0]
        if field == "pdf":       # the pdf of the second run was made from the old data of the second source
            o["files"] = dict(o["files"], pdf=dict(o["files"]["pdf"], d=[1, 1]))
        else:                    # a converter launched in the third run although nothing changed
            o["launched"] = dict(o["launched"], png=True)
        recs.append(bad)
    # the known finding and something else in the same run: csv deleted and data changed, the pinned Write re-creates
    # the csv without output.changed -> stale pdf (verdicts the pinned DESIGN of OutputSem.tla fails as well: "design");
    # with the recorded csv content corrupted too, Trace_Output must report Current_csv as NOT explained by that design
    sc1 = {"srcs": [1], "obj": [False], "grouped": False}
    with ws.activated():
        runs1 = ol.run_history(ws, sc1, DEFAULT, [{}, {"del": [[1, "csv", 1]], "data": [[1, 1]]}])
    recs.append({"sc": sc1, "set": DEFAULT, "runs": runs1})
    bad = {"sc": sc1, "set": DEFAULT, "runs": [dict(r, obs=[dict(o) for o in r["obs"]]) for r in runs1]}
    o = bad["runs"][1]["obs"][0]
    o["files"] = dict(o["files"], csv=[dict(o["files"]["csv"][0], d=[1])])
    recs.append(bad)
    verdicts, stats = ol.validate_shard(d, recs, "demo")
    ctx._account("trace", "Trace_Output", stats["cfg"], ol._Res(stats))
    if stats["exit"] != 0:
        raise core.MachineryError("binding demo: TLC failed: %s" % stats["tail"])
    if 0 in verdicts:
        ctx.extra.setdefault("binding_demo", []).append("skipped: the uncorrupted history was rejected")
        return
    notes = []
    for k, (field, pred, where) in enumerate(plan, 1):
        got = verdicts.get(k, [])
        if not got or min(v[0] for v in got) != where or (pred, "other") not in [(v[1], v[3]) for v in got if v[0] == where]:
            raise core.MachineryError("Trace_Output does not bind: corrupted %s in run %d, verdicts %r" % (field, where, got))
        notes.append("Trace_Output: run %d with %s corrupted -> %s reported for exactly that run; uncorrupted history accepted"
                     % (where, field, pred))
    k0, k1 = len(plan) + 1, len(plan) + 2
    if any(v[3] != "design" for v in verdicts.get(k0, [])):
        notes.append("skipped: a history with the known finding alone has verdicts beyond the pinned design")
    else:
        got = verdicts.get(k1, [])
        rec = dict(recs[k1], same_objects=False, gi=0)
        key = ol.verdict_key(rec, got)[0] if got else None
        if ("Current_csv", "other") not in [(v[1], v[3]) for v in got if v[0] == 1] or \
                key != "Output:Current_csv:csv=created:csv-content":
            raise core.MachineryError("Trace_Output does not tell a corrupted csv from the known finding: %r -> %r" % (got, key))
        notes.append("Trace_Output: run 1 of [csv deleted + data changed] has %d verdict(s) that the pinned design of "
                     "OutputSem.tla fails as well; with the csv content corrupted in addition -> Current_csv reported as "
                     "not explained by that design, key %s" % (len(verdicts.get(k0, [])), key))
    ctx.extra.setdefault("binding_demo", []).extend(notes)


def run(ctx):
    tag = "thorough" if ctx.thorough else "quick"
    ctx.assume("converters are stubs: LaTeXToPDF.create_command runs a script writing PDF(<tex>|<csv>...), a fake pdftoppm "
               "first on PATH writes PNG(<pdf>); both log their invocations; file writes are seen through an audit hook")
    ctx.assume("under Write(existing_unchanged=True) the histories keep existing files up to date (the option's "
               "documented assumption); NoRedo is not claimed when an overwrite option is set nor for data written "
               "through its own write method (docstring of Write.run); a grouped pipeline is built anew for every run")
    # ---- design level (one TLC run explores a whole set of plans: pipelines with their own bounds)
    ctx.mc("Output", "Output_%s.cfg" % tag, coverage=True, must_cover=MUST)
    # the pinned design (a created file leaves output.changed alone), explored in full: its interleaved actions equal
    # the closed form RunPlot(FALSE, ..) of OutputSem.tla (SemOK) - the function by which Trace_Output.tla tells the
    # known finding from every other failure; there output.changed does reach LaTeXToPDF absent (LaTeXByTime: the
    # modification times decide) and the plot is then redone and up to date (AbsentFlagRedone, AbsentFlagCurrent)
    ctx.mc("Output", "Output_pinned_sem%s.cfg" % ("_thorough" if ctx.thorough else ""), coverage=True,
           must_cover=MUST + ("LaTeXByTime",))
    if ctx.thorough:
        ctx.mc("Output", "Output_thorough2.cfg")
        # the pinned Write (a created file leaves output.changed alone) and a reused RenderLaTeX that keeps the
        # template it loaded first, in the same model
        pinned = ctx.mc("Output", "Output_pinned.cfg", expect_violation="report")
        ctx.extra["model_of_pinned_design"] = "CreatedSetsChanged=FALSE: TLC refutes %s" % (pinned.violated or "nothing")
        stale = ctx.mc("Output", "Output_noreload.cfg", expect_violation="report")
        ctx.extra["model_without_template_reload"] = "AutoReload=FALSE, reused objects: TLC refutes %s" % (
            stale.violated or "nothing")
        ctx.mc("MakeFilename", "MakeFilename_thorough.cfg", coverage=True, must_cover=("Step",))
    # ---- MakeFilename: the export run also checks the invariants and action properties of the model
    recs = ctx.export("MakeFilename", "MakeFilename_%s_export.cfg" % tag, min_records=1000)
    if ctx.thorough:    # all 76 element kinds x the quick contexts; the small vocabulary x all 108 incoming contexts
        recs += ctx.export("MakeFilename", "MakeFilename_thorough_export2.cfg", min_records=1000)
    # (vacuity) names that exist but are empty strings do meet elements that would set them
    for key, flag in (("fn0", "fn"), ("dx0", "dn"), ("dx0", "fe")):
        if not any(r["c0"][key] == "empty" and any(el[flag] and not el["ow"] for el in r["chain"]) for r in recs):
            raise core.MachineryError("MakeFilename export: no chain gives %s to a value whose %s is empty" % (flag, key))
    report_makefilename(ctx, [f for f in (replay_makefilename(ctx, rec) for rec in recs) if f])
    ctx.sample({"makefilename_behaviour": recs[len(recs) // 3]})
    ctx.extra["makefilename_scenarios"] = len(recs)
    del recs
    # ---- output chain: spec -> code, and code -> spec (random longer histories), validated in one wave of TLC runs
    items = []
    sampled = False
    for cfg in (("Output_quick_export.cfg",) if not ctx.thorough else
                ("Output_thorough_export_1.cfg", "Output_thorough_export_2.cfg")):
        recs = ctx.export("Output", cfg, min_records=50)
        grouped = [x for x in recs if x["sc"]["grouped"]]
        if grouped and not sampled:
            r = grouped[len(grouped) // 2]
            ctx.sample({"exported_history": {"sc": r["sc"], "set": r["set"],
                                             "touched_before_each_run": [x["touched"] for x in r["h"]]}})
            sampled = True
        items.extend(items_from_export(recs, alternate=not ctx.thorough))
    ctx.extra["exported_histories"] = len(items)
    # ---- the alphabet of names (spec/OutputNames.tla) over histories of the Output model
    plain2 = [steps for sc, st, steps, same in items if not sc["grouped"] and sc["srcs"] == [1, 1] and st == DEFAULT
              and not any(sc["obj"])]
    if not plain2:
        raise core.MachineryError("no exported history of two plain plots with default settings")
    items.extend(name_items(ctx, plain2))
    rnd = random.Random(ctx.seed)
    items.extend(random_history(rnd) for _ in range(2000 if ctx.thorough else 120))
    ol.check_histories(ctx, items, "replay")
    binding_demo(ctx)
    return ctx.finish(
        rule="S2C: every history of the bounded Output model (touch subsets of bounded size before each of 2-3 runs, "
             "1-3 plots or groups of 2-3 sources, string / histogram / graph / write-method sources, Write / converter "
             "options, fresh and reused pipeline objects) replayed on the real plain or grouped chain with stub converters; "
             "every MakeFilename chain of the model (incoming names and affixes absent / text / empty string) compared "
             "exactly; C2S: seeded random histories (<= 6 runs, <= 4 plots or groups) - all runs judged by Trace_Output.tla, "
             "which also evaluates the pinned design of OutputSem.tla (checked against the action model by TLC: SemOK) "
             "from the state before every run: a failed predicate that design does not fail is never taken for the "
             "known finding; non-trivial = at least two runs / two elements",
        exhaustive=True)
