"""X05  Output rendering utilities.

spec/Rendering.tla (+ Trace_Rendering.tla): RenderLaTeX (templates as sequences of source tokens with lena's jinja
delimiters, selection of values and templates, visible keys, verbose), iterable_to_table, ToCSV for objects with rows()
and the row-ending law, the command lines of LaTeXToPDF / PDFToPNG (stub converters), Context (representation,
attribute access, call, copies).  The changed / regeneration protocol is C19, pass-through of unselected values is C10,
the CSV content of histograms is C12, Print is X03.
"""
import concurrent.futures
import copy
import random

from .. import core
from .. import renderlib as rl

TPL_ACTIONS = ("AddPlain", "AddLCom", "AddIf", "AddElse", "AddEndIf", "AddFor", "AddEndFor", "Render", "LexStep", "LexEnd",
               "EvalStep", "EvalEnd")
REST_ACTIONS = ("SelConstruct", "SelRun", "TableStep", "CsvStep", "CmdSplit", "CmdLaunch", "ReprAdd", "ReprStart",
                "ReprStep", "CtxOpStep")


def dotted(sc):
    mark = ".tex" if sc["conv"] == "latex" else ".pdf"
    return any(mark in x for x in list(sc["dirs"]) + [sc["stem"]])


def klass(part, sc):
    """class of scenarios that share one way of failing (used in violation keys and to keep C2S from repeating S2C)"""
    if part == "csv":
        return "csv:%s%s" % ("histogram" if sc["obj"] == "hist" else "rows-object", ":row_end" if sc["re"] else "")
    if part == "cmd":
        return "%s%s%s%s" % ("LaTeXToPDF" if sc["conv"] == "latex" else "PDFToPNG", ":dotted-name" if dotted(sc) else "",
                             ":format" if sc["fmt"] != "png" else "", ":timeout" if sc["slow"] else "")
    if part == "ctxop":
        return ("LaTeXToPDF:" if sc["op"] == "bad_create_command" else "Context:") + sc["op"]
    return part


def first_diff(obs, exp, order):
    for k in order:
        if obs.get(k) != exp.get(k):
            return k
    return "shape"


class Replayer(object):
    def __init__(self, ctx):
        self.ctx = ctx
        self.bad_classes = set()
        self.shapes = {}
        self.tpl = rl.TplRunner(ctx.workdir)
        self.selw = rl.SelWorld(ctx.workdir)
        self.cmdw = rl.CmdWorld(ctx.workdir)
        self.n = 0

    def fail(self, key, part, sc, detail):
        self.bad_classes.add(klass(part, sc))
        if part in ("tpl", "sel"):
            # one key per shape of template / option combination, at most six of them, the rest under one key
            parts = key.split(":")
            head = ":".join(parts[:3]) if part == "tpl" else ":".join(parts[:2] + parts[3:])
            shapes = self.shapes.setdefault(head, [])
            if key not in shapes:
                if len(shapes) >= 6:
                    key = head + ":further-shapes"
                else:
                    shapes.append(key)
        self.ctx.violation(key, dict(detail, part=part, scenario=sc))

    # ---- one scenario -> observed result (spec shape) and, S2C only, judgement against the exported result
    def observe(self, part, sc):
        self.n += 1
        if part == "tpl":
            return rl.observe_tpl(self.tpl, sc, custom_env=self.n % 5 == 0)
        if part == "sel":
            r, problems = rl.observe_sel(self.selw, sc)
            return r, None, problems
        if part == "table":
            return rl.observe_table(sc) + ([],)
        if part == "csv":
            return rl.observe_csv(sc) + ([],)
        if part == "cmd":
            return rl.observe_cmd(self.cmdw, sc, rl.STEMS) + ([],)
        if part == "repr":
            return rl.observe_repr(sc, nested_context=self.n % 4 == 0) + ([],)
        if part == "ctxop":
            return rl.observe_ctxop(sc), None, []
        raise core.MachineryError("unknown part %r" % (part,))

    def judge(self, rec):
        part, sc, exp = rec["part"], rec["sc"], rec["res"]
        obs, raw, problems = self.observe(part, sc)
        if part == "tpl":
            sig = rl.src_signature(sc["src"])
            if exp["ok"] != obs["ok"] or (not exp["ok"] and exp["exc"] != obs["exc"]):
                self.fail("RenderLaTeX:render:%s:%s" % ("exception " + obs["exc"] if not obs["ok"] else "no exception", sig),
                          part, sc, {"template": rl.source_text(sc["src"]), "expected": exp, "observed": obs})
            elif exp["ok"] and raw != rl.expected_text(exp["out"]):
                self.fail("RenderLaTeX:render:text:%s" % sig, part, sc,
                          {"template": rl.source_text(sc["src"]), "expected": rl.expected_text(exp["out"]), "observed": raw})
            for p in problems:
                self.fail("RenderLaTeX:render:context", part, sc, {"problem": p})
        elif part == "sel":
            o = dict(obs, printed=obs["printed"] if obs["ok"] else 0)
            if o not in rec["allowed"]:
                self.fail("RenderLaTeX:select:%s/%s/%s:%s" % (sc["st"], sc["sd"], sc["env"],
                                                                first_diff(o, rec["allowed"][0], ("ok", "exc", "sel", "out", "ftype", "printed"))),
                          part, sc, {"allowed": rec["allowed"], "observed": obs})
            for p in problems:
                self.fail("RenderLaTeX:select:context", part, sc, {"problem": p})
        elif part == "table":
            if obs != exp:
                self.fail("iterable_to_table:%s" % first_diff(obs, exp, ("ok", "exc", "out")), part, sc,
                          {"expected": exp, "observed": obs, "lines": raw})
        elif part == "csv":
            if obs != exp:
                what = first_diff(obs, exp, ("ok", "text", "ftype", "upd", "keep"))
                if what == "text" and obs.get("ok") and sc["re"]:
                    t = [x["s"] for x in obs["text"]]
                    e = [x["s"] for x in exp["text"]]
                    k = len(e) - (1 if sc["lre"] else 0)
                    if t[:k] == e[:k] and t[k:k + 1] == ["RE"] and t[k + 1:] == e[k:]:
                        what = "last-row-ends-with-row_end"
                self.fail("ToCSV:%s:%s" % (klass(part, sc)[4:], what), part, sc, {"expected": exp, "observed": obs, "text": raw})
        elif part == "cmd":
            if obs != exp:
                el = "LaTeXToPDF" if sc["conv"] == "latex" else "PDFToPNG"
                if sc["slow"]:
                    diffs = ["timeout:" + ("no TimeoutExpired" if obs["ok"] else obs["exc"])]
                elif obs["ok"] != exp["ok"] or obs["exc"] != exp["exc"]:
                    diffs = ["outcome:" + (obs["exc"] or "no exception")]
                else:
                    diffs = [k + (":dotted-name" if dotted(sc) and k != "ftype" else "") + (":format" if k == "ftype" and sc["fmt"] != "png" else "")
                             for k in ("argv", "ccargs", "out", "ftype", "printed") if obs.get(k) != exp.get(k)] or ["shape"]
                for d in diffs:
                    self.fail("%s:%s" % (el, d), part, sc, {"expected": exp, "observed": obs, "raw": raw})
        elif part == "repr":
            if obs != exp:
                self.fail("Context:repr:%s" % first_diff(obs, exp, ("ok", "exc", "out")), part, sc,
                          {"expected": exp, "observed": obs, "text": raw})
        elif part == "ctxop":
            if obs != exp:
                self.fail("%s:%s" % (klass(part, sc), obs["exc"] or obs["r"][:40]), part, sc, {"expected": exp, "observed": obs})
        return obs


def random_records(rnd, rp, thorough):
    """C2S: scenarios beyond the exhaustive bounds, executed; -> records for Trace_Rendering"""
    f = 8 if thorough else 1
    plan = [("table", 150 * f, lambda: rl.random_table(rnd)),
            ("repr", 150 * f, lambda: {"es": rl.random_doc(rnd, rnd.randrange(0, 14))}),
            ("sel", 100 * f, lambda: rl.random_sel(rnd)),
            ("tpl", 400 * f, lambda: {"src": rl.random_source(rnd, rnd.randrange(1, 12)),
                                      "ctx": rl.enc_value(rl.random_context(rnd))}),
            ("csv", 100 * f, lambda: rl.random_csv(rnd)),
            ("cmd", 40 * f, lambda: rl.random_cmd(rnd))]
    recs = []
    for part, n, gen in plan:
        for _ in range(n):
            sc = gen()
            obs, _raw, problems = rp.observe(part, sc)
            if part == "sel":
                obs = dict(obs, printed=obs["printed"] if obs["ok"] else 0)
            recs.append({"part": part, "sc": sc, "res": obs})
    return recs


def run(ctx):
    import lena.output   # noqa
    rnd = random.Random(ctx.seed)
    tag = "thorough" if ctx.thorough else "quick"
    ctx.assume("strings are atomic tokens in the specification; the harness maps them to text and tokenises observed text "
               "back with the vocabulary of the scenario")
    ctx.assume("pdflatex and pdftoppm are stub executables first on PATH that record their command line; "
               "jinja2's own semantics of blocks, trim_blocks and lstrip_blocks is the reference for templates")
    rp = Replayer(ctx)
    pool = concurrent.futures.ThreadPoolExecutor(max_workers=6)
    try:
        half = max(1, ctx.nworkers // 2)
        # thorough: sources of up to 5 tokens over the basic alphabet and of up to 4 over the extended one
        stems = ["Rendering_tpl_%s" % tag] + (["Rendering_tpl_thorough2"] if ctx.thorough else [])
        f_ex_rest = pool.submit(ctx.export, "Rendering", "Rendering_rest_%s_export.cfg" % tag, 3000, None, 1, 2000)
        f_ex_tpl = [pool.submit(ctx.export, "Rendering", st + "_export.cfg", 3000, None, 1, 5000) for st in stems]
        f_mc_tpl = [pool.submit(ctx.mc, "Rendering", st + ".cfg", half, True, TPL_ACTIONS) for st in stems]
        f_mc_rest = pool.submit(ctx.mc, "Rendering", "Rendering_rest_%s.cfg" % tag, max(1, half // 2), True, REST_ACTIONS)
        # ---- code -> spec, first half: run random scenarios while TLC enumerates
        trace = random_records(rnd, rp, ctx.thorough)
        # ---- spec -> code
        recs = f_ex_rest.result()
        for rec in recs:
            rp.judge(rec)
            ctx.case([rec["part"], rec["sc"]], nontrivial=True)
        for part in ("sel", "table", "csv", "cmd", "repr"):
            cands = [r for r in recs if r["part"] == part and r["res"].get("ok")]
            if cands:
                ctx.sample({"spec_behaviour": dict((k, v) for k, v in cands[(2 * len(cands)) // 3].items() if k != "allowed")})
        # code -> spec, second half (TLC judges while the templates are replayed)
        trace = [r for r in trace if klass(r["part"], r["sc"]) not in rp.bad_classes]
        f_trace = pool.submit(validate_trace, ctx, trace)
        trecs = [r for f in f_ex_tpl for r in f.result()]
        trecs.sort(key=lambda r: (rl.source_text(r["sc"]["src"]), r["sc"]["ci"]))
        for rec in trecs:
            rp.judge(rec)
            ctx.case([rec["part"], rec["sc"]["src"], rec["sc"]["ci"]], nontrivial=len(rec["sc"]["src"]) > 1)
        long_ = [r for r in trecs if len(r["sc"]["src"]) > 8 and r["res"]["ok"]]
        if long_:
            ctx.sample({"spec_behaviour": {"template": rl.source_text(long_[0]["sc"]["src"]), "record": long_[0]}})
        f_trace.result()
        for f in f_mc_tpl:
            f.result()
        f_mc_rest.result()
        if rl.NOT_OBSERVABLE:
            ctx.extra["not_observable"] = dict(rl.NOT_OBSERVABLE)
            ctx.assume("reduced coverage: underscore names %s are not present in this version of lena" % sorted(rl.NOT_OBSERVABLE))
        ctx.extra["scenarios"] = {"templates_exported": len(trecs), "other_exported": len(recs),
                                  "classes_with_violations": sorted(rp.bad_classes)}
    finally:
        pool.shutdown(wait=True)
    return ctx.finish(
        rule="S2C: every terminal state of the bounded Rendering model (all well-formed template sources of up to %d tokens "
             "over lena's delimiters x 3 contexts plus tutorial-style templates; the option products of RenderLaTeX, "
             "iterable_to_table, ToCSV, LaTeXToPDF / PDFToPNG; all dictionaries of up to %d entries; 14 Context operations) "
             "executed on the real code and compared; C2S: random scenarios beyond the bounds judged by Trace_Rendering"
             % ((5, 5) if ctx.thorough else (4, 4)),
        exhaustive=True)


def validate_trace(ctx, trace):
    clean = trace
    acc = ctx.validate("Trace_Rendering", "Trace_Rendering.cfg", clean, label="render") if clean else 0
    rounds = 0
    while acc < len(clean) and rounds < 8:
        rounds += 1
        r = clean[acc]
        k = klass(r["part"], r["sc"])
        ctx.violation("Trace_Rendering:rejected:%s" % k, {"record": r})
        clean = [x for j, x in enumerate(clean) if j > acc and klass(x["part"], x["sc"]) != k or j < acc]
        acc = ctx.validate("Trace_Rendering", "Trace_Rendering.cfg", clean, label="render") if clean else 0
    ctx.traces += acc
    ctx.evaluations += len(clean)
    for r in clean[:acc]:
        ctx.distinct.add(core.hashlib.md5(core.canon(r).encode()).hexdigest())
    if clean:
        ctx.sample({"recorded_trace_record": next((r for r in clean if r["part"] == "tpl" and len(r["sc"]["src"]) > 6), clean[0])})

    def corrupt(r):
        if r["part"] == "table" and r["res"].get("ok") and r["res"]["out"]:
            c = copy.deepcopy(r)
            c["res"]["out"] = c["res"]["out"][:-1]
            return c
        return None
    if clean and acc == len(clean):
        ctx.binding_demo("Trace_Rendering", "Trace_Rendering.cfg", clean, corrupt, limit=60)
    return acc
