"""C20  Advertised names exist, work with only their subpackage imported, and resolve.

spec/Imports.tla        import machine (module table, ordered module bodies, import stack, partially
                        initialised modules, package attributes set when a submodule import completes,
                        Call(f)); invariants AllAdvertised, GlobalsResolve, ChainsResolve, ImportsSucceed;
                        declarative Closure / StaticNames tied to the machine
                        ReflectiveResolve: names referred to by computed strings (getattr(M, e), M.__dict__[e],
                        vars(M)[e], globals()[e]) - FRefl, judged in the state the call reaches; the predictions
                        (which of the candidate names exist in which namespace) are replayed on the real module
                        objects; a self-test tree (lenaverif/fixtures/c20_refl) keeps the dimension from being
                        vacuous on a tree without reflective references
spec/Trace_Imports.tla  validation of import event logs recorded in real fresh interpreters
lenaverif/extract_imports.py   the constants of the model, extracted from the tree under test
lenaverif/importslib.py        fresh interpreters (event recorder, star imports, smoke table)

The model constants come from the code, so an invariant violation reported by TLC is a violation of the
property.  The model itself is validated against real interpreters: predicted sys.modules order and
module namespaces must equal what `python -c "import lena.X"` produces.
"""
import concurrent.futures
import os
import random
import shutil

from .. import core
from .. import extract_imports as ei
from .. import importslib as il
from .. import localflow
from .. import reflnames

ACTIONS = tuple(a for a in ("LoadModule", "BindImport", "BindFrom", "DefName", "UseName", "EndModule", "EndUser",
                                    "Call", "EndCall"))



class Findings(object):
    """Violations collected under stable keys (module + name); details are merged before reporting."""

    def __init__(self):
        self.items = {}

    def add(self, key, **detail):
        d = self.items.setdefault(key, {})
        for k, v in detail.items():
            if isinstance(v, list):
                cur = d.setdefault(k, [])
                for x in v:
                    if x not in cur and len(cur) < 12:
                        cur.append(x)
            else:
                d.setdefault(k, v)

    def report(self, ctx):
        for key in sorted(self.items):
            ctx.violation(key, self.items[key])


def entry_lists(data, thorough, rnd):
    subs = data["subpackages"]
    quick = [[m] for m in subs] + [["lena"], list(subs), [subs[0], subs[0]]]
    if not thorough:
        return quick
    pairs = [[a, b] for a in subs for b in subs if a != b]
    singles = [[m] for m in data["modules"] if m not in subs and m != "lena"]
    return quick + pairs + singles


def kinds(names, modules):
    return dict((n, v if v in modules else "-") for n, v in names.items())


def compare_ready(ctx, rec, probe, modules):
    """Prediction of the model for one entry list against the fresh interpreter."""
    ready = [e for e in probe["events"] if e["ev"] == "ready"]
    if not ready:
        return "interpreter did not finish the imports"
    real = ready[0]
    if real["order"] != rec["order"]:
        return "sys.modules order: model %s, interpreter %s" % (rec["order"], real["order"])
    for m in rec["order"]:
        pred = kinds(rec["mods"][m], modules)
        if pred != real["mods"][m]:
            a = sorted(set(pred.items()) - set(real["mods"][m].items()))
            b = sorted(set(real["mods"][m].items()) - set(pred.items()))
            return "namespace of %s: only in model %s, only in interpreter %s" % (m, a, b)
    return None


def pat_matches(pat, name):
    """Can the pattern of a computed name (reflnames.pattern: literals, {} open hole, {a|b} bounded hole,
    alternatives separated by ' | ') produce the string?"""
    import re
    for alt in pat.split(" | "):
        rx = "".join(".*" if part == "{}" else "(?:%s)" % "|".join(re.escape(x) for x in part[1:-1].split("|"))
                     if part.startswith("{") else re.escape(part) for part in re.split(r"(\{[^{}]*\})", alt))
        if re.fullmatch(rx, name):
            return True
    return False


def classify_dynamic(ctx, data, find, pkg, name, mode, out):
    """A NameError / AttributeError on a module of the tree observed while running the real code."""
    if out.get("out") != "exc":
        return False
    where = out.get("where")
    if (out["cls"] == "NameError" or out.get("nameerror")) and out.get("name") and where:
        mod = il.mod_of_path(data, where[0])
        inv = "GlobalsResolve" if out["cls"] == "NameError" else "LocalsResolve"
        find.add("%s:%s:%s" % (inv, mod, out["name"]),
                 observed=["%s.%s [%s]: %s -> NameError: %s at %s:%s in %s" % (
                     pkg, name, mode, out["code"], out["msg"], where[0], where[1], where[2])])
        return True
    if out["cls"] == "AttributeError" and out.get("on") and where:
        # raised by a lookup by computed name of that function: the failure the model reports under ReflectiveResolve
        fid = il.func_at(data, where[0], where[1])
        for f in data["funcs"]:
            if f["id"] == fid:
                for d in f["refl"]:
                    if d["how"] == "getattr" and pat_matches(d["pat"], out["name"]):
                        find.add(refl_key(f["mod"], {"on": out["on"], "pat": d["pat"]}),
                                 observed=["%s.%s [%s]: %s -> AttributeError: %s at %s:%s in %s" % (
                                     pkg, name, mode, out["code"], out["msg"], where[0], where[1], where[2])])
                        return True
    if out["cls"] == "AttributeError" and out.get("on"):
        if not where and out["on"] == pkg and out["name"] == name:
            # the snippet itself could not fetch the advertised name
            find.add("AllAdvertised:%s:%s" % (pkg, name), observed=["%s -> %s" % (out["code"], out["msg"])])
            return True
        mod = il.mod_of_path(data, where[0]) if where else pkg
        find.add("ChainsResolve:%s:%s.%s" % (mod, out["on"], out["name"]),
                 observed=["%s.%s [%s]: %s -> AttributeError: %s at %s" % (
                     pkg, name, mode, out["code"], out["msg"], where)])
        return True
    return False


def import_error(data, find, ie):
    """An import of the tree failed in a real interpreter (same key as the model's ImportFails / UseFails)."""
    mod = il.mod_of_path(data, ie["where"][0]) if ie.get("where") else ie["entry"]
    name = (ie["on"] + "." if ie.get("on") else "") + (ie.get("name") or "")
    find.add("ImportsSucceed:%s:%s:%s" % (mod, ie["cls"], name),
             observed=["import %s -> %s: %s" % (ie["entry"], ie["cls"], ie["msg"])])


FIXTURE = os.path.join(os.path.dirname(os.path.abspath(il.__file__)), "fixtures", "c20_refl")


def refl_key(m, v):
    on = v["on"] if v["on"] != "-" else "?"
    return "ReflectiveResolve:%s:%s.%s" % (m, on, v["pat"])


def replay_refl(ctx, data, recs, scratch, repo=None, tag="refl"):
    """S2C for ReflectiveResolve: every lookup the model predicts for a function with references by computed
    name (record t = "refl": which candidate names are present / missing in which namespace, in the state
    reached by importing the entries and running the function's own imports) is executed on the real module
    objects of a fresh interpreter.  Returns {(f, line, name): observed outcome text}."""
    byf = dict((f["id"], f) for f in data["funcs"])
    groups = {}
    for r in recs:
        if r["t"] != "refl":
            continue
        pre = tuple(il.import_text(st) for st in byf[r["f"]]["imports"])
        for v in r["refs"]:
            if v["on"] == "-":
                continue
            for name, want in [(n, "ok") for n in v["present"]] + [(n, "missing") for n in v["missing"]]:
                groups.setdefault((tuple(r["entries"]), pre), {}).setdefault((v["on"], v["how"], name), []).append(
                    (r["f"], v["line"], want))
    jobs = []
    for k, ((es, pre), lks) in enumerate(sorted(groups.items())):
        jobs.append(((es, pre), dict(entries=list(es), scratch=os.path.join(scratch, "%s%d" % (tag, k)), repo=repo,
                                     pre=list(pre), lookups=[{"on": o, "how": h, "name": n} for o, h, n in sorted(lks)])))
    observed = {}
    if not jobs:
        return observed
    res = il.run_many(ctx, jobs)
    for (es, pre), lks in groups.items():
        p = res[(es, pre)]
        if "import_error" in p or "pre_error" in p:
            continue        # reported through ImportsSucceed
        for out in p["lookups"]:
            for f, line, want in lks[(out["on"], out["how"], out["name"])]:
                ctx.case(["lookup", list(es), f, out["how"], out["on"], out["name"]])
                exc = "AttributeError" if out["how"] == "getattr" else "KeyError"
                got = "ok" if out["out"] == "ok" else ("missing" if out.get("cls") == exc else out.get("cls"))
                if got != want:
                    raise core.MachineryError(
                        "model and interpreter disagree on %s(%s, %r) after importing %s (+ %s): model %s, "
                        "interpreter %s %s" % (out["how"], out["on"], out["name"], list(es), list(pre), want,
                                               out["out"], out.get("msg", "")))
                if want == "missing":
                    code = ("getattr(%s, %r)" if out["how"] == "getattr" else "vars(%s)[%r]") % (out["on"], out["name"])
                    observed[(f, line, out["name"])] = "%s -> %s: %s" % (code, out["cls"], out["msg"])
    return observed


def refl_selftest(ctx, scratch):
    """The reflective-reference dimension on a tree with known answers (fixtures/c20_refl).
    Call time: extractor + TLC must flag exactly the functions named bad_*, TLC must find ReflectiveResolve
    violated with them and every invariant true without them, and a real interpreter that calls every function
    with every value of the universe of the extractor must fail (NameError / AttributeError on a module of the
    tree / KeyError of a namespace) in exactly the flagged ones.  Import time: lena.c (lookups that succeed or
    are handled) imports, lena.d (getattr(lena, "b")) fails unless lena.b was imported before - in the model
    and in the interpreter; the namespaces the model predicts are those of the interpreter."""
    try:
        data = ei.extract(FIXTURE)
    except (ei.ExtractError, SyntaxError) as exc:
        raise core.MachineryError("self-test tree: extraction failed: %r" % (exc,))
    modules = set(data["modules"])
    lists = [["lena.a"], ["lena.b", "lena.a"], ["lena.c"], ["lena.d"], ["lena.b", "lena.d"]]
    fails = [["lena.d"]]
    sets = {"D_EntriesQuick": lists, "D_EntriesThorough": lists}
    full = os.path.join(ctx.workdir, "ReflSelf_data.tla")
    with open(full, "w") as f:
        f.write(ei.to_tla(data, "ReflSelf_data", sets))
    good = dict(data, funcs=[f for f in data["funcs"] if not f["id"].split(":")[1].startswith("bad_")])
    goodlists = [es for es in lists if es not in fails]
    goodmod = os.path.join(ctx.workdir, "ReflSelfOk_data.tla")
    with open(goodmod, "w") as f:
        f.write(ei.to_tla(good, "ReflSelfOk_data", {"D_EntriesQuick": goodlists, "D_EntriesThorough": goodlists}))
    names = sorted(f["id"].split(":")[1] for f in data["funcs"] if f["mod"] == "lena.a.refl"
                   and f["id"].split(":")[1].startswith(("bad_", "ok_")))
    if sum(1 for n in names if n.startswith("bad_")) < 15 or sum(1 for n in names if n.startswith("ok_")) < 12:
        raise core.MachineryError("self-test tree: functions are missing (%s)" % names)
    pool = concurrent.futures.ThreadPoolExecutor(max_workers=4)
    try:
        f_bad = pool.submit(ctx.mc, full, "Imports_reflself.cfg", workers=2, expect_violation="report")
        f_good = pool.submit(ctx.mc, goodmod, "Imports_quick.cfg", workers=2, coverage=True,
                             must_cover=("ReflUse", "ReflFails"))
        f_exp = pool.submit(ctx.export, full, "Imports_quick_export.cfg", min_records=len(lists))
        f_drv = pool.submit(il.run_many, ctx, [
            (tuple(es), dict(entries=es, scratch=os.path.join(scratch, "selfdrive%d" % k), repo=FIXTURE,
                             drive=None if es in fails else {"module": "lena.a.refl", "funcs": names,
                                                             "values": list(reflnames.UNIVERSE_VALUES)}))
            for k, es in enumerate(lists)])
        bad, recs, drv = f_bad.result(), f_exp.result(), f_drv.result()
        f_good.result()         # raises when an invariant fails without the bad_* functions
    finally:
        pool.shutdown(wait=True)
    if bad.exit == 0 or bad.violated != "ReflectiveResolve":
        raise core.MachineryError("self-test tree: TLC did not find ReflectiveResolve violated (exit %s, %s)" % (
            bad.exit, bad.violated))
    replay_refl(ctx, data, recs, scratch, repo=FIXTURE, tag="selflk")
    for es in lists:
        p = drv[tuple(es)]
        ctx.case(["selftest-import", es])
        ready = [r for r in recs if r["t"] == "ready" and r["entries"] == es]
        failed = [r for r in recs if r["t"] == "failed" and r["entries"] == es]
        if es in fails:
            ie = p.get("import_error")
            if not ie or ie["cls"] != "AttributeError" or (ie["on"], ie["name"]) != ("lena", "b"):
                raise core.MachineryError("self-test tree: importing %s should fail on getattr(lena, 'b'): %s" % (es, p))
            if not failed or any((r["fail"]["kind"], r["fail"]["on"], r["fail"]["name"]) != ("AttributeError", "lena", "b")
                                 for r in failed):
                raise core.MachineryError("self-test tree: the model does not predict the failure of %s: %s" % (es, failed))
            continue
        if "import_error" in p or failed or not ready:
            raise core.MachineryError("self-test tree: importing %s fails (interpreter %s, model %s)" % (
                es, p.get("import_error"), failed))
        diffs = [compare_ready(ctx, r, p, modules) for r in ready]
        if all(diffs):
            raise core.MachineryError("self-test tree: model and interpreter disagree after importing %s: %s" % (es, diffs[0]))
        flagged, via_refl = set(), set()
        for r in recs:
            if r["t"] == "bad" and r["entries"] == es and r["m"] == "lena.a.refl":
                flagged.add(r["f"].split(":")[1])
                if r["refl"]:
                    via_refl.add(r["f"].split(":")[1])
        want = set(n for n in names if n.startswith("bad_"))
        if "lena.b" in es:
            want.discard("bad_subpackage_b")        # lena.b has been imported: it is an attribute of lena
            want.discard("bad_guarded_submodule_b")
        if flagged != want:
            raise core.MachineryError("self-test tree, entries %s: the model flags %s, expected %s" % (
                es, sorted(flagged), sorted(want)))
        # a chain through a submodule nothing imported, below a handler of AttributeError meant for something else:
        # flagged by ChainsResolve although nothing is raised - the result differs between import states
        swallowed = {"bad_guarded_submodule_b"}
        rets = dict(((o["f"], o["arg"]), o.get("ret")) for o in p["drive"])
        for fn in swallowed:
            got = rets.get((fn, 1))
            if got != ("2" if "lena.b" in es else "None"):
                raise core.MachineryError("self-test tree, entries %s: %s(1) returned %s" % (es, fn, got))
        if via_refl != want - {"bad_literal"} - swallowed:
            raise core.MachineryError("self-test tree: flagged through ReflectiveResolve: %s" % sorted(via_refl))
        failing = set()
        for o in p["drive"]:
            ctx.case(["selftest-call", es, o["f"], o["arg"]])
            if o["out"] == "exc" and (o.get("nameerror") or (o["cls"] == "AttributeError" and o["on"])
                                      or (o["cls"] == "KeyError" and o["where"])):
                failing.add(o["f"])
        if failing != want - swallowed:
            raise core.MachineryError("self-test tree, entries %s: the interpreter fails in %s, the model flags %s" % (
                es, sorted(failing), sorted(want)))
    ctx.extra["reflective_selftest"] = {
        "tree": "lenaverif/fixtures/c20_refl", "functions": len(names), "entry_lists": lists,
        "calls": len(names) * len(reflnames.UNIVERSE_VALUES) * len(goodlists),
        "flagged_by_model_and_failing_in_interpreter": sorted(n for n in names if n.startswith("bad_")),
        "silent_in_both": sorted(n for n in names if n.startswith("ok_")),
        "import_time": "lena.c imports; lena.d fails with AttributeError(lena, 'b') unless lena.b was imported",
        "argument_universe": list(reflnames.UNIVERSE_VALUES)}


def run(ctx):
    rnd = random.Random(ctx.seed)
    tag = "thorough" if ctx.thorough else "quick"
    try:
        data = ei.extract(ctx.repo)
    except (ei.ExtractError, SyntaxError) as exc:
        raise core.MachineryError("extraction failed: %r" % (exc,))
    modules = set(data["modules"])
    subs = data["subpackages"]
    lists = entry_lists(data, ctx.thorough, rnd)
    ctx.assume("the interpreter is %s; optional external packages are as installed here (jinja2 present; "
               "ROOT, numpy absent - code behind `import ROOT` is reached with a stand-in module)" %
               ".".join(map(str, os.sys.version_info[:3])))
    ctx.assume("name resolution is a static over-approximation: a reference on any syntactic path that survives "
               "pruning of version-dead code counts, whether or not a run reaches it; attributes of objects that "
               "are not modules of the tree are outside the model")
    ctx.assume("names referred to by computed strings (getattr(M, e), M.__dict__[e], vars(M)[e], globals()[e]): a part "
               "of e that comes from an argument or from data takes the values %s in the model; a membership test of "
               "that part against a literal collection, hasattr(M, e) or `e in vars(M)` anywhere in the function is "
               "taken to guard the lookup; modules into whose namespace functions store computed names are not judged"
               % (list(reflnames.UNIVERSE_VALUES),))
    find = Findings()

    # ------------------------------------------------------------------ the model, generated from the tree
    sets = {"D_EntriesQuick": lists, "D_EntriesThorough": lists}
    datamod = os.path.join(ctx.workdir, "Imports_data.tla")
    with open(datamod, "w") as f:
        f.write(ei.to_tla(data, "Imports_data", sets))
    ctx.extra["model_size"] = {"modules": len(data["modules"]), "functions": len(data["funcs"]),
                               "statements": sum(len(b) for b in data["body"].values()),
                               "global_loads": sum(len(f["loads"]) for f in data["funcs"]),
                               "attribute_chains": sum(len(f["chains"]) for f in data["funcs"]),
                               "local_flow_functions": sum(1 for f in data["funcs"] if f["fnodes"]),
                               "local_flow_nodes": sum(len(f["fnodes"]) for f in data["funcs"]),
                               "local_flow_seeds": sum(len(f["fseeds"]) for f in data["funcs"]),
                               "reflective_references": sum(len(f["refl"]) for f in data["funcs"]),
                               "modules_with_reflective_stores": data.get("dynstore", []),
                               "entry_lists": len(lists)}

    # ------------------------------------------------------------------ design level: TLC on the extracted model
    # the interpreter probes do not depend on TLC's output: they run while TLC does
    scratch = os.path.join(ctx.workdir, "scratch")
    jobs = []
    for k, es in enumerate(lists):
        stars = [e for e in es if e in data["all"]] if len(es) == 1 else []
        jobs.append((("imp", tuple(es)), dict(entries=es, scratch=os.path.join(scratch, "imp%d" % k), stars=stars)))
    plan = []
    for pkg in subs:
        names = il.public_names(data, pkg)
        items = il.smoke_items(pkg, names)
        for n in names:
            jobs.append((("only", pkg, n), dict(entries=[pkg], pkg=pkg, smoke=items[n],
                                                scratch=os.path.join(scratch, "only_%s_%s" % (pkg, n)))))
        allitems = [it for n in names for it in items[n]]
        jobs.append((("all", pkg), dict(entries=list(subs), pkg=pkg, smoke=allitems,
                                        scratch=os.path.join(scratch, "all_%s" % pkg))))
        plan.append((pkg, names, items))
    nrand = 60 if ctx.thorough else 14
    for k in range(nrand):
        es = rnd.sample(data["modules"], rnd.randint(2, 4))
        jobs.append((("rand", k), dict(entries=es, scratch=os.path.join(scratch, "rand%d" % k))))
    pool = concurrent.futures.ThreadPoolExecutor(max_workers=4)
    f_probes = pool.submit(il.run_many, ctx, jobs)
    f_export = pool.submit(ctx.export, datamod, "Imports_%s_export.cfg" % tag, min_records=len(lists))
    f_self = pool.submit(refl_selftest, ctx, scratch)
    try:
        res = ctx.mc(datamod, "Imports_%s.cfg" % tag, coverage=True, expect_violation="report")
        recs_future_result = f_export.result()
        f_self.result()
    finally:
        pool.shutdown(wait=True)
    if res.exit == 0:
        for a in ACTIONS:
            if res.coverage.get(a, 0) == 0:
                raise core.MachineryError("vacuous model: action %s never taken" % a)
    elif res.violated in ("TypeOK", "LoadedIsClosure", "NamesAreStatic") or res.violated is None:
        raise core.MachineryError("Imports model is inconsistent (%s):\n%s" % (res.violated, res.out[-2500:]))

    # every prediction of the model (all violations, not only the first one TLC stops at)
    recs = recs_future_result
    ready = {}
    predicted_bad = False
    tlc_dead = set()
    for r in recs:
        if r["t"] == "ready":
            # several outcomes per entry list when the model had to take either branch of an `if`
            ready.setdefault(tuple(r["entries"]), []).append(r)
            for miss in r["missing"]:
                predicted_bad = True
                find.add("AllAdvertised:%s:%s" % (miss["m"], miss["name"]),
                         what="__all__ of %s advertises %r which the package does not define" % (miss["m"], miss["name"]),
                         entries=[r["entries"]])
        elif r["t"] == "bad":
            predicted_bad = True
            for ld in r["loads"]:
                find.add("GlobalsResolve:%s:%s" % (r["m"], ld["name"]),
                         what="global name %r is loaded but never bound in %s (NameError when reached)" % (ld["name"], r["m"]),
                         functions=["%s line %d" % (r["f"], ld["line"])])
            for ld in r.get("locals", []):
                find.add("LocalsResolve:%s:%s" % (r["m"], ld["name"]),
                         what="local name %r can be read while it is unbound (UnboundLocalError, a NameError): it is "
                              "deleted at the end of `except ... as %s` / by del, or its only assignment is the "
                              "statement that raised" % (ld["name"], ld["name"]),
                         functions=["%s line %d" % (r["f"], ld["line"])])
                tlc_dead.add((r["f"], ld["name"], ld["line"]))
            for v in r.get("refl", []):
                find.add(refl_key(r["m"], v),
                         what="a name of %s is looked up by a computed string (%s, pattern %r%s) and the %s that "
                              "raises when the name does not exist is not handled: among the strings the expression "
                              "can evaluate to, %s are not names of %s" % (
                                  v["on"], "getattr" if v["how"] == "getattr" else "namespace dictionary", v["pat"],
                                  ", a part of it comes from an argument / from data" if v["open"] else "",
                                  "AttributeError" if v["how"] == "getattr" else "KeyError", sorted(v["missing"]),
                                  v["on"]),
                         functions=["%s line %d" % (r["f"], v["line"])], entries=[r["entries"]])
            for c in r["chains"]:
                find.add("ChainsResolve:%s:%s.%s" % (r["m"], c["on"], c["attr"]),
                         what="%s is evaluated in %s although nothing it imports loads %s.%s" % (
                             ".".join([c["root"]] + c["links"]), r["m"], c["on"], c["attr"]),
                         functions=["%s line %d" % (r["f"], c["line"])],
                         entries=[r["entries"]])
        elif r["t"] == "failed":
            predicted_bad = True
            fl = r["fail"]
            find.add("ImportsSucceed:%s:%s:%s" % (fl["m"], fl["kind"], (fl["on"] + "." if fl["on"] else "") + fl["name"]),
                     what="import fails", line=fl["line"], entries=[r["entries"]])
    # the lookups by computed name the model predicts, executed on the real module objects
    seen_refl = replay_refl(ctx, data, recs, scratch)
    for r in recs:
        if r["t"] == "bad":
            for v in r.get("refl", []):
                obs = [seen_refl[(r["f"], v["line"], n)] for n in sorted(v["missing"]) if (r["f"], v["line"], n) in seen_refl]
                if obs:
                    find.add(refl_key(r["m"], v), observed=obs[:3])
    # the path search over the binding events is TLC's; the reference implementation must agree
    ref_dead = set()
    for f in data["funcs"]:
        if f["fnodes"]:
            nodes = [[n["op"], n["name"], n["line"]] for n in f["fnodes"]]
            succ = [[y - 1 for y in ys] for ys in f["fsucc"]]
            seeds = [(x["t"] - 1, x["h"] - 1, x["last"] - 1, x["name"]) for x in f["fseeds"]]
            ref_dead |= set((f["id"], n, ln) for n, ln in localflow.dead_loads(nodes, succ, seeds))
    if ref_dead != tlc_dead:
        raise core.MachineryError("LocalsResolve: TLC %s and the reference search %s disagree" % (
            sorted(tlc_dead), sorted(ref_dead)))
    if (res.exit != 0) != predicted_bad:
        raise core.MachineryError("model check (violated %s) and export (violations %s) disagree" % (
            res.violated, sorted(find.items)))
    if res.exit != 0:
        ctx.extra["tlc_first_violation"] = res.violated

    # ------------------------------------------------------------------ S2C: predictions against fresh interpreters
    allres = f_probes.result()
    probes = dict((tuple(es), allres[("imp", tuple(es))]) for es in lists)
    traces = []
    for es in lists:
        key = tuple(es)
        probe = probes[key]
        outcomes = ready.get(key, [])
        may_fail = any(r["t"] == "failed" and tuple(r["entries"]) == key for r in recs)
        ctx.case(["import", es], nontrivial=es != ["lena"])
        if "import_error" in probe:
            ie = probe["import_error"]
            import_error(data, find, ie)
            if not may_fail:
                raise core.MachineryError("model predicts that importing %s succeeds, the interpreter raised %s: %s"
                                          % (es, ie["cls"], ie["msg"]))
            continue
        if not outcomes:
            raise core.MachineryError("model predicts that importing %s fails, the interpreter succeeded" % (es,))
        diffs = [compare_ready(ctx, rec, probe, modules) for rec in outcomes]
        if all(diffs):
            raise core.MachineryError("model and interpreter disagree after importing %s: %s" % (es, diffs[0]))
        traces.append(probe["events"])
        # star imports are executed
        for e, st in probe.get("stars", {}).items():
            ctx.case(["star", e])
            if st["out"] != "ok":
                nm = st.get("name") or ""
                find.add("AllAdvertised:%s:%s" % (e, nm),
                         observed=["from %s import * -> %s: %s" % (e, st["cls"], st["msg"])])
            elif st["all"] is not None and st["bound"] != st["all"]:
                find.add("AllAdvertised:%s:star-binds-other-names" % e, bound=st["bound"], advertised=st["all"])
    for key in sorted(ready, key=lambda k: (k[0] not in subs or len(k) > 1, k))[:1]:
        ctx.sample({"model_prediction": {"entries": list(key), "sys_modules_order": ready[key][0]["order"][:14],
                                         "namespace_of_" + key[0]: sorted(ready[key][0]["mods"][key[0]])[:40]}})

    # ------------------------------------------------------------------ smoke table: only X imported vs everything
    sm = allres
    n_smoke = 0
    for pkg, names, items in plan:
        full = sm[("all", pkg)]
        if "import_error" in full:
            continue        # reported above (the list of all subpackages is one of the entry lists)
        allout = dict((o["key"], o) for o in full["smoke"])
        for n in names:
            only = sm[("only", pkg, n)]
            if "import_error" in only:
                continue
            for o in only["smoke"]:
                a = allout[o["key"]]
                n_smoke += 1
                ctx.case(["smoke", pkg, o["key"], o["code"]])
                if o["key"].endswith("#attr") and o["out"] == "exc" and o["cls"] == "AttributeError":
                    find.add("AllAdvertised:%s:%s" % (pkg, n), observed=["%s -> %s" % (o["code"], o["msg"])])
                    continue
                dyn_only = classify_dynamic(ctx, data, find, pkg, n, "only " + pkg + " imported", o)
                dyn_all = classify_dynamic(ctx, data, find, pkg, n, "everything imported", a)
                same = (o["out"] == a["out"] and o.get("repr") == a.get("repr") and o.get("cls") == a.get("cls")
                        and o.get("msg") == a.get("msg"))
                if not same and not (dyn_only or dyn_all):
                    find.add("Smoke:%s.%s:only-vs-all" % (pkg, n), code=o["code"],
                             only={k: o.get(k) for k in ("out", "repr", "cls", "msg")},
                             everything={k: a.get(k) for k in ("out", "repr", "cls", "msg")})
                if len(ctx.samples) < 3 and o["out"] == "ok" and "#attr" not in o["key"]:
                    ctx.sample({"smoke": {"package": pkg, "code": o["code"], "only": o["repr"], "all": a.get("repr")}})
    ctx.extra["smoke_snippets"] = n_smoke

    # ------------------------------------------------------------------ C2S: event logs of import sequences beyond
    # the entry lists of the model check, validated by Trace_Imports
    rp = allres
    for k in range(nrand):
        p = rp[("rand", k)]
        ctx.case(["import-sequence", p["events"][0]["entries"]])
        if "import_error" in p:
            import_error(data, find, p["import_error"])
        traces.append(p["events"])
    flat = [e for t in traces for e in t]
    tracemod = os.path.join(ctx.workdir, "Imports_trace.tla")
    with open(tracemod, "w") as f:
        f.write(ei.to_tla(data, "Imports_trace", sets, trace=True))
    acc = ctx.validate(tracemod, "Trace_Imports.cfg", flat, label="imports")
    ctx.traces += len(traces)
    if acc < len(flat):
        raise core.MachineryError("recorded import events are not a behaviour of Imports.tla: event %d rejected: %s"
                                  % (acc, core.canon(flat[acc])[:500]))
    ctx.sample({"recorded_import_events": [dict((k, v) for k, v in e.items() if k not in ("names", "mods"))
                                           for e in traces[-1][:8]]})

    def corrupt(r):
        if r.get("ev") == "end" and len(r["names"]) > 9:
            names = dict(r["names"])
            victim = sorted(n for n in names if not n.startswith("__"))[0]
            del names[victim]
            return dict(r, names=names)
        return None
    ctx.binding_demo(tracemod, "Trace_Imports.cfg", flat, corrupt, limit=60)

    find.report(ctx)
    shutil.rmtree(scratch, ignore_errors=True)
    return ctx.finish(
        rule="the model is generated from the tree (all %d modules, %d function scopes); TLC explores every import "
             "sequence of the entry lists (%d: each subpackage alone, lena, all%s) followed by calls of any function "
             "in any order, every lookup by a computed name with the strings its expression can evaluate to; S2C: "
             "predicted sys.modules order and every module namespace compared with a fresh "
             "interpreter per entry list, predicted lookups by computed name executed on the real module objects "
             "(self-test tree: %d calls), star imports executed, %d smoke snippets run with only their subpackage "
             "imported (one interpreter per public name) and with everything imported; C2S: import event logs of "
             "%d random import sequences + all entry lists validated by Trace_Imports" % (
                 len(data["modules"]), len(data["funcs"]), len(lists),
                 ", ordered pairs, every module" if ctx.thorough else "",
                 ctx.extra.get("reflective_selftest", {}).get("calls", 0), n_smoke, nrand),
        exhaustive=True)
