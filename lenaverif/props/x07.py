"""X07  A whole analysis, end to end (composition of the parts specified one by one elsewhere).

spec/AnalysisSem.tla     branches of a tutorial-style analysis (Compose(particle, coordinate) / particle + Combine(x, y)
                         followed by a Histogram), what each computes, the files a run leaves, what it writes and launches
spec/Analysis.tla        the machine: blocks of bufsize events, fills branch by branch, computes in branch order, each
                         result pulled through MakeFilename / ToCSV / Write / RenderLaTeX / Write / LaTeXToPDF / PDFToPNG;
                         PerBranch, FilesRef, OneResultPerBranch, NoRedo, RedoRef, RunIsSem (machine = declarative run)
spec/Trace_Analysis.tla  validation of runs recorded from the real pipeline on random analyses
"""
import json
import multiprocessing
import os
import random
import shutil
import tempfile

from .. import core
from .. import analysislib as al

ACTIONS = ("StartRun", "ReadBlock", "FillBranch", "Compute", "Emit", "EndRun")


def run(ctx):
    tag = "thorough" if ctx.thorough else "quick"
    rnd = random.Random(ctx.seed)
    ctx.assume("plots of one analysis have pairwise different names; every run reads at least one event "
               "(the results of an empty run carry no variable description and hence no file name)")
    ctx.assume("converters are stubs: the pdf is the concatenation of its tex and csv, the png wraps the pdf; "
               "no file is deleted or edited between runs (that is C19)")
    # ---- design level
    ctx.mc("Analysis", "Analysis_%s.cfg" % tag, coverage=True, must_cover=ACTIONS)
    # sensitivity guard: a Write that does not compare contents must be refuted by NoRedo
    res = ctx.mc("Analysis", "Analysis_writealways.cfg", expect_violation="report")
    if res.exit == 0 or "NoRedo" not in (res.violated or ""):
        raise core.MachineryError("sensitivity guard: Analysis_writealways.cfg must violate NoRedo (got exit %s, %s)"
                                  % (res.exit, res.violated))
    recs = ctx.export("Analysis", "Analysis_export.cfg", min_records=600)
    if ctx.thorough:
        recs = recs + ctx.export("Analysis", "Analysis_export3.cfg", min_records=300)

    # ---- spec -> code: every exported history on the real pipeline (sharded: real files, stub processes)
    scratch = tempfile.mkdtemp(prefix="x07_", dir=os.path.dirname(ctx.workdir.rstrip("/")) or None)
    nsh = max(1, min(ctx.nworkers, 8))
    shards = [[] for _ in range(nsh)]
    for k, rec in enumerate(recs):
        shards[k % nsh].append((k, rec))
    try:
        jobs = [(sh, os.path.join(scratch, "s%d" % i)) for i, sh in enumerate(shards)]
        mp = multiprocessing.get_context("fork")
        pool = mp.Pool(nsh)
        try:
            outs = pool.map(al._job, jobs)
        finally:
            pool.close()
            pool.join()
        found = {}
        for bad, n in outs:
            ctx.evaluations += n
            for k, key, detail in bad:
                size = len(json.dumps(detail))
                if key not in found or size < found[key][0]:
                    found[key] = (size, detail)
        for key in sorted(found):
            ctx.violation(key, found[key][1])
        for rec in recs:
            ctx.case(["history", rec["brs"], rec["bs"], rec["cache"], [(r["src"], r["tpl"]) for r in rec["runs"]]],
                     nontrivial=True, traces=1)
        ctx.sample({"spec_history": recs[len(recs) // 2]})

        # ---- code -> spec: seeded random analyses recorded on the real pipeline
        trace = []
        for k in range(120 if ctx.thorough else 25):
            hist = al.record_history(rnd, os.path.join(scratch, "r%d" % k))
            if hist and "raised" in hist[-1]:
                ctx.violation("Analysis:random:raised:%s" % hist[-1]["raised"], hist[-1])
                hist = hist[:-1]
            trace.extend(hist)
    finally:
        shutil.rmtree(scratch, ignore_errors=True)
    ctx.trace_check("Trace_Analysis", "Trace_Analysis.cfg", trace,
                    lambda r: "%s:%s%s" % ("first-run" if r["first"] else "rerun", al.shape(r["brs"], r["bs"]),
                                           ":cache" if r["usecache"] else ""))

    def corrupt(r):
        if not r["wrote"]:
            return None
        r2 = dict(r)
        r2["wrote"] = r["wrote"][1:]
        return r2
    ctx.binding_demo("Trace_Analysis", "Trace_Analysis.cfg", trace, corrupt)
    return ctx.finish(
        rule="S2C: every history of the bounded model (7 branch lists of 1..4 plots over positron / neutron x "
             "x / y / xy, bufsize 1 and 2, two runs (thorough: also three) over 4 data sets with and without a template "
             "change) executed on the real Sequence(Split(Compose / Combine + Histogram), MakeFilename, ToCSV, Write, "
             "RenderLaTeX, Write, LaTeXToPDF, PDFToPNG) in a scratch directory with stub converters: files present and "
             "their decoded contents, files written, converters launched, yielded values and events read compared after "
             "every run; C2S: seeded random analyses (1..5 plots, random edges, 1..12 events, 2..4 runs) validated run "
             "by run by Trace_Analysis.tla",
        exhaustive=True)
