"""C06  Histogram fill puts every value into exactly the right cell and conserves weight.

spec/HistSem.tla          declarative cells (Idx, CellsOf, FillRefOK) and the code's walk (FillOp), loop body
spec/Histogram.tla        histogram / Histogram as a fill machine: Conservation, ExactlyOne, HalfOpen, OneCell
spec/HistElement.tla      the element's life cycle: initial bins (plain / bins= / make_bins= / initial_value=), fill, reset;
                          Conservation relative to the initial content across resets, StepOK, SinceReset
spec/BinSearch.tla        the interpolation-search loop of get_bin_on_value_1d with a nondeterministic guess
spec/Trace_Histogram.tla  validation of fills recorded on float meshes (rank abstraction)
spec/Trace_BinSearch.tla  validation of the loop iterations sampled from the real function (sys.settrace)
spec/BinSearchInd.tla, HistInd.tla   Apalache: loop invariant / conservation inductive for unbounded integers (thorough)
"""
import concurrent.futures
import random

from .. import core
from .. import histlib as hl


SEARCH_ACTIONS = ("Close", "HitLow", "Below", "AtOrAbove", "GuessLow", "GuessHigh", "NarrowDown", "NarrowUp")


def strip(recs):
    return [dict((k, v) for k, v in r.items() if k != "real") for r in recs]


def deep_binding(ctx, recs, report):
    """Iterations of the real loop are behaviours of BinSearch.tla (coverage evidence; only a wrong
    *result* is a violation of the statement)."""
    if not recs:
        return
    trace = strip(recs)
    acc = ctx.validate("Trace_BinSearch", "Trace_BinSearch.cfg", trace, label="search")
    ctx.evaluations += len(trace)
    note = "%d sampled calls of get_bin_on_value_1d: every iteration is a step of BinSearch.tla" % acc
    guess_hi = sum(1 for r in trace[:acc] for s in r["steps"][:-1] if s[2] == s[1])
    guess_lo = sum(1 for r in trace[:acc] for s in r["steps"][:-1] if s[2] == s[0])
    note += " (guess = ind_min %d times, guess = ind_max %d times, up to %d iterations)" % (
        guess_lo, guess_hi, max(len(r["steps"]) for r in trace))
    if acc < len(trace):
        # classify the first rejected call: wrong result (violation) or only a different loop structure
        bad = recs[acc]
        acc2 = ctx.validate("Trace_BinSearch", "Trace_BinSearch_res.cfg", [trace[acc]], label="search_res")
        if acc2 == 0:
            report("get_bin_on_value_1d:random:%s:wrong-index" % bad["real"]["spacing"], {"record": bad})
        note = ("loop iterations deviate from BinSearch.tla at sampled call %d (result %s): deep binding of the "
                "loop reduced, results are still checked" % (acc, "wrong" if acc2 == 0 else "correct"))
    else:
        ctx.traces += acc
        ctx.binding_demo("Trace_BinSearch", "Trace_BinSearch.cfg", trace,
                         lambda r: dict(r, res=r["res"] + 1) if len(r["arr"]) > 2 else None)
        ctx.sample({"recorded_search": recs[min(3, len(recs) - 1)]})
    ctx.extra["binsearch_loop_binding"] = note


def trace_phase(ctx, recs, searches, report):
    trace = strip(recs)
    ctx.trace_check("Trace_Histogram", "Trace_Histogram.cfg", trace,
                    lambda r: "%s:dim=%d" % (r["kind"], len(r["edges"])))
    if recs:
        ctx.sample({"recorded_fill": recs[len(recs) // 2]})
        ctx.binding_demo("Trace_Histogram", "Trace_Histogram.cfg", trace,
                         lambda r: dict(r, oor=r["oor"] + 1) if not r["new"] else None)
    deep_binding(ctx, searches, report)


def run(ctx):
    tag = "thorough" if ctx.thorough else "quick"
    rnd = random.Random(ctx.seed)
    report = hl.Reporter(ctx)
    ctx.assume("edges are finite and strictly increasing, differences do not overflow; no NaN/inf coordinates")
    ctx.assume("weights are dyadic rationals (k/8 scaled by powers of two) so that floating-point sums are exact")
    ctx.assume("the interpolation guess of get_bin_on_value_1d lies in ind_min..ind_max (monotone rounding); "
               "the model takes every such guess")
    # The TLC runs are independent processes: they run side by side while this process records and replays.
    pool = concurrent.futures.ThreadPoolExecutor(max_workers=5)
    try:
        # ---- design level (+ export of the scenarios)
        f_mc = pool.submit(ctx.mc, "Histogram", "Histogram_%s.cfg" % tag, coverage=True, must_cover=("Fill", "ElemFill", "BadFill"))
        # two histograms made from the same edges object, filled in turn
        f_twin = pool.submit(ctx.mc, "Histogram", "Histogram_twin.cfg", coverage=True, must_cover=("Fill", "ElemFill", "BadFill"))
        f_search = pool.submit(hl.mc_export, ctx, "BinSearch", "BinSearch_%s.cfg" % tag,
                               must_cover=SEARCH_ACTIONS, min_records=5000)
        f_fill = pool.submit(ctx.export, "Histogram", "Histogram_export.cfg", min_records=5000)
        f_hist = pool.submit(hl.export_generate, ctx, "Histogram", "Histogram_hist_export.cfg",
                             num=6000 if ctx.thorough else 800, depth=10, min_records=500)
        # the life cycle of the element: initial bins given in four ways, fill and reset in every order
        f_elmc = pool.submit(ctx.mc, "HistElement", "HistElement_%s.cfg" % tag, coverage=True, must_cover=("Fill", "Reset"))
        f_el = pool.submit(ctx.export, "HistElement", "HistElement_export.cfg", min_records=2000)
        f_apa = None
        if ctx.thorough:
            # unbounded integer edges / weights: the loop invariant and conservation are inductive
            f_apa = pool.submit(hl.apalache_obligations, ctx, [
                ("BinSearchInd", "Init", "IndInv", 0), ("BinSearchInd", "IndInit", "IndInv", 1),
                ("BinSearchInd", "IndInit", "Shrinks", 1),
                ("HistInd", "Init", "Conservation", 0), ("HistInd", "IndInit", "Conservation", 1)])

        # ---- code -> spec: float meshes of 2..12 edges in 1..3 dimensions, rank-abstracted
        # (all random choices are made here, in a fixed order)
        embs = hl.embeddings(ctx.thorough, rnd)
        ctx.extra["embeddings"] = [e.name for e in embs]
        recs = []
        for _ in range(1500 if ctx.thorough else 150):
            recs.extend(hl.record_session(rnd, report))
        searches = hl.record_searches(rnd, 4000 if ctx.thorough else 600, report)
        f_trace = pool.submit(trace_phase, ctx, recs, searches, report)

        # ---- spec -> code
        srecs = f_search.result()
        n = hl.replay_search(ctx, srecs, embs, report)
        for r in srecs:
            ctx.case(["search", r["arr"], r["val"]], nontrivial=len(r["arr"]) > 2, traces=len(embs))
        ctx.sample({"spec_search": srecs[len(srecs) // 2], "real_calls": n})
        frecs = f_fill.result()
        for k, rec in enumerate(frecs):
            # all embeddings on one-dimensional meshes (where the search does the work), a rotating
            # selection on the larger multi-dimensional families
            if len(rec["edges"]) == 1 or ctx.thorough:
                use = embs
            else:
                use = [embs[(k + j) % len(embs)] for j in range(4)]
            m = hl.replay_fills(ctx, rec, use, report, tuples=(k % 7 == 0), variant=k)
            ctx.case(["fill", rec], nontrivial=True, traces=m)
        hrecs = f_hist.result()
        for k, rec in enumerate(hrecs):
            use = embs if ctx.thorough else [embs[(k + j) % len(embs)] for j in range(5)]
            m = hl.replay_fills(ctx, rec, use, report, tuples=(k % 5 == 0), variant=k)
            ctx.case(["history", rec], nontrivial=True, traces=m)
        erecs = f_el.result()
        for k, rec in enumerate(erecs):
            use = embs if ctx.thorough else [embs[(k + j) % len(embs)] for j in range(2)]
            m = hl.replay_element(ctx, rec, use, report)
            ctx.case(["element", rec], nontrivial=True, traces=m)
        ctx.sample({"spec_element_lifecycle": erecs[len(erecs) // 2]})
        f_elmc.result()
        ctx.sample({"spec_fill": frecs[len(frecs) // 3]})
        ctx.sample({"spec_history": hrecs[len(hrecs) // 2]})
        f_mc.result()
        f_twin.result()
        f_trace.result()
        if f_apa is not None:
            f_apa.result()
    finally:
        pool.shutdown(wait=True)

    return ctx.finish(
        rule="S2C: every (array, value) of BinSearch.tla (arrays of 2..5 (thorough 7) and 12 (10..12) edges) on "
             "get_bin_on_value(_1d), every single fill of Histogram_export (all 1-d meshes over 6 grid points, 2-d "
             "and 3-d families, all coordinates incl. exact edges and out of range, weights {1,2,-1}) and seeded "
             "6-fill histories generated by TLC, each under 13+ monotone embeddings (ints, floats, tiny, huge, "
             "geometric, float neighbours) on histogram and Histogram; C2S: seeded random float meshes "
             "(2..12 edges, 1..3 dims) validated fill by fill by Trace_Histogram, loop iterations by Trace_BinSearch",
        exhaustive=True)
