"""C02  Evaluation is lazy: demand-driven consumption and bounded buffering.

The coroutine machine of spec/Flow.tla is the laziest implementation the documentation allows
(TLC: pulls at every delivery = MinNeed, no work before demand, input pulled only when every
stage is drained, Split/negative-Slice buffer bounds, termination of Slice(n) after an infinite
source under fairness).  Binding: every bounded scenario runs on the real pipeline fed by an
instrumented iterator; at each delivery the real code may have pulled at most what the machine
pulled; building and calling run() pull nothing; the consumer stops at every k.
The negative-index branches of Slice are bound through spec/Slice.tla (pull counts, lag).
"""
import gc
import random
import weakref

from .. import core
from .. import flowlib as fl
from ..util import CountingIter, exc_name

INF = 1000
TIMEOUTS = [0]


class TooManyTimeouts(Exception):
    pass


class Obj(object):
    """weakref-able data payload"""
    __slots__ = ("i", "__weakref__")

    def __init__(self, i):
        self.i = i


def build(prog, src, as_source, nested):
    import lena.core
    els = [fl.build_stage(st, True, use_context_el=True) for st in prog]
    if nested and len(els) >= 2:
        els = [lena.core.Sequence(els[0]), lena.core.Sequence(*els[1:])]
    if as_source:
        return lena.core.Source(lambda: src, *els)
    return lena.core.Sequence(*els)


def observe(prog, n, kmax, as_source=False, nested=False, close_at=None):
    """Run the real pipeline; returns dict(out, pulls, prebuild, prerun, end)."""
    src = CountingIter(None if n == INF else n, make=lambda i: (i, {}))
    res = {"out": [], "pulls": []}
    with fl.quiet():
        seq = build(prog, src, as_source, nested)
        res["pulled_at_build"] = src.pulled
        gen = seq() if as_source else seq.run(src)
        res["pulled_at_run"] = src.pulled
        try:
            with fl.time_limit(4):
                while len(res["out"]) < kmax:
                    if close_at is not None and len(res["out"]) >= close_at:
                        break
                    try:
                        v = next(gen)
                    except StopIteration:
                        res["exhausted"] = True
                        break
                    res["out"].append(fl.project(v))
                    res["pulls"].append(src.pulled)
        except fl.Watchdog:
            res["timeout"] = True
            TIMEOUTS[0] += 1
        except Exception as exc:    # noqa  (the real pipeline raised: reported by the caller)
            res["raised"] = exc_name(exc)
        if hasattr(gen, "close"):
            before = src.pulled
            gen.close()
            res["pulled_by_close"] = src.pulled - before
    res["end"] = src.pulled
    return res


def kinds(prog):
    return "+".join(st["t"] for st in prog)


def replay(ctx, rec):
    prog, n = rec["prog"], rec["n"]
    exp_out = [fl.norm_spec_val(v) for v in rec["out"]]
    pulls = rec["pulls"]
    kmax = len(exp_out) + (1 if rec["exhausted"] else 0)
    ok = True
    for as_source, nested in ((False, False), (True, False), (False, True)):
        r = observe(prog, n, kmax, as_source, nested)
        ctx.evaluations += 1
        where = {"prog": prog, "n": n, "source": as_source, "nested": nested}
        if r["pulled_at_build"] or r["pulled_at_run"]:
            ok = False
            ctx.violation("work-before-demand:%s" % kinds(prog), dict(where, observed=r))
        if r.get("timeout"):
            ok = False
            ctx.violation("no-termination:%s" % kinds(prog), dict(where, expected_pulls=pulls))
            if TIMEOUTS[0] >= 3:
                raise TooManyTimeouts()
            continue
        if r["out"] != exp_out or r.get("raised"):
            ok = False
            ctx.violation("output:%s" % kinds(prog), dict(where, expected=exp_out, observed=r["out"],
                                                          raised=r.get("raised")))
            continue
        over = [j for j in range(len(pulls)) if r["pulls"][j] > pulls[j]]
        if over:
            ok = False
            ctx.violation("eager:%s" % kinds(prog),
                          dict(where, delivery=over[0] + 1, spec_pulls=pulls, impl_pulls=r["pulls"]))
        if rec["exhausted"] and r.get("exhausted") and r["end"] > rec["endpos"]:
            # asked for a result that does not exist: the machine (islice consumes to its stop, Count one
            # look-ahead, Split one block) learns that from endpos values; reading further is not lazy
            ok = False
            ctx.violation("eager-at-end:%s" % kinds(prog),
                          dict(where, spec_end_pulls=rec["endpos"], impl_end_pulls=r["end"]))
        if r.get("pulled_by_close"):
            ok = False
            ctx.violation("pull-on-close:%s" % kinds(prog), dict(where, observed=r))
    # every consumer stop point k: same prefix, no more pulls than at delivery k, close() pulls nothing
    for k in range(0, len(exp_out)):
        r = observe(prog, n, kmax, close_at=k)
        ctx.evaluations += 1
        lim = pulls[k - 1] if k else 0
        if r["out"] != exp_out[:k] or r["end"] > lim or r.get("raised"):
            ok = False
            ctx.violation("stop-at-k:%s" % kinds(prog),
                          {"prog": prog, "n": n, "k": k, "allowed_pulls": lim, "observed": r})
    return ok


def replay_negslice(ctx, rec, lena):
    """spec/Slice.tla behaviours: pull counts and retained values of negative-index Slices."""
    a, b, s = (None if rec[x] == "None" else int(rec[x]) for x in ("a", "b", "s"))
    n = rec["n"]
    src = CountingIter(n, make=Obj)
    refs = []
    src2 = src

    peak = [0]

    class Tap(object):
        def __iter__(self):
            return self

        def __next__(self):
            # values alive at the moment the element asks for one more
            peak[0] = max(peak[0], sum(1 for r in refs if r() is not None))
            o = next(src2)
            refs.append(weakref.ref(o))
            return o
    gen = lena.flow.Slice(a, b, s).run(Tap())
    if src.pulled:
        ctx.violation("negslice:work-before-demand", {"args": [a, b, s]})
    out, pulls, alive = [], [], []
    for o in gen:
        out.append(o.i)
        pulls.append(src.pulled)
        del o
        alive.append(sum(1 for r in refs if r() is not None))
    ctx.evaluations += 1
    bound = max(-a if a is not None and a < 0 else 0, -b if b is not None and b < 0 else 0)
    key = "negslice:branch=%s" % rec["branch"]
    if out != rec["out"]:
        ctx.violation(key + ":output", {"args": [a, b, s], "n": n, "expected": rec["out"], "observed": out})
        return
    over = [j for j in range(len(pulls)) if pulls[j] > rec["pulls"][j]]
    if over:
        ctx.violation(key + ":eager", {"args": [a, b, s], "n": n, "spec_pulls": rec["pulls"], "impl_pulls": pulls})
    if src.pulled > rec["endpos"]:
        ctx.violation(key + ":eager-at-end", {"args": [a, b, s], "n": n, "spec_end_pulls": rec["endpos"],
                                              "impl_end_pulls": src.pulled})
    # values kept alive: the |index| it documents (+1 for the value being handed over), at every
    # delivery and at every moment the element pulls
    if max(alive + [peak[0]]) > bound + 1:
        ctx.violation(key + ":held", {"args": [a, b, s], "n": n, "alive_at_deliveries": alive,
                                      "peak_alive_at_pull": peak[0], "bound": bound})


def run(ctx):
    import lena.flow
    tag = "thorough" if ctx.thorough else "quick"
    ctx.assume("the spec machine is the laziest allowed implementation; the code must not pull more at any delivery")
    ctx.assume("pulls after the consumer asks for a result that does not exist are not constrained")
    ctx.mc("Flow", "Flow_c02_%s.cfg" % tag, coverage=True,
           must_cover=("Ask", "StageNeed", "StageHave", "StageEof", "Source", "Deliver"))
    ctx.mc("Flow", "Flow_c02_live.cfg")
    ctx.mc("Slice", "Slice_mc.cfg")
    recs = ctx.export("Flow", "Flow_c02_%s_export.cfg" % tag, min_records=500)
    try:
        for rec in recs:
            replay(ctx, rec)
            ctx.traces += 1
            if rec["prog"] and rec["n"]:
                ctx.distinct.add(core.canon([rec["prog"], rec["n"]]))
    except TooManyTimeouts:
        return ctx.finish(rule="aborted after three non-terminating real runs (reported as violations)")
    ctx.sample({"spec_behaviour": recs[len(recs) // 2]})
    inf = [r for r in recs if r["n"] == INF and r["exhausted"]]
    ctx.extra["infinite_source_terminating_scenarios"] = len(inf)
    if inf:
        ctx.sample({"spec_behaviour_infinite_source": inf[len(inf) // 2]})
    # negative-index Slice: pull/yield machine of Slice.tla
    srecs = ctx.export("Slice", "Slice_export.cfg", min_records=1000)
    nneg = 0
    for rec in srecs:
        if rec["branch"] != "islice" and (ctx.thorough or (rec["n"] in (0, 3, 7, 10))):
            replay_negslice(ctx, rec, lena)
            nneg += 1
            ctx.traces += 1
            ctx.distinct.add(core.canon(["neg", rec["a"], rec["b"], rec["s"], rec["n"]]))
    ctx.extra["negative_slice_scenarios"] = nneg
    # ---- code -> spec: random streaming pipelines with recorded pull vectors
    rnd = random.Random(ctx.seed)
    alphabet = ["map", "map", "filter", "slice", "lagk", "count", "runif", "split"]
    trace = []
    ntr = 1200 if ctx.thorough else 250
    attempts = 0
    while len(trace) < ntr and attempts < 2 * ntr:
        attempts += 1
        prog = [fl.random_stage(rnd, alphabet) for _ in range(rnd.randint(1, 6))]
        for st in prog:
            if st["t"] == "split":
                st["brs"] = [b for b in st["brs"] if b["t"] != "sum"] or [{"t": "map", "f": "inc"}]
        n = rnd.randint(0, 12)
        r = observe(prog, n, 10 ** 6, as_source=rnd.random() < 0.3, nested=rnd.random() < 0.3)
        if r.get("timeout"):
            ctx.violation("no-termination:%s" % kinds(prog), {"prog": prog, "n": n})
            break
        if r.get("raised"):
            ctx.violation("random-run:raised:%s" % r["raised"], {"prog": prog, "n": n})
            continue
        trace.append({"prog": prog, "n": n, "pairs": True, "out": r["out"], "pulls": r["pulls"], "lazy": True})
    acc = ctx.validate("Trace_Flow", "Trace_Flow.cfg", trace) if trace else 0
    ctx.traces += acc
    ctx.evaluations += len(trace)
    for r in trace[:acc]:
        ctx.distinct.add(core.canon(r))
    if acc < len(trace):
        r = trace[acc]
        ctx.violation("Trace_Flow:rejected:%s" % kinds(r["prog"]), {"record": r, "index": acc})
    if trace:
        ctx.sample({"recorded_trace_record": trace[min(5, len(trace) - 1)]})
    if trace and acc == len(trace) and not ctx.violations:
        bad = [dict(r) for r in trace[:40]]
        k = next(i for i, r in enumerate(bad) if r["pulls"] and r["pulls"][0] < r["n"])
        bad[k] = dict(bad[k], pulls=[p + 1 for p in bad[k]["pulls"]])
        acc2 = ctx.validate("Trace_Flow", "Trace_Flow.cfg", bad, label="corrupt")
        if acc2 != k:
            raise core.MachineryError("Trace_Flow does not bind pulls: corrupted %d accepted %d" % (k, acc2))
        ctx.extra["binding_demo"] = "record %d with every pull count increased by one is rejected at index %d" % (k, acc2)
    return ctx.finish(
        rule="S2C: all streaming programs of the bounded model x finite/infinite sources, each as Sequence, "
             "Source tail and nested, plus every consumer stop point k; negative-index Slice scenarios of "
             "Slice.tla with pull counts and weak-reference liveness; C2S: random pipelines with pull vectors",
        exhaustive=True)
