"""C02  Evaluation is lazy: demand-driven consumption and bounded buffering.

The coroutine machine of spec/Flow.tla is the laziest implementation the documentation allows
(TLC: pulls at every delivery = MinNeed, no work before demand, input pulled only when every
stage is drained, Split/negative-Slice buffer bounds, nothing pulled once the consumer has stopped,
termination of Slice(n) after an infinite source under fairness).  Binding: every bounded scenario
runs on the real pipeline fed by an instrumented iterator; at each delivery the real code may have
pulled at most what the machine pulled; building and calling run() pull nothing; the consumer stops
at every k by close(), by dropping the generator and by throwing into it.
The negative-index branches of Slice are bound through spec/Slice.tla (pull counts, lag, liveness)
and, inside pipelines, through the nslice stage of spec/FlowSem.tla.
Liveness of input values (weak references) is recorded on long flows and checked by Trace_Flow
against the retention each element documents (AliveBound).
"""
import gc
import random
import threading
import time
import weakref
from concurrent.futures import ThreadPoolExecutor

from .. import core
from .. import flowlib as fl
from ..util import CountingIter, exc_name

INF = 1000
TIMEOUTS = [0]
STOPKINDS = ("close", "abandon", "throw")
RUNAWAY = 2000      # an infinite input ends after that many pulls (the machine never pulls more than 4 * MaxOut + 8):
#                     a pipeline that drains its input terminates and is reported, whoever swallows the watchdog
# (as a Source, nested Sequences, first element of the Source: a callable / the iterator itself)
# "reiterable": the first element is an object with __iter__ that is not its own iterator (a lazy reader)
BUILDS = ((False, False, None), (True, False, "callable"), (False, True, None), (True, False, "iterable"),
          (True, False, "reiterable"))


# wrong variants of spec/FlowSrc.tla and the property TLC must refute for each
GUARDS = (("FlowSrc_wrong_buffer.cfg", "LazyEqDen"), ("FlowSrc_wrong_drain.cfg", "NoPullAfterStop"),
          ("FlowSrc_wrong_drain_end.cfg", "NoPullAfterFinish"))


class TooManyTimeouts(Exception):
    pass


class Boom(Exception):
    """thrown into the pipeline by the consumer"""


class Obj(object):
    """weakref-able data payload"""
    __slots__ = ("i", "__weakref__")

    def __init__(self, i):
        self.i = i


class Ctx(dict):
    """a context that can be weakly referenced: one per input value"""


class Src(object):
    """Instrumented input: counts pulls, remembers how many of its values were alive at any pull."""

    runaway = False

    def __init__(self, n):
        self.n = n
        self.pulled = 0
        self.refs = []
        self.peak = 0
        self.hints = 0

    @property
    def flow(self):
        """the object the pipeline is run on"""
        return self

    def alive(self):
        return sum(1 for r in self.refs if r() is not None)

    def __iter__(self):
        return self

    def __next__(self):
        self.peak = max(self.peak, self.alive())
        if self.n is not None and self.pulled >= self.n:
            raise StopIteration
        if self.n is None and self.pulled >= RUNAWAY:
            self.runaway = True
            raise StopIteration
        i = self.pulled
        self.pulled += 1
        c = Ctx()
        self.refs.append(weakref.ref(c))
        return (i, c)
    next = __next__


class SizedSrc(Src):
    """An input iterator that also answers __length_hint__ (PEP 424), as spec/FlowSrc.tla HintOf: the exact
    number of values left, two too many, or one too few; an infinite one answers a large number."""
    kind = "exact"

    def __length_hint__(self):
        self.hints += 1
        if self.n is None:
            return INF
        left = self.n - self.pulled
        if self.kind == "over":
            return left + 2
        if self.kind == "under":
            return left - 1 if left > 1 else 0
        return left


class OverSrc(SizedSrc):
    kind = "over"


class UnderSrc(SizedSrc):
    kind = "under"


class ListSrc(object):
    """iter(list): the pipeline runs on a genuine list_iterator; its position is read back from its own
    __length_hint__ (exact for a list iterator), never by wrapping it."""
    runaway = False
    peak = 0
    hints = 0

    def __init__(self, n):
        self.n = n
        self.values = [(i, Ctx()) for i in range(n)]
        self.flow = iter(self.values)

    @property
    def pulled(self):
        return self.n - self.flow.__length_hint__()

    def alive(self):
        return 0


SRC_CLASSES = {None: Src, "plain": Src, "exact": SizedSrc, "over": OverSrc, "under": UnderSrc, "list": ListSrc}


class ReIterable(object):
    """A lazy flow object: iterable, but not an iterator (no __next__); reading it is counted by its Src."""

    def __init__(self, src):
        self._src = src

    def __iter__(self):
        return self._src


class CountingList(list):
    """A list whose reads are counted (iteration, indexing, slicing)."""
    pulled = 0

    def __iter__(self):
        for v in list.__iter__(self):
            self.pulled += 1
            yield v

    def __getitem__(self, i):
        r = list.__getitem__(self, i)
        self.pulled += len(r) if isinstance(i, slice) else 1
        return r


class CountingTuple(tuple):
    pulled = 0

    def __iter__(self):
        for v in tuple.__iter__(self):
            self.pulled += 1
            yield v

    def __getitem__(self, i):
        r = tuple.__getitem__(self, i)
        self.pulled += len(r) if isinstance(i, slice) else 1
        return r


DIRECT = ("split", "slice", "nslice", "lagk", "filter", "runif")   # elements whose run() takes any iterable


def replay_direct(ctx, rec):
    """A single element whose run() is called DIRECTLY on a container (Sequence.run would convert the
    container to an iterator first): a list / tuple subclass that counts what is read from it.  The element
    may not read more of the container at any delivery than the machine pulls."""
    prog, n = rec["prog"], rec["n"]
    exp_out = [fl.norm_spec_val(v) for v in rec["out"]]
    for cls in (CountingList, CountingTuple):
        flow = cls([(i, Ctx()) for i in range(n)])
        out, pulls, raised, at_run = [], [], None, 0
        with fl.quiet():
            el = fl.build_stage(prog[0], True, use_context_el=True)
            try:
                with fl.time_limit(4):
                    gen = el.run(flow)
                    at_run = flow.pulled
                    for v in gen:
                        out.append(fl.project(v))
                        pulls.append(flow.pulled)
                        if len(out) == len(exp_out) and not rec["exhausted"]:
                            break           # the machine was observed for MaxOut deliveries only
            except Exception as exc:    # noqa
                raised = exc_name(exc)
                at_run = flow.pulled
        ctx.evaluations += 1
        key = "%s:direct-on-%s" % (kinds(prog), "list" if cls is CountingList else "tuple")
        where = {"prog": prog, "n": n, "container": cls.__name__}
        if at_run and not raised:
            ctx.violation("work-before-demand:" + key, dict(where, read_at_run=at_run))
        if raised or out != exp_out:
            ctx.violation("output:" + key, dict(where, expected=exp_out, observed=out, raised=raised))
            continue
        over = [j for j in range(len(pulls)) if pulls[j] > rec["pulls"][j]]
        if over:
            ctx.violation("eager:" + key, dict(where, delivery=over[0] + 1, spec_pulls=rec["pulls"], impl_reads=pulls))
        elif rec["exhausted"] and flow.pulled > rec["endpos"]:
            ctx.violation("eager-at-end:" + key, dict(where, spec_end_pulls=rec["endpos"], impl_end_reads=flow.pulled))


def build(prog, src, as_source, nested, first="callable", lead=0):
    """lead (spec/Flow.tla): that many elements without data stand before the generator of the Source."""
    import lena.core
    els = [fl.build_stage(st, True, use_context_el=True) for st in prog]
    before, els = els[:lead], els[lead:]
    if nested and len(els) >= 2:
        els = [lena.core.Sequence(els[0]), lena.core.Sequence(*els[1:])]
    if as_source:
        with fl.quiet_warnings():
            head = (lambda: src) if first == "callable" else ReIterable(src) if first == "reiterable" else src
            return lena.core.Source(*(before + [head] + els))
    assert not lead
    return lena.core.Sequence(*els)


# the ways of building a Source (scenarios whose generator stands after static context elements)
SOURCE_BUILDS = ((True, False, "callable"), (True, True, "callable"), (True, False, "iterable"), (True, False, "reiterable"))


def observe(prog, n, kmax, as_source=False, nested=False, first="callable", stop=None, lead=0, srckind=None):
    """Run the real pipeline; returns dict(out, pulls, pulled_at_build, pulled_at_run, end, ...).
    stop = (k, kind): the consumer stops after k results by close() / dropping the generator / throw()."""
    src = SRC_CLASSES[srckind](None if n == INF else n)
    flow = src.flow
    res = {"out": [], "pulls": []}
    close_at, stopkind = stop if stop else (None, "close")
    with fl.quiet():
        try:
            # an implementation that reads its input here never returns on an infinite source
            with fl.time_limit(2):
                seq = build(prog, flow, as_source, nested, first, lead)
                res["pulled_at_build"] = src.pulled
                gen = seq() if as_source else seq.run(flow)
                res["pulled_at_run"] = src.pulled - res["pulled_at_build"]
        except fl.Watchdog:
            TIMEOUTS[0] += 1
            res.update(timeout=True, pulled_at_build=res.get("pulled_at_build", src.pulled),
                       pulled_at_run=src.pulled - res.get("pulled_at_build", src.pulled), end=src.pulled, alive=0)
            return res
        except Exception as exc:    # noqa  (reported by the caller as an output mismatch)
            res.update(raised="at-construction:" + exc_name(exc), pulled_at_build=src.pulled, pulled_at_run=0,
                       end=src.pulled, alive=0)
            return res
        try:
            with fl.time_limit(4):
                while len(res["out"]) < kmax:
                    if close_at is not None and len(res["out"]) >= close_at:
                        break
                    try:
                        v = next(gen)
                    except StopIteration:
                        res["exhausted"] = True
                        break
                    res["out"].append(fl.project(v))
                    del v
                    res["pulls"].append(src.pulled)
                    src.peak = max(src.peak, src.alive())
        except fl.Watchdog:
            res["timeout"] = True
            TIMEOUTS[0] += 1
        except Exception as exc:    # noqa  (the real pipeline raised: reported by the caller)
            res["raised"] = exc_name(exc)
        before = src.pulled
        try:
            with fl.time_limit(4):
                if stopkind == "abandon":
                    del gen         # dropping the last reference finalises the generator chain
                    if srckind:
                        gc.collect()
                else:
                    if stopkind == "throw" and hasattr(gen, "throw"):
                        try:
                            gen.throw(Boom())
                            res["throw_swallowed"] = True
                        except Boom:
                            pass
                        except StopIteration:
                            pass
                    elif hasattr(gen, "close"):
                        gen.close()
                    if hasattr(gen, "close") and not res.get("throw_swallowed"):
                        # a stopped generator stays stopped and pulls nothing
                        try:
                            next(gen)
                            res["resumed_after_stop"] = True
                        except StopIteration:
                            pass
                        except Exception as exc:    # noqa
                            res["raised_after_stop"] = exc_name(exc)
        except fl.Watchdog:
            res["timeout"] = True
            TIMEOUTS[0] += 1
        res["pulled_by_stop"] = src.pulled - before
    # released pipelines (closed, dropped and collected, or upstream of a stage that finished) pull nothing
    gen = seq = None
    if srckind:
        gc.collect()    # (the scenarios of FlowSrc.tla; elsewhere reference counting releases the chain)
    if src.runaway and not res.get("timeout"):
        # the infinite input was drained (possibly inside a finaliser, where the watchdog is swallowed)
        res["timeout"] = True
        TIMEOUTS[0] += 1
    res["hints_read"] = src.hints
    res["end"] = src.pulled
    res["alive"] = src.peak
    return res


def kinds(prog):
    return "+".join(fl.kind_name(st) for st in prog)


def replay(ctx, rec, salt=0, all_stops=False, light=False):
    """light (records of spec/FlowSrc.tla: the same machine on every kind of input iterator): two of the ways of
    building per record, one way of stopping per stop point k (both rotate over the records)."""
    prog, n = rec["prog"], rec["n"]
    srckind = rec.get("src")
    sfx = ":src=%s" % srckind if srckind else ""
    exp_out = [fl.norm_spec_val(v) for v in rec["out"]]
    pulls = rec["pulls"]
    kmax = len(exp_out) + (1 if rec["exhausted"] else 0)
    ok = True
    lead = rec.get("lead", 0)
    builds = SOURCE_BUILDS if lead else BUILDS
    rot = n + len(prog) + salt + len(exp_out)
    full = [builds[rot % len(builds)], builds[(rot + 2) % len(builds)]] if light else builds
    for as_source, nested, first in full:
        r = observe(prog, n, kmax, as_source, nested, first, lead=lead, srckind=srckind)
        ctx.evaluations += 1
        where = {"prog": prog, "n": n, "source": as_source, "nested": nested, "first": first,
                 "elements_before_generator": lead, "input_iterator": srckind or "plain"}
        if r["pulled_at_build"] or r["pulled_at_run"]:
            ok = False
            ctx.violation("work-before-demand:%s%s" % (kinds(prog), sfx), dict(where, observed=r))
        if r.get("timeout"):
            ok = False
            ctx.violation("no-termination:%s%s" % (kinds(prog), sfx), dict(where, expected_pulls=pulls, observed=r))
            if TIMEOUTS[0] >= 3:
                raise TooManyTimeouts()
            continue
        if r["out"] != exp_out or r.get("raised"):
            ok = False
            ctx.violation("output:%s%s" % (kinds(prog), sfx), dict(where, expected=exp_out, observed=r["out"],
                                                          raised=r.get("raised")))
            continue
        over = [j for j in range(len(pulls)) if r["pulls"][j] > pulls[j]]
        if over:
            ok = False
            ctx.violation("eager:%s%s" % (kinds(prog), sfx),
                          dict(where, delivery=over[0] + 1, spec_pulls=pulls, impl_pulls=r["pulls"]))
        if rec["exhausted"] and r.get("exhausted") and r["end"] > rec["endpos"]:
            # asked for a result that does not exist: the machine (islice consumes to its stop, Count one
            # look-ahead, Split one block) learns that from endpos values; reading further is not lazy
            ok = False
            ctx.violation("eager-at-end:%s%s" % (kinds(prog), sfx),
                          dict(where, spec_end_pulls=rec["endpos"], impl_end_pulls=r["end"],
                               released_by_a_finished_stage=rec.get("released")))
        if r.get("pulled_by_stop") or r.get("resumed_after_stop"):
            ok = False
            ctx.violation("pull-on-close:%s%s" % (kinds(prog), sfx), dict(where, observed=r))
    # every consumer stop point k: same prefix, no more pulls than at delivery k; stopping pulls nothing
    # and the stopped pipeline yields nothing more.  The way of stopping and of building rotate with k.
    for k in range(0, len(exp_out)):
        for j in (range(3) if all_stops else [0]):
            stopkind = STOPKINDS[(k + n + salt + j) % 3]
            as_source, nested, first = builds[(k + 2 * n + salt + j) % len(builds)]
            r = observe(prog, n, kmax, as_source, nested, first, stop=(k, stopkind), lead=lead, srckind=srckind)
            ctx.evaluations += 1
            lim = pulls[k - 1] if k else 0
            if (r["out"] != exp_out[:k] or r["end"] > lim or r.get("raised") or r.get("timeout")
                    or r.get("resumed_after_stop") or r.get("raised_after_stop") or r.get("throw_swallowed")):
                ok = False
                ctx.violation("stop-at-k:%s%s%s" % (kinds(prog), "" if stopkind == "close" else ":" + stopkind, sfx),
                              {"prog": prog, "n": n, "k": k, "stop": stopkind, "allowed_pulls": lim,
                               "source": as_source, "nested": nested, "elements_before_generator": lead,
                               "input_iterator": srckind or "plain", "observed": r})
                if r.get("timeout") and TIMEOUTS[0] >= 3:
                    raise TooManyTimeouts()
    return ok


def replay_negslice(ctx, rec, lena, stops=()):
    """spec/Slice.tla behaviours: pull counts and retained values of negative-index Slices."""
    a, b, s = (None if rec[x] == "None" else int(rec[x]) for x in ("a", "b", "s"))
    n = rec["n"]
    src = CountingIter(n, make=Obj)
    refs = []
    src2 = src

    peak = [0]

    class Tap(object):
        def __iter__(self):
            return self

        def __next__(self):
            # values alive at the moment the element asks for one more
            peak[0] = max(peak[0], sum(1 for r in refs if r() is not None))
            o = next(src2)
            refs.append(weakref.ref(o))
            return o
    gen = lena.flow.Slice(a, b, s).run(Tap())
    if src.pulled:
        ctx.violation("negslice:work-before-demand", {"args": [a, b, s]})
    out, pulls, alive = [], [], []
    for o in gen:
        out.append(o.i)
        pulls.append(src.pulled)
        del o
        alive.append(sum(1 for r in refs if r() is not None))
    ctx.evaluations += 1
    bound = max(-a if a is not None and a < 0 else 0, -b if b is not None and b < 0 else 0)
    key = "negslice:branch=%s" % rec["branch"]
    if out != rec["out"]:
        ctx.violation(key + ":output", {"args": [a, b, s], "n": n, "expected": rec["out"], "observed": out})
        return
    over = [j for j in range(len(pulls)) if pulls[j] > rec["pulls"][j]]
    if over:
        ctx.violation(key + ":eager", {"args": [a, b, s], "n": n, "spec_pulls": rec["pulls"], "impl_pulls": pulls})
    if src.pulled > rec["endpos"]:
        ctx.violation(key + ":eager-at-end", {"args": [a, b, s], "n": n, "spec_end_pulls": rec["endpos"],
                                              "impl_end_pulls": src.pulled})
    # values kept alive: the |index| it documents (+1 for the value being handed over), at every
    # delivery and at every moment the element pulls
    if max(alive + [peak[0]]) > bound + 1:
        ctx.violation(key + ":held", {"args": [a, b, s], "n": n, "alive_at_deliveries": alive,
                                      "peak_alive_at_pull": peak[0], "bound": bound})
    # the consumer stops after k results: the same prefix, no more pulls than at delivery k, nothing afterwards
    for k, stopkind in stops:
        if k >= len(rec["out"]):
            continue
        src = CountingIter(n, make=Obj)
        gen = lena.flow.Slice(a, b, s).run(src)
        got = [next(gen).i for _ in range(k)]
        lim = rec["pulls"][k - 1] if k else 0
        at_stop = src.pulled
        resumed = False
        if stopkind == "abandon":
            del gen
        else:
            if stopkind == "throw" and hasattr(gen, "throw"):
                try:
                    gen.throw(Boom())
                    resumed = True
                except (Boom, StopIteration):
                    pass
            elif hasattr(gen, "close"):
                gen.close()
            if hasattr(gen, "close") and not resumed:
                try:
                    next(gen)
                    resumed = True
                except StopIteration:
                    pass
        ctx.evaluations += 1
        if got != rec["out"][:k] or at_stop > lim or src.pulled > at_stop or resumed:
            ctx.violation(key + ":stop-at-k" + ("" if stopkind == "close" else ":" + stopkind),
                          {"args": [a, b, s], "n": n, "k": k, "allowed_pulls": lim, "pulled_at_stop": at_stop,
                           "pulled_at_end": src.pulled, "resumed": resumed, "observed": got})


def run(ctx):
    import lena.flow
    tag = "thorough" if ctx.thorough else "quick"
    ctx.assume("the spec machine is the laziest allowed implementation; the code must not pull more at any delivery")
    ctx.assume("pulls after the consumer asks for a result that does not exist are not constrained")
    lock = threading.Lock()
    account = ctx._account

    def locked_account(*a, **kw):
        with lock:
            return account(*a, **kw)
    ctx._account = locked_account
    machine = ("Ask", "StageNeed", "StageHave", "StageEof", "Source", "Deliver")
    ext = "Flow_c02_ext_thorough" if ctx.thorough else "Flow_c02_ext"
    w = max(2, ctx.nworkers // 2)
    with ThreadPoolExecutor(max_workers=12) as pool:
        jobs = {
            "mc": pool.submit(ctx.mc, "Flow", "Flow_c02_%s.cfg" % tag, coverage=True,
                              must_cover=machine + (() if ctx.thorough else ("Stop", "Abort"))),
            "mc_ext": pool.submit(ctx.mc, "Flow", ext + ".cfg", workers=w, coverage=True,
                                  must_cover=machine + ("Stop", "Abort")),
            "live": pool.submit(ctx.mc, "Flow", "Flow_c02_live.cfg"),
            "slice": pool.submit(ctx.mc, "Slice", "Slice_mc.cfg", workers=w),
            "export": pool.submit(ctx.export, "Flow", "Flow_c02_%s_export.cfg" % tag, min_records=500),
            "ext": pool.submit(ctx.export, "Flow", ext + "_export.cfg", min_records=500),
            "sexport": pool.submit(ctx.export, "Slice", "Slice_export.cfg", min_records=1000),
            # the kind of input iterator (__length_hint__ exact / over / under, iter(list)) and release of the input
            "mc_src": pool.submit(ctx.mc, "FlowSrc", "FlowSrc_%s.cfg" % tag, workers=w, coverage=True,
                                  must_cover=("ReadHint",)),
            "srcexport": pool.submit(ctx.export, "FlowSrc", "FlowSrc_%s_export.cfg" % tag, min_records=500),
        }
        for cfg, _ in GUARDS:
            jobs["guard:" + cfg] = pool.submit(ctx.mc, "FlowSrc", cfg, expect_violation="report", workers=2)
        res = {k: j.result() for k, j in jobs.items()}
    # sensitivity guards: an adapter that buffers a sized flow, a Count that drains its input when released
    for cfg, prop in GUARDS:
        g = res["guard:" + cfg]
        if g.violated != prop:
            raise core.MachineryError("the FlowSrc model is insensitive: %s did not refute %s (%s)"
                                      % (cfg, prop, g.violated))
    cpu = {"tlc_wall": round(time.time() - ctx.t0, 1)}
    gc.collect()
    gc.freeze()         # collections during the replays only look at the objects of the replays
    t_cpu = [time.process_time()]

    def lap(name):
        now = time.process_time()
        cpu[name] = round(now - t_cpu[0], 1)
        t_cpu[0] = now
    ctx.extra["phase_cpu_s"] = cpu
    recs = res["export"] + res["ext"]
    try:
        for rec in recs:
            replay(ctx, rec, salt=ctx.seed, all_stops=True)
            if len(rec["prog"]) == 1 and rec["prog"][0]["t"] in DIRECT and rec["n"] != INF and not rec.get("lead"):
                replay_direct(ctx, rec)
            ctx.traces += 1
            if rec["prog"] and rec["n"]:
                ctx.distinct.add(core.canon([rec["prog"], rec["n"], rec.get("lead", 0)]))
    except TooManyTimeouts:
        return ctx.finish(rule="aborted after three non-terminating real runs (reported as violations)")
    lap("pipelines")
    srcrecs = res["srcexport"]
    dims = {}
    try:
        for rec in srcrecs:
            replay(ctx, rec, salt=ctx.seed, light=True)
            ctx.traces += 1
            dims[rec["src"]] = dims.get(rec["src"], 0) + 1
            if rec["released"]:
                dims["released"] = dims.get("released", 0) + 1
            if rec["prog"] and rec["n"]:
                ctx.distinct.add(core.canon([rec["prog"], rec["n"], rec["src"]]))
    except TooManyTimeouts:
        return ctx.finish(rule="aborted after three non-terminating real runs (reported as violations)")
    for d in ("exact", "over", "under", "list", "released"):
        if not dims.get(d):
            raise core.MachineryError("no FlowSrc scenario of kind %s" % d)
    ctx.extra["input_iterator_scenarios"] = dims
    ctx.sample({"spec_behaviour_sized_input": srcrecs[len(srcrecs) // 2]})
    lap("input-kinds")
    ctx.sample({"spec_behaviour": res["export"][len(res["export"]) // 2]})
    ctx.sample({"spec_behaviour_extended_vocabulary": res["ext"][len(res["ext"]) // 2]})
    inf = [r for r in recs if r["n"] == INF and r["exhausted"]]
    ctx.extra["infinite_source_terminating_scenarios"] = len(inf)
    if inf:
        ctx.sample({"spec_behaviour_infinite_source": inf[len(inf) // 2]})
    # negative-index Slice: pull/yield machine of Slice.tla
    srecs = res["sexport"]
    nneg = 0
    for rec in srecs:
        if rec["branch"] != "islice" and (ctx.thorough or (rec["n"] in (0, 3, 7, 10))):
            m = len(rec["out"])
            # every stop point k, by close / drop / throw
            stops = [(k, kind) for k in range(m) for kind in STOPKINDS]
            try:
                replay_negslice(ctx, rec, lena, stops)
            except Exception as exc:    # noqa  (the real Slice raised)
                ctx.violation("negslice:branch=%s:raised:%s" % (rec["branch"], exc_name(exc)),
                              {"args": [rec["a"], rec["b"], rec["s"]], "n": rec["n"]})
            nneg += 1
            ctx.traces += 1
            ctx.distinct.add(core.canon(["neg", rec["a"], rec["b"], rec["s"], rec["n"]]))
    ctx.extra["negative_slice_scenarios"] = nneg
    lap("negslice")
    # ---- code -> spec: random streaming pipelines with recorded pull vectors
    rnd = random.Random(ctx.seed)
    alphabet = ["map", "map", "filter", "slice", "lagk", "count", "runif", "split", "lagslice", "nodata", "print", "splitx"]
    trace = []
    ntr = 1200 if ctx.thorough else 250

    def random_prog(maxlen, small_blocks=False):
        prog = [fl.random_stage(rnd, alphabet) for _ in range(rnd.randint(1, maxlen))]
        for st in prog:
            if st["t"] == "split":
                st["brs"] = [b for b in st["brs"] if b["t"] not in ("sum", "fcsum")] or [{"t": "map", "f": "inc"}]
                if small_blocks and (st["bs"] == fl.NONE or st["bs"] > 4):
                    st["bs"] = 3
        return prog
    attempts = 0
    while len(trace) < ntr and attempts < 2 * ntr:
        attempts += 1
        prog = random_prog(6)
        n = rnd.randint(0, 12)
        r = observe(prog, n, 10 ** 6, as_source=rnd.random() < 0.3, nested=rnd.random() < 0.3,
                    first=rnd.choice(["callable", "iterable"]))
        if r.get("timeout"):
            ctx.violation("no-termination:%s" % kinds(prog), {"prog": prog, "n": n})
            break
        if r.get("raised"):
            ctx.violation("random-run:raised:%s" % r["raised"], {"prog": prog, "n": n})
            continue
        trace.append({"prog": prog, "n": n, "pairs": True, "out": r["out"], "pulls": r["pulls"], "lazy": True,
                      "alive": -1})
    # long flows: the input values alive at any pull or delivery stay within what the elements document
    nlong = 150 if ctx.thorough else 40
    for _ in range(nlong):
        prog = random_prog(4, small_blocks=True)
        n = 40
        r = observe(prog, n, 10 ** 6, as_source=rnd.random() < 0.3, nested=rnd.random() < 0.3)
        if r.get("timeout") or r.get("raised"):
            ctx.violation("random-run:long:%s" % (r.get("raised") or "timeout"), {"prog": prog, "n": n})
            continue
        trace.append({"prog": prog, "n": n, "pairs": True, "out": r["out"], "pulls": [], "lazy": False,
                      "alive": r["alive"]})
    lap("random")
    acc = ctx.validate("Trace_Flow", "Trace_Flow.cfg", trace) if trace else 0
    ctx.traces += acc
    ctx.evaluations += len(trace)
    for r in trace[:acc]:
        ctx.distinct.add(core.canon(r))
    if acc < len(trace):
        r = trace[acc]
        ctx.violation("Trace_Flow:rejected:%s%s" % (kinds(r["prog"]), ":alive" if r["alive"] >= 0 else ""),
                      {"record": r, "index": acc})
    if trace:
        ctx.sample({"recorded_trace_record": trace[min(5, len(trace) - 1)]})
        ctx.sample({"recorded_trace_record_liveness": trace[-1]})
    if trace and acc == len(trace) and not ctx.violations:
        bad = [dict(r) for r in trace[:40]]
        k = next(i for i, r in enumerate(bad) if r["pulls"] and r["pulls"][0] < r["n"])
        bad[k] = dict(bad[k], pulls=[p + 1 for p in bad[k]["pulls"]])
        acc2 = ctx.validate("Trace_Flow", "Trace_Flow.cfg", bad, label="corrupt")
        if acc2 != k:
            raise core.MachineryError("Trace_Flow does not bind pulls: corrupted %d accepted %d" % (k, acc2))
        ctx.extra["binding_demo"] = "record %d with every pull count increased by one is rejected at index %d" % (k, acc2)
        long_ = [dict(r) for r in trace if r["alive"] >= 0][:10]
        if long_:
            long_[-1] = dict(long_[-1], alive=10 * long_[-1]["n"])
            acc3 = ctx.validate("Trace_Flow", "Trace_Flow.cfg", long_, label="corrupt_alive")
            if acc3 != len(long_) - 1:
                raise core.MachineryError("Trace_Flow does not bind liveness: corrupted %d accepted %d" % (len(long_) - 1, acc3))
            ctx.extra["binding_demo_liveness"] = ("record %d claiming %d input values alive at once is rejected "
                                                 "at index %d" % (len(long_) - 1, long_[-1]["alive"], acc3))
    gc.unfreeze()
    return ctx.finish(
        rule="S2C: all streaming programs of the bounded models (vocabulary and extended vocabulary: Print, elements "
             "without data, negative Slices, Split empty / nested / bufsize None, 1, 1000) x finite/infinite sources, "
             "each as Sequence, Source tail (callable and iterator first element) and nested, plus every consumer stop "
             "point k by close / drop+gc / throw; the programs of FlowSrc.tla on every kind of input iterator "
             "(__length_hint__ exact / too large / too small, iter(list)) with the input observed after release; negative-index Slice scenarios of "
             "Slice.tla with pull counts, stop points and weak-reference liveness; C2S: random pipelines with pull "
             "vectors, long flows with liveness",
        exhaustive=True)
