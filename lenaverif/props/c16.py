"""C16  FillRequest processes the flow in consecutive blocks, however it is driven.

spec/RunSem.tla        declarative meaning: RunSem (blocks), fill/request as state transformers,
                       Split and FillRequestSeq around the adapter
spec/FillRequest.tla   machine with the two drivers (free fill/request schedules; run), invariants
                       Accounted, ConcatEqRun, AfterRequest, OneBlock, Terminates, RunIsBlocks, ...;
                       Variant "legacy" = fill/request of the pinned tree, which TLC must reject
spec/Trace_FillRequest.tla  validation of recorded behaviour beyond the exhaustive bounds

Every real call runs under the step watchdog of filllib.guarded, so the check terminates even
where the code under test does not.
"""
import random

from .. import core
from .. import filllib as fl
from ..util import exc_name

NONE = fl.NONE
SKIP_AFTER = 12     # failing scenarios per (component, configuration class) before the class is skipped


class Agg(object):
    """Collects failing scenarios; reports the smallest one per (component, mismatch, class)."""

    def __init__(self, ctx):
        self.ctx = ctx
        self.fails = {}
        self.per_class = {}
        self.skipped = 0

    def skip(self, comp, cfg):
        if self.per_class.get((comp, fl.cfg_class(cfg)), 0) >= SKIP_AFTER:
            self.skipped += 1
            return True
        return False

    def fail(self, comp, call, mismatch, cfg, sched, detail):
        cls = fl.cfg_class(cfg)
        self.per_class[(comp, cls)] = self.per_class.get((comp, cls), 0) + 1
        size = (len(sched), cfg["n"], cfg["m"], sched)
        # signature: component, call, kind of mismatch, buffer mode (+ reset); the element kind and
        # yield_on_remainder of the smallest failing scenario are in the detail
        k = (comp, call, mismatch, key_class(cfg, call))
        if k not in self.fails or size < self.fails[k][0]:
            self.fails[k] = (size, dict(detail, cfg=cfg, scenario=sched))

    def report(self):
        for (comp, call, mismatch, cls), (size, detail) in sorted(self.fails.items()):
            self.ctx.violation("%s.%s:%s:%s:n=%d:m=%d:%s" % (comp, call, mismatch, cls, size[1], size[2], size[3]),
                               detail)
        if self.skipped:
            self.ctx.extra["scenarios_skipped_after_repeated_failure"] = self.skipped


def key_class(cfg, call="run"):
    return (("bufin" if cfg["bufIn"] else "bufout") + (":reset" if cfg["reset"] else "") +
            (":yor" if cfg["yor"] and call == "run" else "") + (":lazy-element" if cfg.get("take") else ""))


class NoAgg(object):
    def skip(self, comp, cfg):
        return False

    def fail(self, *args):
        pass


def steps(k):
    return 3000 + 150 * k


def in_order(log, k, vm=None):
    if vm is None:
        return len(log) <= k and log == list(range(len(log)))
    return len(log) <= k and repr(log) == repr([vm(i) for i in range(len(log))])


# ------------------------------------------------------------------ fill / request schedules
def make_target(cfg, variant):
    """(object with fill/request, content element or None, projection of spec results)."""
    import lena.core
    import lena.flow
    import lena.math
    if variant == "content":
        fr, el = fl.build_fr(cfg)
        return fr, el, lambda res: res, fl.norm
    if variant == "aslist":
        fr, el = fl.build_fr(cfg, aslist=True, neither=True)
        return fr, el, lambda res: res, fl.norm
    if variant == "ret":
        # the element hands out its results in a container of kind cfg.ret (a list of its own that it keeps
        # mutating, an iterator over it, a tuple, a fresh list that it empties at its next reset)
        fr, el = fl.build_fr(cfg, el=fl.RET_KINDS[cfg["kind"]](cfg["m"], cfg["ret"]))
        return fr, el, lambda res: res, fl.norm
    if variant == "seq":
        fr, el = fl.build_fr(cfg)
        seq = lena.core.FillRequestSeq(fl.ident, fr, fl.Post(), bufsize=2, reset=False, buffer_input=True)
        return seq, el, lambda res: res, fl.unpost
    if variant == "nothing":
        # the flow values are None, 0, "", {}, [], False, (0, {}), 0.0, (); compared by repr
        fr, el = fl.build_fr(cfg)
        return fr, el, None, lambda v: repr(fl.norm(v))      # expected results are mapped in _drive (rotation)
    if variant == "falsyres":
        # the results of the wrapped element are such objects
        fr, el = fl.build_fr(cfg, el=fl.EFalsyResults(cfg["m"]))
        return fr, el, lambda res: [repr(fl.nothing(r["i"] + len(r["p"]) + 7)) for r in res], repr
    if variant == "sum":
        fr, _ = fl.build_fr(cfg, el=lena.math.Sum())
        return fr, None, lambda res: [sum(r["p"]) for r in res], lambda v: v
    if variant == "store":
        fr, _ = fl.build_fr(cfg, el=lena.flow.StoreFilled())
        return fr, None, lambda res: [r["p"] for r in res], lambda v: v
    if variant == "store1":
        fr, _ = fl.build_fr(cfg, el=lena.flow.StoreFilled(yield_as_a_group=False))
        return fr, None, lambda res: [v for r in res for v in r["p"]], lambda v: v
    raise ValueError(variant)


COMP = {"nothing": "FillRequest(falsy-values)", "falsyres": "FillRequest(falsy-results)",
        "content": "FillRequest", "aslist": "FillRequest", "seq": "FillRequestSeq", "sum": "FillRequest(Sum)",
        "store": "FillRequest(StoreFilled)", "store1": "FillRequest(StoreFilled)"}


def firsts(res):
    """Contents carried by the first result of every element request, concatenated."""
    out = []
    for r in res:
        if isinstance(r, dict) and r.get("i") == 1:
            out += r["p"]
    return out


def _drive(guard, comp, agg, cfg, h, variant, record, obj, el, proj, nrm):
    kreq = 0
    # the odd values are rotated from schedule to schedule: every one of them occurs at every position
    rot = sum(ord(c) for c in "".join(o["op"] for o in h)) + cfg["n"] + 2 * cfg["bufIn"] + 4 * cfg["reset"]
    vm = (lambda i: fl.nothing(i + rot)) if variant == "nothing" else None
    k = 0
    seen = 0
    sched = ""
    for op in h:
        sched += op["op"]
        if op["op"] == "f":
            st, val = guard.call(lambda: obj.fill(k if vm is None else vm(k)), steps(k))
            call = "fill"
            k += 1
        else:
            st, val = guard.call(lambda: [nrm(x) for x in obj.request()], steps(k))
            call = "request"
        if st == "hang":
            if record is not None:
                record.append({"e": "hang", "at": call})
            agg.fail(comp, call, "nonterminating", cfg, sched, {"variant": variant})
            return False
        if st == "exc":
            if record is not None:
                record.append({"e": "raised", "at": call, "exc": exc_name(val)})
            agg.fail(comp, call, "raised:" + exc_name(val), cfg, sched, {"variant": variant, "exception": repr(val)})
            return False
        log = []
        if el is not None:
            log = el.fill_log[seen:]
            seen = len(el.fill_log)
        if record is not None:
            record.append({"e": "f", "log": log} if call == "fill" else {"e": "r", "res": val, "log": log})
            continue
        # every value reaches the element at most once, in order (all of them after a request with
        # yield_on_remainder)
        if el is not None and (not in_order(el.fill_log, k, vm) or
                               (call == "request" and cfg["yor"] and len(el.fill_log) != k)):
            agg.fail(comp, call, "accounted", cfg, sched, {"variant": variant, "element_fill_log": el.fill_log,
                                                           "values_filled": k})
            return False
        if call == "request" and cfg["yor"] and cfg["reset"] and cfg["m"] in (1, 2, 3) and vm is None and \
                variant in ("content", "aslist", "seq"):
            # every value filled since the last request is in exactly one yielded result
            got = firsts(val)
            if got != list(range(kreq, k)):
                agg.fail(comp, call, "accounted-in-results", cfg, sched,
                         {"variant": variant, "values_since_last_request": list(range(kreq, k)), "in_results": got})
                return False
        if call == "request":
            kreq = k
        if call == "request" and not cfg["yor"]:
            exp = proj(op["res"]) if vm is None else \
                [repr({"i": r["i"], "p": [vm(x) for x in r["p"]]}) for r in op["res"]]
            if val != exp:
                agg.fail(comp, call, "results", cfg, sched, {"variant": variant, "expected": exp, "observed": val})
                return False
    return True


def replay_schedule(ctx, agg, cfg, h, variant, record=None):
    """Drive the real adapter along the schedule h = [{op, res}...]; compare after every call.

    record: list to which trace events are appended (C2S)."""
    comp = COMP[variant] if variant != "ret" else "FillRequest(results-as-%s)" % cfg["ret"]
    if record is not None:
        agg = NoAgg()        # failures of recorded scenarios are reported through the trace spec
    if agg.skip(comp, cfg):
        return None
    try:
        obj, el, proj, nrm = make_target(cfg, variant)
    except Exception as exc:   # noqa
        agg.fail(comp, "init", "raised:" + exc_name(exc), cfg, "", {"exception": repr(exc)})
        return False
    if record is not None:
        record.append({"e": "new", "cfg": cfg})
    with fl.Guard() as guard:
        return _drive(guard, comp, agg, cfg, h, variant, record, obj, el, proj, nrm)


def variants_for(cfg, thorough):
    if cfg.get("ret", "gen") != "gen":
        return ["ret"]
    vs = ["content"]
    if cfg["kind"] == "fr" and (cfg["m"] == 1 or thorough) or (cfg["kind"] == "fc" and thorough):
        vs.append("seq")
    if cfg["kind"] == "fr" and (cfg["m"] == 2 or thorough):
        vs.append("aslist")
    if cfg["kind"] == "fc" and cfg["m"] == 1:
        vs += ["sum", "store", "store1"]
    if (cfg["kind"] == "fr" and cfg["m"] == 2) or (cfg["kind"] in ("fc", "frc") and cfg["m"] == 1) or \
            (thorough and cfg["m"] in (1, 2) and cfg["kind"] in ("fr", "fc", "frc")):
        vs.append("nothing")
    if cfg["kind"] == "fr" and (cfg["m"] == 1 or (thorough and cfg["m"] in (1, 2))):
        vs.append("falsyres")
    return vs


# ------------------------------------------------------------------ whole runs
def odd_values(k):
    """None and one more odd value (chosen by k) for a run with an odd value at one position."""
    others = [x for x in fl.NOTHINGS if x is not None]
    return [None, others[k % len(others)]]


def run_with_odd(make, n_values, pos, value, project=None):
    """Run over 0..N-1 with *value* at position *pos*; results as repr strings."""
    def go():
        obj = make()
        flow = iter([value if i == pos else i for i in range(n_values)])
        return [repr(fl.norm(x) if project is None else project(x)) for x in obj.run(flow)]
    return fl.guarded(go, 6000 + 600 * n_values)


def odd_expected(out, pos, value):
    return [repr({"i": r["i"], "p": [value if x == pos else x for x in r["p"]]}) for r in out]


def flow_of(n_values, src="iter"):
    return {"iter": lambda: iter(range(n_values)), "list": lambda: list(range(n_values)),
            "tuple": lambda: tuple(range(n_values))}[src]()


def run_whole(make, n_values, project, src="iter"):
    """make() -> object with run; returns (status, value)."""
    def go():
        obj = make()
        return [project(x) for x in obj.run(flow_of(n_values, src))]
    return fl.guarded(go, 6000 + 600 * n_values)


def check_whole(agg, comp, call, cfg, label, st, val, expected, compare=True, extra=None):
    d = dict(extra or {})
    if st == "hang":
        agg.fail(comp, call, "nonterminating", cfg, label, d)
        return False
    if st == "exc":
        agg.fail(comp, call, "raised:" + exc_name(val), cfg, label, dict(d, exception=repr(val)))
        return False
    if compare and val != expected:
        agg.fail(comp, call, "results", cfg, label, dict(d, expected=expected, observed=val))
        return False
    return True


def mark_value(v):
    return ("MARK", v)


def norm_or_mark(v):
    if isinstance(v, tuple) and len(v) == 2 and v[0] == "MARK":
        return {"mark": v[1]}
    return fl.norm(v)


def split_object(cfg, bs, form, holder):
    import lena.core
    fr, el = fl.build_fr(cfg)
    holder.append(el)
    branch = fr if form == "bare" else (fl.ident, fr, fl.Post())
    return lena.core.Split([branch], bufsize=None if bs == NONE else bs)


def seq_object(cfg, n2, oyor, form, holder):
    import lena.core
    fr, el = fl.build_fr(cfg)
    holder.append(el)
    kw = dict(bufsize=n2, reset=False, buffer_input=True, yield_on_remainder=oyor)
    if form == "bare":
        return lena.core.FillRequestSeq(fr, **kw)
    if form == "tuple":
        return lena.core.FillRequestSeq(fl.ident, fr, fl.Post(), **kw)
    if form == "onetuple":
        # a single tuple argument is expanded
        return lena.core.FillRequestSeq((fl.ident, fr, fl.Post()), **kw)
    if form == "twofr":
        # of several FillRequest elements the first is filled, later ones are used as Run elements
        second = lena.core.FillRequest(PostRun(), bufsize=1, buffer_input=True)
        return lena.core.FillRequestSeq(fr, second, **kw)
    raise ValueError(form)


class PostRun(object):
    """Run element that marks each value once (the post-processing of fl.Post as a run method)."""

    def run(self, flow):
        for v in flow:
            yield ("post", v)


def replay_run(ctx, agg, rec, thorough):
    import lena.core
    import lena.math
    cfg, n_values, src = rec["cfg"], rec["N"], rec.get("src", "iter")
    ok = True
    pos = rec.get("odd", -1)
    if pos >= 0:
        # an odd value (None, 0, "", (), [], False, StopIteration, nan, ...) at one position of the flow
        import lena.core
        for value in odd_values(rec.get("_k", 0) + pos):
            name = "FillRequest(odd-value)"
            if agg.skip(name, cfg):
                continue
            label = "N=%d:%s-at-%d" % (n_values, "nan" if value != value else repr(value), pos)
            st, val = run_with_odd(lambda: fl.build_fr(cfg)[0], n_values, pos, value)
            ok &= check_whole(agg, name, "run", cfg, label, st, val, odd_expected(rec["out"], pos, value))
            ctx.case(["run-odd", cfg, n_values, pos, repr(value)])
            if cfg["kind"] in ("fc", "fr", "frc") and not cfg["yor"]:
                bs = cfg["n"] + 1
                st, val = run_with_odd(lambda: lena.core.Split([fl.build_fr(cfg)[0]], bufsize=bs), n_values, pos, value)
                ok &= check_whole(agg, "Split[odd-value]", "run", cfg, label + ":bs=%d" % bs, st, val,
                                  odd_expected(rec["out"], pos, value))
                ctx.case(["split-odd", cfg, n_values, pos, repr(value)])
        return ok
    tag = "N=%d" % n_values + ("" if src == "iter" else ":flow-is-a-" + src)
    # FillRequest.run
    if not agg.skip("FillRequest", cfg):
        st, val = run_whole(lambda: fl.build_fr(cfg)[0], n_values, fl.norm, src)
        ok &= check_whole(agg, "FillRequest", "run", cfg, tag, st, val, rec["out"])
        ctx.case(["run", cfg, n_values, src], nontrivial=n_values > 0)
        if cfg["kind"] == "fc" and cfg["m"] == 1:
            st, val = run_whole(lambda: fl.build_fr(cfg, el=lena.math.Sum())[0], n_values, lambda v: v, src)
            ok &= check_whole(agg, "FillRequest(Sum)", "run", cfg, tag, st, val,
                              [sum(r["p"]) for r in rec["out"]])
            ctx.case(["run-sum", cfg, n_values, src], nontrivial=n_values > 0)
    if src != "iter":
        return ok
    if not agg.skip("FillRequest", cfg):
        if cfg["kind"] == "run" and not cfg["pv"] and cfg["m"] == 1 and not cfg["take"]:
            # lena.core.Run(fill/compute element) as the wrapped run element
            def make():
                c2 = dict(cfg, reset=False)
                el = fl.EFC(cfg["m"])
                wrapped = lena.core.Run(el)
                if cfg["reset"]:
                    wrapped.reset = el.reset
                    c2["reset"] = True
                return fl.build_fr(c2, el=wrapped)[0]
            st, val = run_whole(make, n_values, fl.norm)
            ok &= check_whole(agg, "FillRequest(Run)", "run", cfg, "N=%d" % n_values, st, val, rec["out"])
            ctx.case(["run-Run", cfg, n_values], nontrivial=n_values > 0)
    # Split around the adapter, FillRequestSeq
    for sp in rec["split"]:
        bs = sp["bs"]
        for form in ("bare", "tuple"):
            if form == "tuple" and bs == NONE:
                continue      # Split(bufsize=None) cannot build a FillRequestSeq (int(None)); not part of the statement
            if agg.skip("Split[%s]" % form, cfg):
                continue
            holder = []
            st, val = run_whole(lambda: split_object(cfg, bs, form, holder), n_values,
                                fl.norm if form == "bare" else fl.unpost)
            label = "N=%d:bs=%s" % (n_values, "None" if bs == NONE else bs)
            good = check_whole(agg, "Split[%s]" % form, "run", cfg, label, st, val, sp["out"], compare=not cfg["yor"])
            if good and holder and not in_order(holder[0].fill_log, n_values):
                agg.fail("Split[%s]" % form, "run", "accounted", cfg, label, {"element_fill_log": holder[0].fill_log})
                good = False
            if good and cfg["yor"] and cfg["reset"] and cfg["m"] in (1, 2, 3) and firsts(val) != list(range(n_values)):
                agg.fail("Split[%s]" % form, "run", "accounted-in-results", cfg, label, {"in_results": firsts(val)})
                good = False
            if good and cfg["yor"] and holder and len(holder[0].fill_log) != n_values:
                agg.fail("Split[%s]" % form, "run", "accounted", cfg, label, {"element_fill_log": holder[0].fill_log})
                good = False
            ok &= good
            ctx.case(["split", form, cfg, n_values, bs], nontrivial=n_values > 0)
        # results must appear buffer by buffer: a second branch marks every value of the buffer just processed
        if not cfg["yor"] and "per" in sp and (n_values + (0 if bs == NONE else bs)) % 2 == 0 and \
                not agg.skip("Split[two-branches]", cfg):
            blocks = [list(range(n_values))] if bs == NONE else \
                [list(range(a, min(a + bs, n_values))) for a in range(0, n_values, bs)]
            expected = []
            for j, res in enumerate(sp["per"]):
                expected += res
                if n_values:
                    expected += [{"mark": v} for v in blocks[j]]
            st, val = run_whole(lambda: lena.core.Split([fl.build_fr(cfg)[0], mark_value],
                                                        bufsize=None if bs == NONE else bs), n_values, norm_or_mark)
            label = "N=%d:bs=%s" % (n_values, "None" if bs == NONE else bs)
            ok &= check_whole(agg, "Split[two-branches]", "run", cfg, label, st, val, expected)
            ctx.case(["split2", cfg, n_values, bs], nontrivial=n_values > 0)
    if not cfg["yor"]:
        for j, sq in enumerate(rec["seq"]):
            for form in ("bare", "tuple", ("onetuple", "twofr", "twofr")[(j + n_values) % 3]):
                if agg.skip("FillRequestSeq[%s]" % form, cfg):
                    continue
                holder = []
                st, val = run_whole(lambda: seq_object(cfg, sq["n2"], sq["oyor"], form, holder), n_values,
                                    fl.norm if form == "bare" else fl.unpost)
                label = "N=%d:bufsize=%d%s" % (n_values, sq["n2"], ":yor" if sq["oyor"] else "")
                ok &= check_whole(agg, "FillRequestSeq[%s]" % form, "run", cfg, label, st, val, sq["out"])
                ctx.case(["seq", form, cfg, n_values, sq["n2"], sq["oyor"]], nontrivial=n_values > 0)
    return ok


# ------------------------------------------------------------------ construction rules
def misc(ctx):
    import lena.core
    from lena.core import FillRequest, LenaTypeError, LenaValueError

    def expect(label, exc, fn):
        ctx.case(["init", label])
        try:
            fn()
        except exc:
            return
        except Exception as e:   # noqa
            ctx.violation("FillRequest.init:%s:raised:%s" % (label, exc_name(e)), {"exception": repr(e)})
            return
        ctx.violation("FillRequest.init:%s:accepted" % label, {})

    # one and only one of buffer_input / buffer_output (unless yield_on_remainder)
    expect("no-buffer", LenaValueError, lambda: FillRequest(fl.EFR(), reset=True))
    expect("both-buffers", LenaValueError, lambda: FillRequest(fl.EFR(), reset=True, buffer_input=True,
                                                               buffer_output=True))
    # bufsize must be a natural number
    for bad in (0, -1, 1.5):
        expect("bufsize=%r" % (bad,), LenaValueError,
               lambda: FillRequest(fl.EFR(), bufsize=bad, reset=True, buffer_input=True))
    # reset must be set explicitly for an element with fill; reset=True needs a reset method
    expect("reset-unset", LenaTypeError, lambda: FillRequest(fl.EFR(), buffer_input=True))

    class NoReset(object):
        def fill(self, v):
            pass

        def request(self):
            return []
    expect("reset-missing", LenaTypeError, lambda: FillRequest(NoReset(), reset=True, buffer_input=True))
    expect("no-methods", LenaTypeError, lambda: FillRequest(object(), reset=False, buffer_input=True))
    # a data attribute named reset is not a reset method
    class ResetAttr(NoReset):
        reset = "2023A"
    expect("reset-is-data", LenaTypeError, lambda: FillRequest(ResetAttr(), reset=True, buffer_input=True))
    try:
        ctx.case(["init", "no-reset-method"])
        if FillRequest(NoReset(), reset=False, buffer_input=True).reset is not None or \
                FillRequest(ResetAttr(), reset=False, buffer_input=True).reset is not None:
            ctx.violation("FillRequest.init:reset-method-not-disabled", {})
        # an integral float is a block size
        ctx.case(["init", "bufsize=2.0"])
        got = [fl.norm(v) for v in FillRequest(fl.EFR(1), bufsize=2.0, reset=True, buffer_input=True).run(iter(range(5)))]
        if got != [{"i": 1, "p": [0, 1]}, {"i": 1, "p": [2, 3]}]:
            ctx.violation("FillRequest.init:bufsize=2.0:results", {"observed": got})
        # FillRequestSeq.reset resets its FillRequest element (the wrapped element)
        ctx.case(["FillRequestSeq.reset"])
        el = fl.EFR(1)
        seq = lena.core.FillRequestSeq(FillRequest(el, bufsize=2, reset=False, buffer_input=True),
                                       bufsize=2, reset=False, buffer_input=True)
        seq.fill(1)
        seq.reset()
        if el.content or el.resets != 1:
            ctx.violation("FillRequestSeq.reset:element-not-reset", {"content": el.content, "resets": el.resets})
    except Exception as e:   # noqa
        ctx.violation("FillRequest.misc:raised:" + exc_name(e), {"exception": repr(e)})
    # a run-only element gives an adapter without fill and request
    try:
        fr = FillRequest(fl.ERun(), buffer_input=True)
        ctx.case(["init", "run-only"])
        if fr.fill is not None or fr.request is not None:
            ctx.violation("FillRequest.init:run-only:has-fill-or-request", {})
    except Exception as e:   # noqa
        ctx.violation("FillRequest.init:run-only:raised:" + exc_name(e), {"exception": repr(e)})


# ------------------------------------------------------------------ random scenarios (C2S)
def random_cfg(rnd, kinds):
    return {"n": rnd.choice([1, 2, 3, 4, 5, 6, 8]), "bufIn": rnd.random() < 0.5, "reset": rnd.random() < 0.5,
            "yor": rnd.random() < 0.25, "kind": rnd.choice(kinds), "m": rnd.choice([0, 1, 1, 2, 3, 9]), "pv": False,
            "take": 0}


def record_random(ctx, agg, rnd, count):
    import lena.core
    trace = []
    spans = []      # (first index, last index + 1) of every scenario in trace
    for j in range(count):
        start = len(trace)
        what = rnd.choice(["sched", "sched", "sched", "run", "split", "seq"])
        if what == "sched":
            cfg = random_cfg(rnd, ["fc", "fr", "both", "frc"])
            p = rnd.choice([0.1, 0.25, 0.5])
            h = [{"op": "r" if rnd.random() < p else "f"} for _ in range(rnd.randint(1, 40))]
            replay_schedule(ctx, agg, cfg, h, rnd.choice(["content", "content", "aslist"]), record=trace)
        elif what == "run":
            cfg = random_cfg(rnd, ["fc", "fr", "both", "run", "frc"])
            cfg["pv"] = cfg["kind"] == "run" and rnd.random() < 0.5
            if cfg["kind"] == "run" and cfg["n"] > 1 and rnd.random() < 0.4:
                cfg["take"] = rnd.randint(1, cfg["n"] - 1)
            n_values = rnd.randint(0, 40)
            src = rnd.choice(["iter", "iter", "list", "tuple"])
            st, val = run_whole(lambda: fl.build_fr(cfg)[0], n_values, fl.norm, src)
            trace.append({"e": "run", "cfg": cfg, "N": n_values, "out": val, "src": src} if st == "ok" else
                         {"e": st, "at": "run", "cfg": cfg, "N": n_values, "src": src})
        elif what == "split":
            cfg = random_cfg(rnd, ["fc", "fr", "frc"])
            n_values = rnd.randint(0, 40)
            bs = rnd.choice([1, 2, 3, 4, 5, 6, 7, 9, 12, 1000, NONE])
            holder = []
            st, val = run_whole(lambda: split_object(cfg, bs, "bare", holder), n_values, fl.norm)
            trace.append({"e": "split", "cfg": cfg, "N": n_values, "bs": bs, "out": val,
                          "nf": len(holder[0].fill_log) if in_order(holder[0].fill_log, n_values) else -1}
                         if st == "ok" else {"e": st, "at": "split", "cfg": cfg, "N": n_values, "bs": bs})
        else:
            cfg = random_cfg(rnd, ["fc", "fr"])
            cfg["yor"] = False
            n_values = rnd.randint(0, 40)
            n2, oyor = rnd.randint(1, 9), rnd.random() < 0.3
            st, val = run_whole(lambda: seq_object(cfg, n2, oyor, "bare", []), n_values, fl.norm)
            trace.append({"e": "seq", "cfg": cfg, "N": n_values, "n2": n2, "oyor": oyor, "out": val}
                         if st == "ok" else {"e": st, "at": "seq", "cfg": cfg, "N": n_values, "n2": n2})
        spans.append((start, len(trace)))
    return trace, spans


def trace_key(trace, spans):
    def key(r):
        # signature of the scenario that contains the rejected record
        idx = next(i for i, x in enumerate(trace) if x is r)
        a, b = next(sp for sp in spans if sp[0] <= idx < sp[1])
        cfg = trace[a].get("cfg")
        mode = key_class(cfg, "run" if trace[a].get("e") == "run" else "") if cfg else ""
        what = {"new": "fill/request", "f": "fill/request", "r": "fill/request"}.get(trace[a].get("e"), r.get("at", r.get("e")))
        return "%s:%s:%s" % (what, r.get("e"), mode)
    return key


def mc_and_export(ctx, module, cfg, must_cover):
    res = core.run_tlc(module, cfg, ctx.workdir, workers=1, coverage=False, timeout=3000)
    ctx._account("mc+export", module, cfg, res)
    if res.exit != 0:
        raise core.MachineryError("TLC %s/%s failed (exit %s, violated %s):\n%s" % (
            module, cfg, res.exit, res.violated, res.out[-3000:]))
    return res.records


_THOROUGH = False


def _replay_chunk(recs):
    """Worker: replay a share of the exported behaviours; returns counts and failures."""
    col = fl.Collector()
    agg = Agg(None)
    for rec in recs:
        if rec["t"] == "fr":
            cfg = rec["cfg"]
            for variant in variants_for(cfg, _THOROUGH):
                if replay_schedule(col, agg, cfg, rec["h"], variant) is not None:
                    col.case(["sched", variant, cfg, fl.sched_str(rec["h"])],
                             nontrivial=any(o["op"] == "f" for o in rec["h"]))
        else:
            replay_run(col, agg, rec, _THOROUGH)
    return col.counts(), agg.fails, agg.per_class, agg.skipped


def run(ctx):
    ctx.assume("the wrapped element is a harness element whose results carry a snapshot of its content "
               "(lena.math.Sum, lena.flow.StoreFilled and lena.core.Run are driven as projections); "
               "flow values are 0, 1, 2, ... in the order delivered")
    ctx.assume("with yield_on_remainder the statement fixes the results of run only; for fill/request it "
               "fixes termination and that every value reaches the element exactly once")
    actions = ("FillPlain", "FillBufferIn", "FillBufferOut", "Request", "RunBlock", "RunRemainder", "RunEnd")
    # per-action census (vacuity guard) on a small configuration; TLC's -coverage is too expensive for the large ones
    fl.census(ctx, "FillRequest", "FillRequest_cover.cfg", actions)
    if ctx.thorough:
        ctx.mc("FillRequest", "FillRequest_thorough.cfg")
        recs = ctx.export("FillRequest", "FillRequest_thorough_export.cfg", min_records=1000)
    else:
        # one TLC run (one worker, because of the export) checks the invariants and prints the behaviours
        recs = mc_and_export(ctx, "FillRequest", "FillRequest_quick.cfg", actions)
    # the invariants must reject the transcription of the pinned fill/request (vacuity guard)
    leg = ctx.mc("FillRequest", "FillRequest_legacy.cfg", expect_violation="report")
    if leg.violated is None:
        raise core.MachineryError("the invariants of FillRequest.tla accept the legacy variant")
    ctx.extra["legacy_variant_rejected_by"] = leg.violated
    # ... and an output buffer that keeps the element's own list instead of its values
    noc = ctx.mc("FillRequest", "FillRequest_nocopy.cfg", expect_violation="report")
    if noc.violated not in ("ConcatEqRun", "RetIndependent"):
        raise core.MachineryError("FillRequest.tla does not reject the nocopy variant (violated: %s)" % noc.violated)
    ctx.extra["nocopy_variant_rejected_by"] = noc.violated

    agg = Agg(ctx)
    nfree = sum(1 for rec in recs if rec["t"] == "fr")
    nrun = len(recs) - nfree
    if nfree < 500 or nrun < 200:
        raise core.MachineryError("export too small: %d schedules, %d runs" % (nfree, nrun))
    ctx.sample({"spec_behaviour_fill_request": next(r for r in recs[len(recs) // 3:] if r["t"] == "fr")})
    ctx.sample({"spec_behaviour_run": next(r for r in recs[len(recs) // 3:] if r["t"] == "run" and r["split"])})
    global _THOROUGH
    _THOROUGH = ctx.thorough
    for j, rec in enumerate(recs):
        rec["_k"] = j
    for counts, fails, per_class, skipped in fl.parallel_map(_replay_chunk, recs, fl.nprocs(ctx.thorough)):
        fl.merge_counts(ctx, counts)
        for k, v in fails.items():
            if k not in agg.fails or v[0] < agg.fails[k][0]:
                agg.fails[k] = v
        for k, v in per_class.items():
            agg.per_class[k] = agg.per_class.get(k, 0) + v
        agg.skipped += skipped
    misc(ctx)

    # ---- code -> spec
    rnd = random.Random(ctx.seed)
    trace, spans = record_random(ctx, agg, rnd, 3000 if ctx.thorough else 500)
    rounds = 0
    work = list(trace)
    wspans = list(spans)
    first_ok = None
    while work and rounds < 4:
        rounds += 1
        acc = ctx.trace_check("Trace_FillRequest", "Trace_FillRequest.cfg", work, trace_key(work, wspans),
                              sample_at=min(5, len(work) - 1))
        if acc >= len(work):
            if first_ok is None:
                first_ok = work
            break
        # drop the scenario that contains the rejected record and validate the rest
        a, b = next(sp for sp in wspans if sp[0] <= acc < sp[1])
        work = work[:a] + work[b:]
        wspans = [(x, y) if y <= a else (x - (b - a), y - (b - a)) for (x, y) in wspans if (x, y) != (a, b)]
    def corrupt(r):
        if r.get("e") == "r" and r["res"]:
            return dict(r, res=r["res"][:-1])
        return None
    demo = None
    if first_ok is not None:
        for a, b in wspans:
            if any(corrupt(r) is not None for r in first_ok[a:b]) and not first_ok[a]["cfg"]["yor"]:
                demo = first_ok[a:b]
                break
    if demo is None:
        # no fully accepted recorded scenario (defective tree): demonstrate the binding on the events of an
        # exported behaviour
        for rec in recs:
            if rec["t"] == "fr" and not rec["cfg"]["yor"] and any(o["res"] for o in rec["h"]):
                demo, nf = [{"e": "new", "cfg": rec["cfg"]}], 0
                for o in rec["h"]:
                    log = list(range(nf, o["nf"]))
                    nf = o["nf"]
                    demo.append({"e": "f", "log": log} if o["op"] == "f" else {"e": "r", "res": o["res"], "log": log})
                break
    ctx.binding_demo("Trace_FillRequest", "Trace_FillRequest.cfg", demo, corrupt, limit=len(demo))
    agg.report()
    return ctx.finish(
        rule="S2C: every fill/request schedule of the bounded model (all configurations x all call sequences of "
             "MaxOps calls, compared after every call) on FillRequest around content elements (fill/compute, "
             "fill/request, run+fill/request, other method names + data attributes named like methods; generator and "
             "list results; falsy flow values and falsy results), Sum, StoreFilled and through "
             "FillRequestSeq; every (configuration, flow length, flow as iterator / list / tuple) run, and the same flow through Split (bare and "
             "tuple branch, every bufsize of the model) and FillRequestSeq.run; non-trivial = at least one value; "
             "C2S: seeded random configurations (block size <= 8, <= 40 values) validated by Trace_FillRequest",
        exhaustive=True)
