"""X09  Block-wise laziness of fill/request elements inside lazy pipelines (C02 composed with C16).

spec/LazyBlocks.tla        coroutine machine (demand token, per-block buffer, request at block end) for
                           source -> streaming pre -> FillRequest.run | FillRequestSeq | Split([FillRequest]) -> Slice(k);
                           declarative Avail / MinNeed from RunSem.tla (C16); NoWorkBeforeDemand, PullOnlyOnDemand,
                           BlockPrefixOnly, RetentionBound, StoppedNoPull, ResultsAreSem, MachineIsSem,
                           TerminatesIfSliced (fairness, infinite source); guards predemand / wholeflow refuted
spec/Trace_LazyBlocks.tla  validation of seeded random real runs (results, pulls at every delivery, liveness of
                           flow values on long flows)
Binding: every exported behaviour runs on the real pipeline fed by an instrumented iterator; at each delivery the
real code may have pulled at most what the machine pulled (which TLC proves to be the declarative minimum).
"""
import multiprocessing
import random
from concurrent.futures import ThreadPoolExecutor

from .. import core
from .. import lazyblockslib as lb

ACTIONS = ("Ask", "Stop", "SliceEnd", "Deliver", "Pull", "Request", "Eof", "Finish")


def _guard(ctx, cfg, inv):
    res = ctx.mc("LazyBlocks", cfg, workers=2, expect_violation="report")
    if res.exit == 0 or inv not in (res.violated or ""):
        raise core.MachineryError("sensitivity guard: %s must violate %s (got exit %s, %s)" % (cfg, inv, res.exit, res.violated))
    return inv


def run(ctx):
    import threading
    tag = "thorough" if ctx.thorough else "quick"
    rnd = random.Random(ctx.seed)
    ctx.assume("the machine of LazyBlocks.tla is the laziest implementation the documentation allows (TLC: its pulls at "
               "every delivery equal the declarative MinNeed); the code must not pull more at any delivery; it may pull less")
    ctx.assume("the wrapped element is a harness element (fill/compute or run) that keeps only the data part of the values; "
               "values alive at once are bounded by 2 * block + 2 (the block, the block being read while the previous one "
               "is released, the value in hand), whatever the length of the flow")
    ctx.assume("inside FillRequestSeq / Split the inner element has no yield_on_remainder (its results are left open by C16)")
    lock = threading.Lock()
    account = ctx._account

    def locked_account(*a, **kw):
        with lock:
            return account(*a, **kw)
    ctx._account = locked_account
    w = max(2, ctx.nworkers // 2)
    with ThreadPoolExecutor(max_workers=7) as pool:
        jobs = {
            "mc": pool.submit(ctx.mc, "LazyBlocks", "LazyBlocks_%s.cfg" % tag, workers=w),
            "cover": pool.submit(ctx.mc, "LazyBlocks", "LazyBlocks_cover.cfg", workers=2, coverage=True, must_cover=ACTIONS),
            "live": pool.submit(ctx.mc, "LazyBlocks", "LazyBlocks_live%s.cfg" % ("_thorough" if ctx.thorough else ""), workers=2),
            "g1": pool.submit(_guard, ctx, "LazyBlocks_predemand.cfg", "NoWorkBeforeDemand"),
            "g2": pool.submit(_guard, ctx, "LazyBlocks_wholeflow.cfg", "BlockPrefixOnly"),
            "export": pool.submit(ctx.export, "LazyBlocks", "LazyBlocks_%s_export.cfg" % tag, min_records=1500),
        }
        if ctx.thorough:
            jobs["g3"] = pool.submit(_guard, ctx, "LazyBlocks_wholeflow_ret.cfg", "RetentionBound")
        res = {k: j.result() for k, j in jobs.items()}
    ctx.extra["guards_refuted_by"] = [res[g] for g in ("g1", "g2", "g3") if g in res]
    recs = res["export"]

    # ---- spec -> code
    nsh = max(1, min(ctx.nworkers, 8))
    shards = [(recs[i::nsh], ctx.seed) for i in range(nsh)]
    mp = multiprocessing.get_context("fork")
    pool = mp.Pool(nsh)
    try:
        outs = pool.map(lb._job, shards)
    finally:
        pool.close()
        pool.join()
    found = {}
    for f, nev in outs:
        ctx.evaluations += nev
        for key, (size, detail) in f.items():
            if key not in found or size < found[key][0]:
                found[key] = (size, detail)
    for key in sorted(found):
        ctx.violation(key, found[key][1])
    for rec in recs:
        ctx.case(["behaviour", rec["sc"], rec["n"]], nontrivial=rec["n"] > 0, traces=1)
    ctx.sample({"spec_behaviour": recs[len(recs) // 2]})
    inf = [r for r in recs if r["n"] == lb.INF and r["exhausted"]]
    ctx.extra["infinite_source_terminating_scenarios"] = len(inf)
    if not inf:
        raise core.MachineryError("no terminating scenario over an infinite source exported")
    ctx.sample({"spec_behaviour_infinite_source_sliced": inf[len(inf) // 2]})

    # ---- code -> spec
    trace = []
    for k in range(900 if ctx.thorough else 220):
        r = lb.record(rnd)
        if "failed" in r:
            ctx.violation("random-run:%s:%s" % (r["failed"], lb.shape(r["sc"])), r)
            continue
        trace.append(r)
    for k in range(120 if ctx.thorough else 30):
        r = lb.record(rnd, long_flow=True)
        if "failed" in r:
            ctx.violation("random-run:long:%s:%s" % (r["failed"], lb.shape(r["sc"])), r)
            continue
        trace.append(r)
    ctx.trace_check("Trace_LazyBlocks", "Trace_LazyBlocks.cfg", trace,
                    lambda r: "%s%s" % (lb.shape(r["sc"]), "" if r["lazy"] else ":long-flow"))

    def corrupt(r):
        # every pull count one higher: the first result would then have been available one value earlier
        if r["lazy"] and r["pulls"] and r["sc"]["cfg"]["kind"] == "fc":
            return dict(r, pulls=[p + 1 for p in r["pulls"]])
        return None
    ctx.binding_demo("Trace_LazyBlocks", "Trace_LazyBlocks.cfg", trace, corrupt, limit=len(trace))

    def corrupt_alive(r):
        if not r["lazy"]:
            return dict(r, alive=r["n"])
        return None
    ctx.binding_demo("Trace_LazyBlocks", "Trace_LazyBlocks.cfg", trace, corrupt_alive, limit=len(trace))
    return ctx.finish(
        rule="S2C: every behaviour of the bounded model (FillRequest.run around fill/compute and run elements x buffer_input / "
             "buffer_output x reset x yield_on_remainder x bufsize x results per request; FillRequestSeq and Split([FillRequest]) "
             "with every outer block size; behind nothing / Filter / a map; followed by nothing / Slice(k); finite flows of every "
             "length and an infinite source) on the real pipeline as Sequence, Source, nested Sequences (and with the map inside "
             "the FillRequestSeq): results, pulls at every delivery <= the machine's, pulls at the end, nothing pulled by "
             "building / run(), values alive, plus every consumer stop point k by close / drop / throw; C2S: seeded random "
             "scenarios (block sizes <= 6, <= 14 values) with pull vectors and long flows (48 values) with weak-reference "
             "liveness validated by Trace_LazyBlocks",
        exhaustive=True)
