"""X03  Grouping and flow utility elements: group_plots / GroupPlots / MapGroup, GroupScale, DropContext,
Print / Progress, get_data / get_context / get_data_context / seq_map.

spec/GroupingSem.tla     declarative semantics from the docstrings (GPlots, ScaleSem, MapGroupOne, DropSem,
                         GPRunSem, IsPair) on top of GroupBySem.tla's contexts
spec/Grouping.tla        machines: GroupPlots.run, GroupScale call, MapGroup.run, DropContext.run, Print/Progress
spec/Trace_Grouping.tla  validation of recorded runs on random members / contexts
"""
import contextlib
import copy
import io
import random
import warnings

from .. import core
from .. import grouplib as gl
from .. import sellib as sl

ACTIONS = ("GPPass", "GPTake", "GPGroup", "GPEnd", "ScaleCall", "MGStep", "MGEnd", "DCStep", "DCEnd",
           "PassStep", "PassEnd", "ShapeCall")


class Worst(object):
    def __init__(self):
        self.best, self.count = {}, {}

    def add(self, kind, sc, detail):
        size = (len(core.canon(sc)), core.canon(sc))
        self.count[kind] = self.count.get(kind, 0) + 1
        cur = self.best.get(kind)
        if cur is None or size < cur[0]:
            self.best[kind] = (size, dict(detail, scenario=sc))


def member_text(m):
    s = {"hist": "h", "graph": "g", "num": "n"}[m["k"]] + ("?" if m["s"] == -1 else str(m["s"]))
    c = sl.dec_ctx(m["c"]) if m["h"] else None
    return s if c is None else "%s%s" % (s, core.canon(c).replace('"', "").replace(" ", ""))


def sc_text(sc):
    mode = sc["mode"]
    if mode == "gplots":
        c = sc["cfg"]
        return "group_by=%s,select=%s,scale=%s,transform=%s,yield_selected=%s:[%s]" % (
            c["gb"], c["sel"], c["scale"], c["tr"], c["ys"], ",".join(member_text(m) for m in sc["ms"]))
    if mode == "scale":
        c = sc["cfg"]
        return "scale_to=%s,allow_zero=%s,allow_unknown=%s:[%s]" % (c["to"], c["az"], c["au"],
                                                                  ",".join(member_text(m) for m in sc["ms"]))
    if mode == "mapgroup":
        vals = [("(%s)%s" % (",".join(member_text(m) for m in v["ms"]), "+1" if v.get("pad") else "")) if v["grp"]
                else member_text(v["m"]) for v in sc["vals"]]
        return "seq=%s,map_scalars=%s:%s" % (sc["q"], sc["scal"], ";".join(vals))
    if mode == "drop":
        return "inner=%s:[%s]" % (sc["q"], ",".join(member_text(m) for m in sc["ms"]))
    if mode == "pass":
        return "%s:[%s]" % (sc["el"], ",".join(member_text(m) for m in sc["ms"]))
    return core.canon(sc["sh"])


# ------------------------------------------------------------------ running the real elements
def run_gplots(sc):
    values = [gl.make_value(m) for m in sc["ms"]]
    gp = gl.make_groupplots(sc["cfg"])
    with warnings.catch_warnings():
        warnings.simplefilter("ignore")
        out, status = gl.run_collect(gp.run(iter(values)))
    vals, grps, problems = [], [], []
    seen_group = False
    for x in out:
        if gl.is_group(x):
            seen_group = True
            grps.append(gl.dec_group(x))
        else:
            if seen_group:
                problems.append("a value is yielded after a group")
            vals.append(gl.dec_val_item(x))
            # an unselected value is passed on as it is
            if not any(x is v for v in values) and not sc["cfg"]["ys"]:
                problems.append("an unselected value is not passed on unchanged (identity)")
    return {"vals": vals, "grps": grps, "status": status}, problems


def run_scale(sc):
    import lena.flow
    group = [gl.make_value(m) for m in sc["ms"]]
    cfg = sc["cfg"]
    gs = lena.flow.GroupScale(4 if cfg["to"] == "num" else "ref", allow_zero_scale=cfg["az"], allow_unknown_scale=cfg["au"])
    try:
        res = gs(group)
    except Exception as exc:   # noqa
        return {"members": [], "status": gl.exc_name(exc)}, []
    problems = [] if res is group else ["GroupScale does not return the group it was given"]
    import lena.flow as lf
    return {"members": [dict(zip(("id", "s"), gl.read_data(lf.get_data(v)))) for v in group], "status": "done"}, problems


def mg_value(v):
    if not v["grp"]:
        return gl.make_value(v["m"])
    ctx = sl.dec_ctx(v["common"])
    ctx["group"] = [sl.dec_ctx(gl.ctx_of(m)) for m in v["ms"]]
    data = [gl.make_data(m) for m in v["ms"]]
    if v.get("pad"):
        data.append(gl.NUM0)          # one item more than context.group
    return (data, ctx)


def run_mapgroup(sc):
    import lena.flow
    values = [mg_value(v) for v in sc["vals"]]
    mg = lena.flow.MapGroup(gl.Seq(sc["q"]), map_scalars=sc["scal"])
    with warnings.catch_warnings():
        warnings.simplefilter("ignore")
        out, status = gl.run_collect(mg.run(iter(values)))
    dec = []
    for x in out:
        if gl.is_group(x):
            g = gl.dec_group(x)
            dec.append({"grp": True, "common": g["common"],
                        "ms": [dict(m, c=c) for m, c in zip(g["members"], g["group"])]})
        else:
            v = gl.dec_val_item(x)
            dec.append({"grp": False, "ms": [{"id": v["id"], "s": v["s"], "c": v["c"]}]})
    return {"out": dec, "status": status}, []


def run_drop(sc):
    import lena.flow
    values = [(gl.NUM0 + m["id"], sl.dec_ctx(m["c"])) for m in sc["ms"]]
    inner = gl.Inner(sc["q"])
    out, status = gl.run_collect(lena.flow.DropContext(inner).run(iter(values)))
    problems = []
    if inner.saw_context:
        problems.append("the inner sequence of DropContext sees a context")
    if status != "done":
        problems.append("DropContext raised %s" % status.replace("Other:", ""))
    dec = []
    for x in out:
        if not (isinstance(x, tuple) and len(x) == 2 and isinstance(x[1], dict)):
            problems.append("DropContext yields a value without context")
            continue
        if not isinstance(x[0], int):
            problems.append("DropContext yields data of another kind")
            continue
        dec.append({"id": x[0] - gl.NUM0, "c": sl.enc_ctx(x[1])})
    return {"out": dec}, problems


def run_pass(sc):
    import lena.core
    import lena.flow
    values = [gl.make_value(m) for m in sc["ms"]]
    buf = io.StringIO()
    problems = []
    with contextlib.redirect_stdout(buf):
        if sc["el"] == "print":
            out = list(lena.core.Sequence(lena.flow.Print(before="<", end=">\n", transform=gl.kind_of)).run(iter(values)))
        else:
            out = list(lena.flow.Progress(name="plots").run(iter(values)))
    text = buf.getvalue()
    if len(out) != len(values) or any(a is not b for a, b in zip(out, values)):
        problems.append("%s does not pass the values through unchanged and in order" % sc["el"])
    if sc["el"] == "print" and text != "".join("<%s>\n" % gl.kind_of(v) for v in values):
        problems.append("Print output is not before + transform(value) + end per value")
    return {"printed": text.count("\n")}, problems


def run_shape(sc):
    import lena.flow as lf
    obj = gl.make_shape(sc["sh"])
    d, c = lf.get_data(obj), lf.get_context(obj)
    dc = lf.get_data_context(obj)
    data = "first" if (len(obj) > 0 and d is obj[0] and d is not obj) else ("whole" if d is obj else "other")
    if len(obj) > 1 and c is obj[1]:
        context = "second"
    else:
        context = "empty" if (isinstance(c, dict) and not c) else "other"
    problems = []
    if not (isinstance(dc, tuple) and len(dc) == 2 and dc[0] is d and (dc[1] is c or (dc[1] == {} and c == {}))):
        problems.append("get_data_context disagrees with get_data / get_context")
    return {"data": data, "context": context}, problems


# ------------------------------------------------------------------ comparison
def bag_equal(a, b):
    a, b = [core.canon(x) for x in a], [core.canon(x) for x in b]
    return sorted(a) == sorted(b)


def mg_equal(got, exp):
    """Members with their contexts, the common context outside output, and True wins for changed."""
    if got["grp"] != exp["grp"]:
        return False
    if not exp["grp"]:
        m = exp["m"]
        return got["ms"] == [{"id": m["id"], "s": m["s"], "c": gl.norm(gl.ctx_of(m))}]
    want = [{"id": m["id"], "s": m["s"], "c": gl.norm(gl.ctx_of(m))} for m in exp["ms"]]
    if got["ms"] != want:
        return False
    gc, ec = sl.dec_ctx(got["common"]), sl.dec_ctx(exp["common"])
    if {k: v for k, v in gc.items() if k != "output"} != {k: v for k, v in ec.items() if k != "output"}:
        return False
    if any(sl.dec_ctx(gl.ctx_of(m)).get("output", {}).get("changed") is True for m in exp["ms"]):
        return gc.get("output", {}).get("changed") is True
    return True


def replay(ctx, rec, worst):
    sc, status = rec["sc"], rec["status"]
    mode = sc["mode"]
    exp_out = gl.norm(rec["out"])
    try:
        if mode == "gplots":
            got, problems = run_gplots(sc)
            got = gl.norm(got)
            exp_vals = [x for x in exp_out if x["o"] == "val"]
            exp_grps = [x["g"] for x in exp_out if x["o"] == "grp"]
            if got["status"] != status:
                problems.append("status: expected %s, observed %s" % (status, got["status"]))
            elif got["vals"] != exp_vals:
                problems.append("values yielded during the flow differ")
            elif status == "done" and not bag_equal(got["grps"], exp_grps):
                problems.append("groups differ")
            detail = {"expected": {"vals": exp_vals, "grps": exp_grps, "status": status}, "observed": got}
        elif mode == "scale":
            got, problems = run_scale(sc)
            exp_members = exp_out[0]["g"]["members"] if status == "done" else []
            if got["status"] != status:
                problems.append("status: expected %s, observed %s" % (status, got["status"]))
            elif got["members"] != exp_members:
                problems.append("scales of the members differ")
            detail = {"expected": {"members": exp_members, "status": status}, "observed": got}
        elif mode == "mapgroup":
            got, problems = run_mapgroup(sc)
            got = gl.norm(got)
            if got["status"] != status:
                problems.append("status: expected %s, observed %s" % (status, got["status"]))
            elif status == "done" and (len(got["out"]) != len(exp_out)
                                       or not all(mg_equal(g, e) for g, e in zip(got["out"], exp_out))):
                problems.append("yielded values differ")
            detail = {"expected": {"out": exp_out, "status": status}, "observed": got}
        elif mode == "drop":
            got, problems = run_drop(sc)
            got = gl.norm(got)
            if got["out"] != exp_out and not problems:
                problems.append("results or their contexts differ")
            detail = {"expected": exp_out, "observed": got["out"]}
        elif mode == "pass":
            got, problems = run_pass(sc)
            if got["printed"] != rec["printed"]:
                problems.append("number of lines printed: expected %d, observed %d" % (rec["printed"], got["printed"]))
            detail = {"expected_lines": rec["printed"], "observed_lines": got["printed"]}
        else:
            got, problems = run_shape(sc)
            want = {"data": exp_out[0]["data"], "context": exp_out[0]["context"]}
            if got != want:
                problems.append("get_data / get_context: expected %s, observed %s" % (want, got))
            detail = {"expected": want, "observed": got}
    except Exception as exc:   # noqa
        problems, detail = ["harness call raised %s" % gl.exc_name(exc)], {"exception": repr(exc)}
    for p in problems:
        worst.add("%s:%s" % (mode, p), sc, detail)
    ctx.case([mode, sc], nontrivial=mode == "shape" or bool(sc.get("ms") or sc.get("vals")))


# ------------------------------------------------------------------ C2S
def record(ctx, rnd, n, worst):
    trace = []
    for _ in range(n):
        mode = rnd.choice(["gplots", "gplots", "scale", "mapgroup", "drop"])
        ms = [gl.random_member(rnd, i + 1) for i in range(rnd.randint(0, 7))]
        if mode == "gplots":
            cfg = {"gb": rnd.choice(["type", "key"]), "sel": rnd.choice(["all", "ctx", "hist"]),
                   "scale": rnd.choice(["none", "none", "num", "ref"]), "tr": rnd.choice(["id", "id", "tag", "inc", "drop", "dup"]),
                   "ys": rnd.random() < 0.5}
            sc = {"mode": mode, "cfg": cfg, "ms": ms}
            got, problems = run_gplots(sc)
            r = {"mode": mode, "cfg": cfg, "ms": ms, "vals": got["vals"], "grps": got["grps"], "status": got["status"]}
        elif mode == "scale":
            cfg = {"to": rnd.choice(["num", "ref"]), "az": rnd.random() < 0.5, "au": rnd.random() < 0.5}
            sc = {"mode": mode, "cfg": cfg, "ms": ms}
            got, problems = run_scale(sc)
            r = {"mode": mode, "cfg": cfg, "ms": ms, "members": got["members"], "status": got["status"]}
        elif mode == "mapgroup":
            vals = []
            for _ in range(rnd.randint(1, 2)):
                k = rnd.randint(0, 3)
                sub = [dict(gl.random_member(rnd, i + 1)) for i in range(k)]
                if k == 0:
                    vals.append({"grp": False, "m": gl.random_member(rnd, 1)})
                else:
                    import lena.flow
                    _, gctx = lena.flow.group_plots([gl.make_value(m) for m in sub])
                    common = {kk: vv for kk, vv in gctx.items() if kk != "group"}
                    if rnd.random() < 0.4:
                        common["x"] = 9
                    vals.append({"grp": True, "ms": sub, "common": sl.enc_ctx(common), "pad": rnd.random() < 0.05})
            sc = {"mode": mode, "q": rnd.choice(["inc", "tag", "setb", "chgT", "chgF", "dup", "drop", "odd"]),
                  "scal": rnd.random() < 0.5, "vals": vals}
            got, problems = run_mapgroup(sc)
            r = dict(sc, out=got["out"], status=got["status"])
        else:
            ms = [dict(m, k="num", s=0, h=True, c=m["c"] if m["h"] else sl.enc_ctx({})) for m in ms]
            sc = {"mode": mode, "q": rnd.choice(["inc", "dup", "drop", "even", "addc"]), "ms": ms}
            got, problems = run_drop(sc)
            r = dict(sc, out=got["out"])
        for p in problems:
            worst.add("%s:%s" % (mode, p), sc, {"where": "random scenario"})
        if problems and mode == "drop":
            continue                     # nothing comparable was recorded
        r["_sc"] = sc
        trace.append(r)
    return trace


def run(ctx):
    tag = "thorough" if ctx.thorough else "quick"
    rnd = random.Random(ctx.seed)
    ctx.assume("group members are real lena histograms / graphs (scale = the member's s; a graph made without a scale has "
               "an unknown one) and integers (no scale method); sequences applied to members are the harness's "
               "(grouplib.Seq / Inner); contexts have int / str / bool leaves")
    ctx.assume("the order in which GroupPlots yields its groups is not documented and not compared; of MapGroup's common "
               "context the keys outside output and 'True wins' for output.changed are compared")
    ctx.mc("Grouping", "Grouping_%s.cfg" % tag, coverage=True, must_cover=ACTIONS)
    recs = ctx.export("Grouping", "Grouping_%s_export.cfg" % tag, min_records=1000)
    worst = Worst()
    for rec in recs:
        replay(ctx, rec, worst)
    for mode in ("gplots", "mapgroup", "scale"):
        sample = next((r for r in recs[len(recs) // 3:] if r["sc"]["mode"] == mode and r["out"]), None)
        if sample:
            ctx.sample({"spec_behaviour": sample})
    trace = record(ctx, rnd, 5000 if ctx.thorough else 1500, worst)
    clean = [{k: v for k, v in r.items() if k != "_sc"} for r in trace]
    acc = ctx.validate("Trace_Grouping", "Trace_Grouping.cfg", clean)
    rounds = 0
    done = 0
    while acc < len(clean) - done and rounds < 5:
        bad = trace[done + acc]
        worst.add("%s:recorded run rejected by Trace_Grouping" % bad["mode"], bad["_sc"],
                  {"record": {k: v for k, v in bad.items() if k not in ("_sc", "ms", "cfg", "vals") or k == "vals" and bad["mode"] == "gplots"}})
        ctx.traces += acc
        done += acc + 1
        rounds += 1
        rest = clean[done:]
        acc = ctx.validate("Trace_Grouping", "Trace_Grouping.cfg", rest) if rest else 0
    ctx.traces += acc
    ctx.evaluations += len(clean)
    for r in clean:
        ctx.distinct.add(core.canon(r))
    ctx.sample({"recorded_trace_record": clean[min(3, len(clean) - 1)]})
    for kind, (size, d) in sorted(worst.best.items()):
        ctx.violation("Grouping:%s:%s" % (kind, sc_text(d["scenario"])), dict(d, cases_of_this_kind=worst.count[kind]))

    # binding demonstration on behaviours of the specification itself
    demo = []
    for r in recs:
        sc = r["sc"]
        if sc["mode"] == "scale" and r["status"] == "done" and len(sc["ms"]) >= 1:
            demo.append({"mode": "scale", "cfg": sc["cfg"], "ms": sc["ms"],
                         "members": gl.norm(r["out"])[0]["g"]["members"], "status": "done"})
        if len(demo) >= 40:
            break

    def corrupt(r):
        if not r["members"]:
            return None
        r2 = copy.deepcopy(r)
        r2["members"][0]["s"] = r2["members"][0]["s"] + 1
        return r2
    ctx.binding_demo("Trace_Grouping", "Trace_Grouping.cfg", demo, corrupt)
    return ctx.finish(
        rule="S2C: every scenario of the bounded model (GroupPlots configurations x flows of real histograms / graphs / "
             "numbers with contexts, GroupScale on every small group, MapGroup over groups and scalars with eight "
             "sequences, DropContext with five inner sequences, Print / Progress, every value shape for get_data / "
             "get_context) replayed on the real elements; non-trivial = at least one flow value; "
             "C2S: seeded random members / contexts / configurations validated by Trace_Grouping",
        exhaustive=True)
