"""X06  ROOT input/output elements (against a stand-in ROOT module) and the remaining small core helpers.

spec/RootIO.tla        ReadROOTFile / ReadROOTTree / WriteROOTTree: protocol of calls into ROOT (operational) and
                       what is yielded (declarative, from the docstrings); machine walking through the protocol
spec/Trace_RootIO.tla  validation of recorded executions of random scenarios
spec/RootTables.tla    exception hierarchy, flow_to_iter, ROOTGraphErrors, variables.functions.abs as tables
lenaverif/rootstub.py  the stand-in ROOT module, lenaverif/rootlib.py the binding
"""
import copy
import random

from .. import core
from .. import replaylib as rl
from .. import rootlib as rt
from .. import rootstub as rs
from ..util import exc_name


def _size(sc):
    return len(core.canon(sc))


def _worker(rec):
    sc = rec["sc"]
    found = {}
    try:
        res, log = rt.run_scenario(sc)
        m = rt.compare(sc, rec["exp"], rec["proto"], rec.get("amb", False), res, log)
    except Exception as exc:       # noqa
        m = ("harness:" + exc_name(exc), {"exception": repr(exc)[:300]})
    if m:
        found["%s:%s" % (rt.label(sc), m[0])] = dict(m[1], scenario=sc)
    nontrivial = bool(sc.get("flow") or sc.get("vals") or sc.get("tree", {}).get("n"))
    return rl.plain(found) if found else found, (rl.case_hash(sc), nontrivial)


def helpers(ctx, tables):
    """The small helpers against the tables of RootTables.tla."""
    import builtins
    import lena.core
    import lena.structures
    import lena.variables
    from lena.core import exceptions as ex
    from lena.core.functions import flow_to_iter
    # ---- exception hierarchy
    names = sorted(n for n in vars(ex) if n.startswith("Lena") and isinstance(getattr(ex, n), type))
    for n in names:
        ctx.case(["exception", n])
        if n not in tables["exc"]:
            ctx.violation("exceptions:undocumented-class:%s" % n, {})
            continue
        cls = getattr(ex, n)
        base = getattr(builtins, tables["exc"][n])
        if not (issubclass(cls, ex.LenaException) and issubclass(cls, base)):
            ctx.violation("exceptions:%s:not-a-subclass-of-%s" % (n, tables["exc"][n]), {"mro": [c.__name__ for c in cls.__mro__]})
        if getattr(lena.core, n, None) is not cls:
            ctx.violation("exceptions:%s:not-exported-by-lena.core" % n, {})
    for n in tables["exc"]:
        if n not in names:
            ctx.violation("exceptions:missing-class:%s" % n, {})
    # ---- flow_to_iter
    class It(object):
        def __iter__(self):
            return iter([1, 2, 3])

    class Itor(object):
        def __init__(self):
            self.k = 0

        def __iter__(self):
            return self

        def __next__(self):
            self.k += 1
            if self.k > 3:
                raise StopIteration
            return self.k
        next = __next__
    makers = {"list": lambda: [1, 2, 3], "tuple": lambda: (1, 2, 3), "range": lambda: range(1, 4),
              "generator": lambda: (x for x in [1, 2, 3]), "listiterator": lambda: iter([1, 2, 3]),
              "iterable-class": It, "iterator-class": Itor, "dict": lambda: {1: 0, 2: 0, 3: 0},
              "empty-list": lambda: [], "string": lambda: "abc"}
    for row in tables["flow"]:
        flow = makers[row["kind"]]()
        want = list(makers[row["kind"]]())
        ctx.case(["flow_to_iter", row["kind"]])
        try:
            it = flow_to_iter(flow)
            same = it is flow
            got = [next(it) for _ in range(len(want))]
            try:
                next(it)
                got.append("more")
            except StopIteration:
                pass
        except Exception as exc:     # noqa
            ctx.violation("flow_to_iter:%s:raised:%s" % (row["kind"], exc_name(exc)), {})
            continue
        if got != want:
            ctx.violation("flow_to_iter:%s:items" % row["kind"], {"expected": want, "observed": got})
        if row["same"] and not same:
            ctx.violation("flow_to_iter:%s:copied-although-it-supports-next" % row["kind"], {})
    # ---- ROOTGraphErrors
    rs.install()
    for row in tables["graphs"]:
        g, exp = row["g"], row["exp"]
        rs.reset()
        ctx.case(["ROOTGraphErrors", g])
        try:
            graph = lena.structures.graph([list(c) for c in g["coords"]], field_names=tuple(g["fields"]))
            context = {"a": 1}
            res = lena.structures.ROOTGraphErrors()((graph, context))
            rge, rctx = res
            call = [e for e in rs.LOG if e[0] == "TGraphErrors"][-1]
        except Exception as exc:     # noqa
            ctx.violation("ROOTGraphErrors:%s:raised:%s" % ("+".join(g["fields"]), exc_name(exc)), {"exception": repr(exc)[:200]})
            continue
        key = "ROOTGraphErrors:%s" % "+".join(g["fields"])
        n = exp["n"]
        none_if = lambda arr, has: (list(arr) if has else None)
        got = {"n": call[1], "x": call[2], "y": call[3], "ex": call[4], "ey": call[5]}
        want = {"n": n, "x": [float(v) for v in exp["x"]], "y": [float(v) for v in exp["y"]],
                "ex": none_if([float(v) for v in exp["ex"]], exp["hasex"]),
                "ey": none_if([float(v) for v in exp["ey"]], exp["hasey"])}
        if n == 0:        # no points: an empty error array and no error array are the same graph
            for k in ("ex", "ey"):
                got[k] = got[k] or None
                want[k] = want[k] or None
        if got != want:
            ctx.violation(key + ":TGraphErrors-arguments", {"expected": want, "observed": got})
        if call[6] != "d":
            ctx.violation(key + ":type-code", {"observed": call[6]})
        pts = [[float(v) for v in p] for p in exp["points"]]
        if [list(p) for p in rge] != pts or len(rge) != n:
            ctx.violation(key + ":points", {"expected": pts, "observed": [list(p) for p in rge]})
        if rctx != {"a": 1}:
            ctx.violation(key + ":context", {"observed": rctx})
    # ---- ReadROOTTree: the two ways to construct it
    import lena.input
    for row in tables["treector"]:
        c, exp = row["c"], row["exp"]
        ctx.case(["ReadROOTTree-init", c])
        kw = {}
        if c["leaves"]:
            kw["leaves"] = ["x"]
        if c["ge"]:
            kw["get_entries"] = lambda tree: iter(())
        try:
            lena.input.ReadROOTTree(**kw)
            got = "ok"
        except Exception as exc:     # noqa
            got = exc_name(exc)
        if got != exp:
            ctx.violation("ReadROOTTree-init[%s]:%s" % (",".join(sorted(kw)) or "nothing", got), {"expected": exp})
    for row in tables["getentries"]:
        c, exp = row["c"], row["exp"]
        ctx.case(["ReadROOTTree-get_entries", c])
        rs.reset()
        tree = rs.TTree(c["name"], c["name"], [("pos", ["x"])], c["n"])
        seen = []

        def get_entries(t):
            seen.append(t)
            for j, _e in enumerate(t):
                yield j
        try:
            el = lena.input.ReadROOTTree(get_entries=get_entries)
            got = [{"d": d, "ctx": copy.deepcopy(cx)} for d, cx in el.run(iter([(tree, copy.deepcopy(c["ctx"]))]))]
        except Exception as exc:     # noqa
            ctx.violation("ReadROOTTree[get_entries]:raised:" + exc_name(exc), {"exception": repr(exc)[:200]})
            continue
        if got != list(exp):
            ctx.violation("ReadROOTTree[get_entries]:yielded", {"expected": exp, "observed": got})
        if seen != [tree]:
            ctx.violation("ReadROOTTree[get_entries]:not-called-with-the-tree", {"calls": len(seen)})
    # ---- variables.functions.abs
    for row in tables["abs"]:
        c, exp = row["c"], row["exp"]
        ctx.case(["abs", c])
        kw = {"latex_name": c["latex"]} if c["latex"] else {}
        var = lena.variables.Variable(c["name"], lambda d: d[0], type="coordinate", **kw)
        akw = {}
        if c["gname"]:
            akw["name"] = c["gname"]
        if c["glatex"]:
            akw["latex_name"] = c["glatex"]
        key = "variables.abs:%s" % ("+".join(sorted(akw)) or "defaults") + (":latex" if c["latex"] else "")
        try:
            av = lena.variables.abs(var, **akw)
            vals = [av(((v["i"], 5), {}))[0] for v in exp["vals"]]
            got = {"name": av.name, "latex": av.latex_name, "vals": vals}
        except Exception as exc:     # noqa
            ctx.violation(key + ":raised:" + exc_name(exc), {"exception": repr(exc)[:200]})
            continue
        want = {"name": exp["name"], "latex": exp["latex"], "vals": [v["o"] for v in exp["vals"]]}
        if got != want:
            ctx.violation(key, {"expected": want, "observed": got})
        if var.name != c["name"]:
            ctx.violation(key + ":argument-changed", {})


def run(ctx):
    import lena  # noqa
    tag = "thorough" if ctx.thorough else "quick"
    ctx.assume("ROOT is the stand-in lenaverif/rootstub.py: TFile (options, cycles, Get = last cycle, objects destroyed at "
               "Close, OSError for a missing file), TTree (branches, SetBranchStatus, entries as attribute access, "
               "Branch/Fill/SetDirectory), TGraphErrors; nothing of the real ROOT is exercised")
    ctx.assume("statement from the docstrings only; left open: the open file when a missing key raises, the order of the "
               "objects of one file and of the entry fields, values that are not trees, qualified leaves whose name "
               "exists in several branches (depends on PyROOT's attribute lookup)")
    cover = ("Open", "Close", "Get", "Yield", "Status", "Entry", "Branch", "Fill", "Write")
    # one TLC run checks the invariants of the protocol machine and exports every scenario
    recs = rl.mc_and_export(ctx, "RootIO", "RootIO_%s.cfg" % tag, cover, min_records=1000)
    found = {}
    for f, case in rl.pmap(_worker, recs):
        rl.add_cases(ctx, [case])
        for key, val in f.items():
            if key not in found or _size(val["scenario"]) < _size(found[key]["scenario"]):
                found[key] = val
    for k in (len(recs) // 7, len(recs) // 2, (6 * len(recs)) // 7):
        ctx.sample({"spec_behaviour": {"sc": recs[k]["sc"], "exp": recs[k]["exp"]}})
    for key in sorted(found):
        ctx.violation(key, found[key])
    tables = ctx.export("RootTables", "RootTables.cfg", min_records=1)[0]
    helpers(ctx, tables)
    # ---- code -> spec
    rnd = random.Random(ctx.seed)
    trace = []
    # classes of scenarios that already failed in the replay are left out (they would be rejected for the same reason;
    # which of them a seed hits would make the keys depend on the seed)
    failed = set(key.split("]:")[0] + "]" for key in found if "]:" in key)
    for _ in range(6000 if ctx.thorough else 400):
        sc = rt.rand_scenario(rnd)
        if rt.label(sc) in failed:
            continue
        try:
            res, log = rt.run_scenario(sc)
        except Exception as exc:     # noqa
            ctx.violation("%s:harness:%s" % (rt.label(sc), exc_name(exc)), {"scenario": sc})
            continue
        trace.append({"sc": sc, "obs": res, "log": log})
    pending = trace
    for _round in range(8):
        if not pending:
            break
        acc = ctx.validate("Trace_RootIO", "Trace_RootIO.cfg", pending, label="rootio")
        if _round == 0:
            ctx.evaluations += len(pending)
        ctx.traces += min(acc, len(pending))
        for r in pending[:acc]:
            ctx.distinct.add(rl.case_hash(r))
        if acc >= len(pending):
            break
        bad = pending[acc]
        ctx.violation("Trace_RootIO:rejected:%s" % rt.label(bad["sc"]), {"record": bad})
        lab = rt.label(bad["sc"])
        pending = [r for r in pending[acc + 1:] if rt.label(r["sc"]) != lab]
    if trace:
        ctx.sample({"recorded_execution": trace[min(1, len(trace) - 1)]})

        def corrupt(r):
            if r["sc"]["mode"] == "write" and r["obs"]["ok"] and len(r["sc"]["vals"]) >= 2:
                r = copy.deepcopy(r)
                fills = [e for e in r["log"] if e["op"] == "fill"]
                fills[-1]["a"] = fills[0]["a"][:-1] + [fills[0]["a"][-1] + 1]      # one value filled wrongly
                return r
            return None
        ctx.binding_demo("Trace_RootIO", "Trace_RootIO.cfg", trace, corrupt, limit=80)
    return ctx.finish(
        rule="S2C: every scenario of the bounded RootIO model (ReadROOTFile: flows of <= 2 (3) files out of three with "
             "cycles / empty file x keys argument x raise_on_missing x contexts; ReadROOTTree: three trees x nine leaf "
             "lists x contexts; WriteROOTTree: four file forms x creation options x named / combined / single values x "
             "flows of <= 2 (4) values x four faults) executed on the real elements against the stand-in ROOT, yielded "
             "values and the projected call log compared; the helper tables; C2S: seeded random scenarios validated by "
             "Trace_RootIO (Expected and LogOk on the recorded call log)",
        exhaustive=True)
