"""C17  Flow iterators equal their Python reference (Slice is list slicing).

spec/Slice.tla      pull/yield machine of Slice (islice + the seven negative-index branches)
spec/SliceRef.tla   PySlice (declarative)
spec/SliceUse.tla   one Slice element used repeatedly: two interleaved run generators and the fill_into
                    bookkeeping (operational, mirrored from the code) against Slice.tla's declarative side
spec/Iterators.tla  Reverse, Chain, CountFrom, RunningChunkBy machines + references, for every way of
                    constructing / feeding them (opt); the windows of RunningChunkBy as objects held by the
                    consumer (ids: live buffer or new object; HeldFrozen, FreshResults)
spec/SliceFlow.tla  Slice.tla x the protocol surface of the flow object (how iter() works; len / integer index /
                    negative index / slice / registered Sequence / reversed; the length hint of its iterator;
                    live flows that grow while the run generator is suspended): "for every finite flow"
spec/ChainRef.tla, ChainLazy.tla  Chain over iterables that depend on each other (a generator filling a container
                    that is chained after it, raising iterables): when each iterable is asked for its iterator
spec/Trace_Slice.tla, Trace_Chain.tla  validation of recorded runs beyond the exhaustive bounds
"""
import itertools
import random
import collections
import sys
import warnings

from .. import core
from .. import tlcpar
from ..splitlib import deadline, Watchdog
from ..util import CountingIter, exc_name
from .. import c17flows

NONE = -1000
# flow values that an implementation might confuse with "no value": identity is compared
ODD_VALUES = [0, None, False, "", (), 0.0, [], {}, None, StopIteration, float("nan")]
FLOW_KINDS = ("list", "tuple", "range", "gen")


def _py(x):
    return None if x == "None" else int(x)


CAP = 5000


def L(gen, cap=CAP):
    """list(gen), but a broken element that never stops yielding cannot exhaust the memory."""
    return list(itertools.islice(gen, cap))


def make_flow(n, kind):
    if kind == "list":
        return list(range(n))
    if kind == "tuple":
        return tuple(range(n))
    if kind == "range":
        return range(n)
    if kind == "gen":
        return (i for i in range(n))
    if kind == "deque":
        return collections.deque(range(n))
    if kind == "keys":
        return dict.fromkeys(range(n)).keys()
    if kind == "useq":
        # a registered Sequence with the abstract methods only (integer indices)
        return c17flows.flow_class("iter", ("len", "index", "seq"))(range(n))
    if kind == "legacy":
        # no __iter__: iterated through __getitem__(0), (1), ...
        return c17flows.flow_class("legacy", ("index",))(range(n))
    if kind == "bare":
        return c17flows.flow_class("iter", ())(range(n))
    if kind in HINT_FLOW_KINDS:
        # an iterator whose __length_hint__ is not the number of its values (SliceFlow.tla: hint)
        return c17flows.flow_class("once", (), kind[1:])(range(n))
    return iter(range(n))


HINT_FLOW_KINDS = ("hsmall", "hlarge", "hzero", "hnotimpl", "htypeerr")
MORE_FLOW_KINDS = ("deque", "keys", "useq", "legacy", "bare") + HINT_FLOW_KINDS


def arg_forms(a, b, s):
    forms = []
    if s is None:
        if a is None:
            forms.append((b,))
        forms.append((a, b))
    forms.append((a, b, s))
    return forms


def replay_slice(ctx, rec, lena, idx=0):
    a, b, s, n = _py(rec["a"]), _py(rec["b"]), _py(rec["s"]), rec["n"]
    expected = rec["out"]
    bad = False
    for args in arg_forms(a, b, s):
        try:
            el = lena.flow.Slice(*args)
            out = L(el.run(iter(range(n))))
        except Exception as exc:       # noqa
            out = "raised " + exc_name(exc)
        if out != expected:
            bad = True
            ctx.violation("Slice.run:branch=%s" % rec["branch"],
                          {"args": repr(args), "n": n, "expected": expected, "observed": out})
        elif args == (a, b, s) and n:
            # "every finite flow": the values are arbitrary objects (None and other falsy values included);
            # the slice must consist of the very objects at the selected positions
            objs = [ODD_VALUES[i % len(ODD_VALUES)] for i in range(n)]
            fk = FLOW_KINDS[idx % 4]
            try:
                # the same element object is run a second time (RunIf, Split and users reuse elements):
                # run() keeps no state between runs; the flow may also be a re-iterable container
                out2 = L(el.run(iter(objs)))
                same = len(out2) == len(expected) and all(x is objs[i] for x, i in zip(out2, expected))
                out3 = L(el.run(make_flow(n, fk)))
                if out3 != expected:
                    bad = True
                    ctx.violation("Slice.run:container-flow:branch=%s" % rec["branch"],
                                  {"args": repr(args), "flow": "%s of range(%d)" % (fk, n), "expected": expected,
                                   "observed": out3})
            except Exception as exc:       # noqa
                out2, same = "raised " + exc_name(exc), False
            if not same:
                bad = True
                ctx.violation("Slice.run:odd-values:branch=%s" % rec["branch"],
                              {"args": repr(args), "flow": repr(objs), "expected_positions": expected,
                               "observed": repr(out2)})
        # the deprecated alias ISlice constructs the same element (a representative slice of the cases)
        if idx % 7 == 0 and hasattr(lena.flow, "ISlice"):
            try:
                with warnings.catch_warnings(record=True) as caught:
                    warnings.simplefilter("always")
                    out4 = L(lena.flow.ISlice(*args).run(iter(range(n))))
                if not any(issubclass(w.category, DeprecationWarning) for w in caught):
                    out4 = "no DeprecationWarning"
            except Exception as exc:       # noqa
                out4 = "raised " + exc_name(exc)
            if out4 != expected:
                bad = True
                ctx.violation("ISlice:differs-from-Slice", {"args": repr(args), "n": n, "expected": expected,
                                                            "observed": out4})
        # fill_into route for non-negative arguments
        if rec["fillstop"] != "na":
            el = lena.flow.Slice(*args)
            sink = lena.flow.StoreFilled()
            stop = None
            after_stop = None
            for i in range(n + 12):
                try:
                    el.fill_into(sink, i)
                except lena.core.LenaStopFill:
                    stop = i
                    break
                except Exception as exc:   # noqa
                    stop = "raised " + exc_name(exc)
                    break
            if isinstance(stop, int):
                # the stop point is final: a consumer that keeps offering values must not get any of them
                # filled (the element may raise LenaStopFill again or ignore them)
                before = list(sink.group)
                for i in range(stop, stop + 2 * (n + 14)):
                    try:
                        el.fill_into(sink, i)
                    except lena.core.LenaStopFill:
                        pass
                    except Exception as exc:   # noqa
                        after_stop = "raised " + exc_name(exc)
                        break
                if after_stop is None and sink.group != before:
                    after_stop = "filled %r after LenaStopFill at %d" % (sink.group[len(before):], stop)
                del sink.group[len(before):]
                if after_stop:
                    bad = True
                    ctx.violation("Slice.fill_into:after-stop", {"args": repr(args), "stop": stop,
                                                                 "observed": after_stop})
            lo = 0 if a is None else a
            st = 1 if s is None else s
            sel = lambda j: j >= lo and (b is None or j < b) and (j - lo) % st == 0
            if isinstance(stop, str):
                ok, exp_filled = False, None
            else:
                total = n + 12 if stop is None else stop
                exp_filled = [j for j in range(total) if sel(j)]
                ok = (sink.group == exp_filled
                      and (stop is None or not any(sel(j) for j in range(stop, stop + 80))))
            if not ok:
                bad = True
                ctx.violation("Slice.fill_into", {"args": repr(args), "filled": sink.group,
                                                  "stop": stop, "expected_filled": exp_filled})
            elif args == (a, b, s):
                # the values filled are the very objects offered (falsy ones included)
                el = lena.flow.Slice(*args)
                sink = lena.flow.StoreFilled()
                total = n + 12 if stop is None else stop
                objs = [ODD_VALUES[i % len(ODD_VALUES)] for i in range(total)]
                try:
                    for v in objs:
                        el.fill_into(sink, v)
                    same = len(sink.group) == len(exp_filled) and all(x is objs[j] for x, j in zip(sink.group, exp_filled))
                except Exception as exc:       # noqa
                    same = False
                if not same:
                    bad = True
                    ctx.violation("Slice.fill_into:odd-values", {"args": repr(args), "offered": repr(objs),
                                                                 "filled": repr(sink.group), "expected_positions": exp_filled})
    return not bad


def replay_use(ctx, rec, lena):
    """One Slice element driven along a behaviour of SliceUse.tla."""
    a, b, s, n = _py(rec["a"]), _py(rec["b"]), _py(rec["s"]), rec["n"]
    el = lena.flow.Slice(a, b, s)
    sink = lena.flow.StoreFilled()
    gens = {}
    end = object()
    ctx.case(["use", rec["a"], rec["b"], rec["s"], n, rec["hist"]], nontrivial=True)
    for step, op in enumerate(rec["hist"]):
        what, i, val, raised, allowed = op
        try:
            if what == "s":
                # generator 1 reads an iterator, generator 2 a re-iterable container
                gens[i] = el.run(iter(range(n)) if i == 1 else list(range(n)))
            elif what == "n":
                got = next(gens[i], end)
                exp = end if val == -1 else val
                if got is not exp and got != exp:
                    ctx.violation("Slice:interleaved-use:run", {"scenario": rec, "step": step,
                                                                "observed": repr(got)})
                    return False
            elif what == "f":
                before = len(sink.group)
                try:
                    el.fill_into(sink, i)
                    did_raise = False
                except lena.core.LenaStopFill:
                    did_raise = True
                new = sink.group[before:]
                if did_raise and (not allowed or new):
                    ctx.violation("Slice:interleaved-use:fill_into:early-stop", {"scenario": rec, "step": step})
                    return False
                if not did_raise and new != ([i] if val else []):
                    ctx.violation("Slice:interleaved-use:fill_into", {"scenario": rec, "step": step,
                                                                      "filled": new})
                    return False
        except Exception as exc:   # noqa
            ctx.violation("Slice:interleaved-use:raised:" + exc_name(exc), {"scenario": rec, "step": step})
            return False
    return True


def replay_flows(ctx, recs, lena):
    """SliceFlow.tla: every (scenario, protocol surface of the flow) on the real Slice.run.

    The flow is realised by a synthetic class with exactly the exported surface (capabilities and length hint)
    and by every builtin type that has it; the expected values are the exported positions mapped through
    list(flow).  Records with a growth plan (gat, gby) are run over live flows: the consumer appends gby values
    to the underlying list while the run generator is suspended at its gat-th yield."""
    import operator
    failures, gfailures = {}, {}
    surfaces = set()
    for idx, rec in enumerate(recs):
        a, b, s, n = _py(rec["a"]), _py(rec["b"]), _py(rec["s"]), rec["n"]
        proto, caps = c17flows.profile_of(rec)
        hint, gat, gby = rec["hint"], rec["gat"], rec["gby"]
        sig = c17flows.signature(rec)
        surfaces.add(sig)
        if gat:
            ctx.case(["flow-grow", rec["a"], rec["b"], rec["s"], n, sig, gat, gby], nontrivial=True)
            for name, make in c17flows.live_realisations(proto, caps, n, hint):
                out = []
                try:
                    with deadline(20):
                        flow, append = make()
                        for v in itertools.islice(lena.flow.Slice(a, b, s).run(flow), CAP):
                            out.append(v)
                            if len(out) == gat:
                                for k in range(gby):
                                    append(n + k)
                except Watchdog:
                    out = "does not terminate"
                except Exception as exc:       # noqa
                    out = "raised " + exc_name(exc)
                if out != rec["out"]:
                    who = sig if name == "synthetic" else name
                    gfailures.setdefault(rec["branch"], []).append(
                        ((len(caps), name != "synthetic", who, n, gat, gby),
                         {"args": repr((a, b, s)), "flow": "%s (%s) over %d values, %d appended at the yield number %d"
                                                           % (who, sig, n, gby, gat),
                          "expected": rec["out"], "observed": out}))
            continue
        ctx.case(["flow", rec["a"], rec["b"], rec["s"], n, sig], nontrivial=n > 0)
        for name, make in c17flows.realisations(proto, caps, n, hint):
            if name == "synthetic" and hint != "absent" and n == 4 and a is None and b is None:
                # binding of the hint surface: the synthesised iterator reports what the model says (HintOf)
                told = operator.length_hint(iter(make()))
                if told != rec["hint0"]:
                    raise core.MachineryError("flow %s over %d values: length_hint %r, model %r" % (sig, n, told, rec["hint0"]))
            listed = list(make())
            expected = [listed[i] for i in rec["out"]]
            runs = [("Slice", lena.flow.Slice)]
            if hint != "absent" and idx % 7 == 0 and hasattr(lena.flow, "ISlice"):
                runs.append(("ISlice", lena.flow.ISlice))
            for elname, elcls in runs:
                try:
                    with deadline(20), warnings.catch_warnings():
                        warnings.simplefilter("ignore")
                        out = L(elcls(a, b, s).run(make()))
                except Watchdog:
                    out = "does not terminate"
                except Exception as exc:       # noqa
                    out = "raised " + exc_name(exc)
                if out != expected:
                    who = sig if name == "synthetic" else name
                    failures.setdefault(rec["branch"], []).append(
                        ((len(caps), name != "synthetic", who, n),
                         {"args": repr((a, b, s)), "element": elname, "flow": "%s (%s) over %d values" % (who, sig, n),
                          "expected": expected, "observed": out}))
    # per branch of the algorithm the failure with the smallest protocol surface is reported
    for branch in sorted(failures):
        rank, detail = min(failures[branch], key=lambda f: f[0])
        ctx.violation("Slice.run:flow-protocol:branch=%s:%s" % (branch, rank[2]),
                      dict(detail, failing_cases_of_this_branch=len(failures[branch])))
    for branch in sorted(gfailures):
        rank, detail = min(gfailures[branch], key=lambda f: f[0])
        ctx.violation("Slice.run:growing-flow:branch=%s:%s" % (branch, rank[2]),
                      dict(detail, failing_cases_of_this_branch=len(gfailures[branch])))
    ctx.extra["flow_protocol_surfaces"] = len(surfaces)
    ctx.extra["growing_flow_scenarios"] = sum(1 for r in recs if r["gat"])
    return not failures and not gfailures


def run_chain_dyn(lena, kinds, lens, shared, static_as=list):
    """Chain over the dependent iterables of a ChainRef scenario -> (values, exception, final container)."""
    its, content = c17flows.chain_iterables(kinds, lens, shared, static_as)
    got, err = [], "none"
    try:
        for v in itertools.islice(lena.flow.Chain(*its)(), CAP):
            got.append(v)
    except c17flows.Boom:
        err = "Boom"
    except Exception as exc:       # noqa
        err = "raised " + exc_name(exc)
    return got, err, content()


def replay_chain_dyn(ctx, rec, lena, idx=0):
    kinds, lens = rec["kinds"], rec["lens"]
    exp = ([tuple(v) for v in rec["out"]], rec["err"], [tuple(v) for v in rec["log"]])
    ctx.case(["chain-dependent", kinds, lens], nontrivial=bool(exp[0]))
    ok = True
    # without the shared container among the iterables its type does not matter
    shared_kinds = c17flows.SHARED_KINDS if "snap" in kinds else (c17flows.SHARED_KINDS[idx % len(c17flows.SHARED_KINDS)],)
    for shared in shared_kinds:
        got = run_chain_dyn(lena, kinds, lens, shared, (list, tuple)[idx % 2])
        if got != exp:
            ok = False
            what = "values" if got[0] != exp[0] else "exception" if got[1] != exp[1] else "container"
            ctx.violation("Chain:dependent-iterables:%s:%s" % (shared, what),
                          {"scenario": rec, "shared_container": shared, "expected": repr(exp), "observed": repr(got)})
    return ok


class TupleSub(tuple):
    pass


def chunk_container(opt, k):
    """-> (kwargs of RunningChunkBy, expected type, normaliser to a list)."""
    if opt == "tuple":
        return {}, tuple, list
    if opt == "tuple_it":
        return {"container": tuple, "from_iterable": True}, tuple, list
    if opt == "list_it":
        return {"container": list, "from_iterable": True}, list, list
    if opt == "list_it1":
        return {"container": list, "from_iterable": 1}, list, list
    if opt == "set_it":
        return {"container": set, "from_iterable": True}, set, sorted
    if opt == "frozenset_it":
        return {"container": frozenset, "from_iterable": True}, frozenset, sorted
    if opt == "tuplesub_it":
        return {"container": TupleSub, "from_iterable": True}, TupleSub, list
    if opt == "nt":
        nt = collections.namedtuple("W", ["f%d" % i for i in range(k)])
        return {"container": nt}, nt, list
    if opt == "fn_pos":
        return {"container": lambda *args: [-1] + list(args)}, list, list
    if opt == "fn_it":
        return {"container": lambda it: [-1] + list(it), "from_iterable": True}, list, list
    if opt == "deque_it":
        return {"container": collections.deque, "from_iterable": True}, collections.deque, list
    if opt == "bytearray_it":
        return {"container": bytearray, "from_iterable": True}, bytearray, list
    raise ValueError(opt)


def chain_iterables(opt, lens):
    its = [[(i + 1, j) for j in range(m)] for i, m in enumerate(lens)]
    if opt in ("0", "1list", "2list", "3list"):
        return its, True
    if opt == "3tuple":
        return [tuple(x) for x in its], True
    if opt == "3range":
        # ranges cannot hold pairs: chain of ranges, mapped to pairs afterwards
        return None, True
    if opt == "3gen":
        return [(v for v in x) for x in its], False
    if opt == "3iter":
        return [iter(x) for x in its], False
    if opt == "3mixed":
        return [tuple(its[0]), (v for v in its[1]), dict.fromkeys(its[2])], False
    if opt == "3hint":
        return [c17flows.flow_class("once", (), h)(x) for h, x in zip(("small", "large", "notimpl"), its)], False
    raise ValueError(opt)


def replay_iter(ctx, rec, lena):
    kind, p1, p2, n, opt = rec["kind"], rec["p1"], rec["p2"], rec["n"], rec.get("opt", "")
    exp = rec["out"]
    got = {}
    ok_held = True
    try:
        if kind == "reverse":
            rv = lena.flow.Reverse()
            src = make_flow(n, opt)
            got["Reverse"] = L(rv.run(src))
            if opt == "list" and src != list(range(n)):
                got["Reverse:input-list-changed"] = src
            got["Reverse:second-run"] = L(rv.run(iter(range(n))))
            # two runs of one element alive at the same time (an element used in two branches or
            # pipelines): each run has its own buffer
            g1, g2 = rv.run(iter(range(n))), rv.run(iter(range(100, 100 + n + 1)))
            first = list(itertools.islice(g1, 1))
            other = L(g2)
            got["Reverse:interleaved-runs"] = first + L(g1)
            if other != list(range(100 + n, 99, -1)):
                got["Reverse:interleaved-runs"] = {"second generator": other}
            objs = [ODD_VALUES[i % len(ODD_VALUES)] for i in range(n)]
            o = L(rv.run(iter(objs)))
            if len(o) != n or any(x is not y for x, y in zip(o, reversed(objs))):
                got["Reverse:odd-values"] = repr(o)
        elif kind == "chain":
            lens = {"0": [], "1list": [p1], "2list": [p1, p2]}.get(opt, [p1, p2, n])
            exp = [tuple(x) for x in exp]
            its, reiterable = chain_iterables(opt, lens)
            if opt == "3range":
                # ranges hold numbers, not pairs: the number of the iterable is restored from the position
                ch = lena.flow.Chain(*[range(m) for m in lens])
                flat = [i + 1 for i, m in enumerate(lens) for j in range(m)]

                def pairs(vals):
                    return [(flat[k], v) for k, v in enumerate(vals)] if len(vals) == len(flat) else vals
                got["Chain(range)"] = pairs(L(ch()))
                got["Chain(range):second-call"] = pairs(L(ch()))
            else:
                ch = lena.flow.Chain(*its)
                got["Chain"] = L(ch())
                if reiterable:
                    # the element is a Source: every call generates the chain of its (re-iterable) arguments anew
                    got["Chain:second-call"] = L(ch())
                    g1, g2 = ch(), ch()
                    inter = [list(itertools.islice(g1, 1)), L(g2), L(g1)]
                    got["Chain:interleaved-calls:first"] = inter[0] + inter[2]
                    got["Chain:interleaved-calls:second"] = inter[1]
            if opt == "3list":
                objs = [[ODD_VALUES[(i + j) % len(ODD_VALUES)] for j in range(m)] for i, m in enumerate(lens)]
                o = L(lena.flow.Chain(*objs)())
                flat = [x for l in objs for x in l]
                if len(o) != len(flat) or any(x is not y for x, y in zip(o, flat)):
                    got["Chain:odd-values"] = repr(o)
        elif kind == "count":
            cf = {"both": lambda: lena.flow.CountFrom(p1, p2), "kwboth": lambda: lena.flow.CountFrom(step=p2, start=p1),
                  "start": lambda: lena.flow.CountFrom(p1), "kwstep": lambda: lena.flow.CountFrom(step=p2),
                  "none": lambda: lena.flow.CountFrom()}[opt]()
            got["CountFrom"] = list(itertools.islice(cf(), n))
            got["CountFrom:second-call"] = list(itertools.islice(cf(), n))
            g1, g2 = cf(), cf()
            first = list(itertools.islice(g1, 1))
            got["CountFrom:interleaved-calls:second"] = list(itertools.islice(g2, n))
            got["CountFrom:interleaved-calls:first"] = (first + list(itertools.islice(g1, max(n - 1, 0))))[:n]
            # Python integers are unbounded and so is the counter (CountLinear, CountNeverEndsByItself): the
            # scenario shifted by offsets around and beyond the machine word still delivers n + 8 values
            if opt in ("both", "kwboth", "start"):
                for off in (2 ** 31 - 2, 2 ** 63 - 3, sys.maxsize - 1, sys.maxsize + 5, -sys.maxsize + 1, -2 ** 63 - 4,
                            10 ** 30, -10 ** 30):
                    st0 = p1 + off
                    big = {"both": lambda: lena.flow.CountFrom(st0, p2), "kwboth": lambda: lena.flow.CountFrom(step=p2, start=st0),
                           "start": lambda: lena.flow.CountFrom(st0)}[opt]()
                    obs = list(itertools.islice(big(), n + 8))
                    ref = [st0 + i * p2 for i in range(n + 8)]
                    if obs != ref or not all(type(v) is int for v in obs):
                        got["CountFrom(bigint)"] = "start=%d step=%d: %d values %r, expected %d values %r" % (
                            st0, p2, len(obs), obs[:4], len(ref), ref[:4])
                        break
            # the machine counts by repeated addition (CountStep: v' = v + step), which is what
            # itertools.count does; with binary floats that differs from start + i*step, so the same
            # action sequence is replayed in float arithmetic on scaled arguments
            if opt == "both":
                for scale in (0.1, 1e16 + 2.0, 1e-3, 1.0 / 3.0):
                    fs, fp = p1 * scale, p2 * scale
                    ref, v = [], fs
                    for _ in range(n + 8):
                        ref.append(v)
                        v = v + fp
                    obs = list(itertools.islice(lena.flow.CountFrom(fs, fp)(), n + 8))
                    if obs != ref or obs != list(itertools.islice(itertools.count(fs, fp), n + 8)):
                        got["CountFrom(float)"] = "differs from repeated addition / itertools.count for start=%r step=%r: %r" % (fs, fp, obs)
        elif kind == "chunk":
            kwargs, ctype, norm = chunk_container(opt, p1)
            name = "RunningChunkBy(%s)" % opt
            exp = [list(w) for w in exp]
            rc = lena.flow.RunningChunkBy(p1, **kwargs)
            l = L(rc.run(iter(range(n))))
            got[name] = [norm(w) for w in l]
            if not all(type(w) is ctype for w in l):
                got[name] = "wrong container type: %r" % (l,)
            # results HELD by the consumer (Iterators.tla: ids, HeldFrozen, FreshResults): every window is looked
            # at when it is yielded and again after the run has ended
            held, snaps = [], []
            for w in itertools.islice(rc.run(iter(range(n))), CAP):
                snaps.append(norm(w))
                held.append(w)
            got[name + ":at-yield"] = snaps
            held_now = [norm(w) for w in held]
            if held_now != [list(w) for w in rec["held"]]:
                ctx.violation(name + ":held-results", {"scenario": rec, "expected": rec["held"], "when yielded": snaps,
                                                       "after the run": held_now})
                ok_held = False
            else:
                ok_held = True
            if rec["mutable"]:
                if rec["fresh"] and len(set(id(w) for w in held)) != len(held):
                    ok_held = False
                    ctx.violation(name + ":results-share-an-object", {"scenario": rec, "windows": len(held),
                                                                      "objects": len(set(id(w) for w in held))})
                # the consumer changes the window it was given: the other windows and the rest of the run are its own
                snaps = []
                for w in itertools.islice(rc.run(iter(range(n))), CAP):
                    snaps.append(norm(w))
                    w.clear()
                got[name + ":consumer-changes-its-window"] = snaps
            got[name + ":second-run"] = [norm(w) for w in L(rc.run(iter(range(n))))]
            g1, g2 = rc.run(iter(range(n))), rc.run(iter(range(50, 50 + n)))
            first = list(itertools.islice(g1, 1))
            L(g2)
            got[name + ":interleaved-runs"] = [norm(w) for w in first + L(g1)]
            # the flow may be a container
            ckinds = ("list", "tuple", "range") + MORE_FLOW_KINDS
            got[name + ":container-flow"] = [norm(w) for w in L(rc.run(make_flow(n, ckinds[(p1 + n) % len(ckinds)])))]
            if opt in ("tuple", "list_it", "nt"):
                objs = [ODD_VALUES[i % len(ODD_VALUES)] for i in range(n)]
                o = [list(w) for w in L(rc.run(iter(objs)))]
                ref = [objs[j:j + p1] for j in range(0, n - p1 + 1)]
                if len(o) != len(ref) or any(len(x) != len(y) or any(u is not v for u, v in zip(x, y)) for x, y in zip(o, ref)):
                    got[name + ":odd-values"] = repr(o)
    except Exception as exc:   # noqa
        got[kind] = "raised " + exc_name(exc)
    ok = ok_held
    for name, val in got.items():
        if name in ("CountFrom(float)", "CountFrom(bigint)") or name.endswith(":odd-values") or name.endswith("input-list-changed"):
            ok = False
            ctx.violation(name, {"scenario": rec, "observed": val})
            continue
        if val != exp:
            ok = False
            ctx.violation("%s" % name, {"scenario": rec, "expected": exp, "observed": val})
    return ok


def bad_steps(ctx, lena):
    """Other steps are rejected with LenaValueError at construction, whatever start and stop are."""
    n = 0
    rng = [None] + list(range(-7, 8))
    for step in (0, -1, -3, 2.5, -2.5, 0.0, -1.0):
        for a in rng:
            for b in rng:
                n += 1
                try:
                    lena.flow.Slice(a, b, step)
                    res = "accepted"
                except lena.core.LenaValueError:
                    res = "LenaValueError"
                except Exception as exc:    # noqa
                    res = exc_name(exc)
                ctx.case(["badstep", a, b, step])
                if res != "LenaValueError":
                    ctx.violation("Slice.__init__:bad-step:%s" % res, {"args": [a, b, step], "observed": res})
    # a step that is a float with an integral value (2.0) is not a step of Python slicing either
    # (xs[::2.0] is a TypeError): it is rejected with LenaValueError at construction - or, if an
    # implementation takes it for the integer, the slice it produces is the reference one; what must
    # not happen is an element that is constructed and then fails when it is run
    for step in (1.0, 2.0, 3.0):
        for a in rng:
            for b in rng:
                n += 1
                ctx.case(["floatstep", a, b, step])
                try:
                    el = lena.flow.Slice(a, b, step)
                except lena.core.LenaValueError:
                    continue
                except Exception as exc:    # noqa
                    ctx.violation("Slice.__init__:integral-float-step:%s" % exc_name(exc), {"args": [a, b, step]})
                    continue
                try:
                    out = L(el.run(iter(range(9))))
                except Exception as exc:    # noqa
                    out = "raised " + exc_name(exc)
                if out != list(range(9))[a:b:int(step)]:
                    ctx.violation("Slice.__init__:integral-float-step:accepted-but-unusable",
                                  {"args": [a, b, step], "run": out, "expected": list(range(9))[a:b:int(step)]})
    return n


def mc_export(module, cfg, must_cover, min_records):
    """One TLC run that checks the invariants of the cfg AND exports (PrintT) the terminal states."""
    return {"what": "mc+export", "module": module, "cfg": cfg, "must_cover": tuple(must_cover),
            "min_records": min_records, "workers": 1, "coverage": True}


def run_jobs(ctx, jobs):
    """tlcpar.run_jobs, extended by the mc+export jobs (which are checked like both kinds of job)."""
    both = [j for j in jobs if j["what"] == "mc+export"]
    for j in both:
        j["what"] = "export"
    try:
        out = tlcpar.run_jobs(ctx, jobs)
    finally:
        for j in both:
            j["what"] = "mc+export"
    # tlcpar accounted the run (states, coverage of the actions in ctx.actions) and checked exit / min_records
    for j in both:
        for r in ctx.tlc_runs:
            if r["what"] == "export" and r["module"] == j["module"] and r["cfg"] == j["cfg"]:
                r["what"] = "mc+export"
        for act in j["must_cover"]:
            if ctx.actions.get(act, 0) == 0:
                raise core.MachineryError("vacuous model: action %s of %s/%s never taken" % (act, j["module"], j["cfg"]))
    return out


def run(ctx):
    import lena.flow
    import lena.core
    import lena
    ctx.assume("flow values are the integers 0..n-1, so outputs identify input positions")
    th = "_thorough" if ctx.thorough else ""
    # ---- design level, and spec -> code exports (side by side)
    w = ctx.nworkers
    jobs = [tlcpar.mc("Slice", "Slice_mc.cfg", ("Start", "Skip", "Fill", "Lag", "Drain", "Emit", "Collect", "ISlice"),
                      workers=max(2, 3 * w // 4)),
            tlcpar.mc("Iterators", "Iterators_mc.cfg", ("ARevPop", "AChunkSlide", "AChainStep", "ACountStep"),
                      workers=max(2, w // 4)),
            tlcpar.mc("SliceUse", "SliceUse%s_mc.cfg" % th, ("UStart", "UNextOf", "UFill"), workers=max(2, w // 4)),
            tlcpar.export("Slice", "Slice_export.cfg", 1000),
            tlcpar.export("Iterators", "Iterators_export.cfg", 100),
            tlcpar.export("SliceUse", "SliceUse%s_export.cfg" % th, 100),
            # the invariants are checked and the terminal states exported by the same (one worker) TLC run
            mc_export("SliceFlow", "SliceFlow%s.cfg" % th,
                      ("FStart", "FSkip", "FFill", "FLag", "FDrain", "FEmit", "FCollect", "FISlice", "FGrow"), 10000),
            mc_export("ChainLazy", "ChainLazy%s.cfg" % th, ("COpen", "CNext"), 1000)]
    # sensitivity guards of the flow model (side by side with the main runs): the design "resolve negative
    # indices from operator.length_hint(flow)" must be refuted for inexact hints and for growing flows, and is
    # equivalent for exact hints of static flows (which is all that iterators over builtin containers show)
    from concurrent.futures import ThreadPoolExecutor
    pool = ThreadPoolExecutor(max_workers=4)
    guards = [(cfg, want, pool.submit(ctx.mc, "SliceFlow", cfg, workers=1, coverage=True, expect_violation="report"))
              for cfg, want in (("SliceFlow_guard_hint.cfg", "FlowIndependent"), ("SliceFlow_guard_grow.cfg", "FlowIndependent"),
                                ("SliceFlow_guard_exact.cfg", None))]
    # a RunningChunkBy that hands out its live buffer when the container is the buffer's type: TLC refutes HeldFrozen
    share = pool.submit(ctx.mc, "Iterators", "Iterators_guard_share.cfg", workers=1, expect_violation="report")
    try:
        res = run_jobs(ctx, jobs)
        for cfg, want, fut in guards:
            g = fut.result()
            if g.violated != want or g.coverage.get("FHintStart", 0) == 0:
                raise core.MachineryError("the flow model is insensitive: %s refuted %s (expected %s), FHintStart taken %d times"
                                          % (cfg, g.violated, want, g.coverage.get("FHintStart", 0)))
        if share.result().violated != "HeldFrozen":
            raise core.MachineryError("the iterator model is insensitive: a shared running buffer refuted %s"
                                      % share.result().violated)
    finally:
        pool.shutdown(wait=True)
    ctx.extra["sensitivity"] = ["Iterators with ShareBuffer (the live running buffer handed out as a window): TLC refutes HeldFrozen",
                                "SliceFlow with UseHint (negative indices resolved from the length hint): TLC refutes "
                                "FlowIndependent for too small / too large hints and for exact hints of a growing flow; "
                                "no difference for exact hints of static flows"]
    recs, recs2, recs3, recs4, recs5 = res[3], res[4], res[5], res[6], res[7]
    # ---- spec -> code: every terminal state of the bounded model replayed on the real elements
    def guarded(what, fn, *args):
        # a broken element may also loop without yielding: every record is bounded by an alarm
        try:
            with deadline(20):
                fn(*args)
        except Watchdog:
            ctx.violation("%s:does-not-terminate" % what, {"scenario": args[1]})
    for i, rec in enumerate(recs):
        guarded("Slice", replay_slice, ctx, rec, lena, i)
        ctx.case(["slice", rec["a"], rec["b"], rec["s"], rec["n"]], nontrivial=rec["n"] > 0)
    ctx.sample({"spec_behaviour": recs[len(recs) // 2]})
    opts = collections.Counter()
    for rec in recs2:
        opts[(rec["kind"], rec["opt"])] += 1
        guarded(rec["kind"], replay_iter, ctx, rec, lena)
        ctx.case(["iter", rec["kind"], rec["p1"], rec["p2"], rec["n"], rec["opt"]], nontrivial=rec["n"] > 0)
    ctx.extra["iterator_variants"] = len(opts)
    ctx.sample({"spec_behaviour": recs2[len(recs2) // 3]})
    for rec in recs3:
        guarded("Slice:interleaved-use", replay_use, ctx, rec, lena)
    ctx.sample({"spec_behaviour_repeated_use": recs3[len(recs3) // 2]})
    # "every finite flow": scenario x protocol surface of the flow object (SliceFlow.tla)
    replay_flows(ctx, recs4, lena)
    ctx.sample({"spec_behaviour_flow_protocol": recs4[len(recs4) // 2]})
    # Chain over iterables that depend on each other (ChainLazy.tla)
    for i, rec in enumerate(recs5):
        guarded("Chain:dependent-iterables", replay_chain_dyn, ctx, rec, lena, i)
    ctx.sample({"spec_behaviour_dependent_iterables": recs5[2 * len(recs5) // 3]})
    bad_steps(ctx, lena)
    # ---- code -> spec: recorded runs beyond the exhaustive bounds, validated by Trace_Slice
    rnd = random.Random(ctx.seed)
    nrec = 20000 if ctx.thorough else 3000
    trace = []

    def pick(lo, hi):
        return NONE if rnd.random() < 0.2 else rnd.randint(lo, hi)
    for _ in range(nrec):
        a, b = pick(-25, 25), pick(-25, 25)
        s = NONE if rnd.random() < 0.3 else rnd.randint(1, 9)
        n = rnd.randint(0, 40)
        args = tuple(None if x == NONE else x for x in (a, b, s))
        if a >= 0 or a == NONE:
            if (b >= 0 or b == NONE) and rnd.random() < 0.5:
                el = lena.flow.Slice(*args)
                sink = lena.flow.StoreFilled()
                stop = NONE
                for i in range(n):
                    try:
                        el.fill_into(sink, i)
                    except lena.core.LenaStopFill:
                        stop = i
                        break
                    except Exception as exc:     # noqa
                        ctx.violation("Slice.fill_into:random:raised:" + exc_name(exc), {"args": repr(args), "n": n})
                        stop = None
                        break
                if stop is None:
                    continue
                trace.append({"op": "fill", "a": a, "b": b, "s": s, "n": n,
                              "filled": sink.group, "stop": stop})
                continue
        try:
            out = L(lena.flow.Slice(*args).run(make_flow(n, rnd.choice(FLOW_KINDS + ("iter",) + MORE_FLOW_KINDS))))
        except Exception as exc:     # noqa
            ctx.violation("Slice.run:random:raised:" + exc_name(exc), {"args": repr(args), "n": n})
            continue
        trace.append({"op": "run", "a": a, "b": b, "s": s, "n": n, "out": out})
    acc = ctx.validate("Trace_Slice", "Trace_Slice.cfg", trace)
    ctx.traces += acc
    ctx.evaluations += len(trace)
    for r in trace[:acc]:
        ctx.distinct.add(core.canon(r))
    if acc < len(trace):
        r = trace[acc]
        ctx.violation("Trace_Slice:%s:rejected" % r["op"], {"record": r, "index": acc})
    ctx.sample({"recorded_trace_record": trace[1]})
    # binding demonstration: a corrupted record must be rejected exactly there
    if acc == len(trace) and not ctx.violations:
        bad = [dict(r) for r in trace[:50]]
        k = next(i for i, r in enumerate(bad) if r["op"] == "run" and r["out"])
        bad[k] = dict(bad[k], out=bad[k]["out"][:-1])
        acc2 = ctx.validate("Trace_Slice", "Trace_Slice.cfg", bad, label="corrupt")
        if acc2 != k:
            raise core.MachineryError("trace spec does not bind: corrupted record %d, accepted %d" % (k, acc2))
        ctx.extra["binding_demo"] = "corrupted record %d of 50 rejected at index %d" % (k, acc2)
    # ---- code -> spec: Chain over longer lists of dependent iterables, validated by Trace_Chain
    ctrace = []
    kinds_w = ["static"] * 3 + ["reg"] * 4 + ["snap"] * 4 + ["boom"]
    for _ in range(6000 if ctx.thorough else 1200):
        ar = rnd.randint(0, 7)
        kinds = [rnd.choice(kinds_w) for _k in range(ar)]
        lens = [0 if k == "snap" else rnd.randint(0, 6) for k in kinds]
        shared = rnd.choice(c17flows.SHARED_KINDS)
        try:
            with deadline(20):
                got, err, log = run_chain_dyn(lena, kinds, lens, shared, rnd.choice((list, tuple, iter)))
        except Watchdog:
            ctx.violation("Chain:dependent-iterables:random:does-not-terminate", {"kinds": kinds, "lens": lens})
            continue
        ctrace.append({"kinds": kinds, "lens": lens, "out": [list(v) for v in got], "err": err,
                       "log": [list(v) for v in log], "shared": shared})
    acc = ctx.validate("Trace_Chain", "Trace_Chain.cfg", ctrace, label="chain")
    ctx.traces += acc
    ctx.evaluations += len(ctrace)
    for r in ctrace[:acc]:
        ctx.distinct.add(core.canon(r))
    if acc < len(ctrace):
        r = ctrace[acc]
        ctx.violation("Trace_Chain:rejected:%s" % r["shared"], {"record": r, "index": acc})
    elif not ctx.violations:
        ctx.sample({"recorded_trace_record_chain": next(r for r in ctrace if "snap" in r["kinds"] and r["out"])})
        bad = [dict(r) for r in ctrace[:50]]
        k = next(i for i, r in enumerate(bad) if i >= 5 and r["out"])
        bad[k] = dict(bad[k], out=bad[k]["out"][:-1])
        acc2 = ctx.validate("Trace_Chain", "Trace_Chain.cfg", bad, label="chain_corrupt")
        if acc2 != k:
            raise core.MachineryError("Trace_Chain does not bind: corrupted record %d, accepted %d" % (k, acc2))
        ctx.extra["binding_demo_chain"] = "corrupted record %d of 50 rejected at index %d" % (k, acc2)
    return ctx.finish(
        rule="S2C: every (start, stop, step, n) of the bounded Slice model in every argument form (flows as "
             "iterator / list / tuple / range / generator, odd objects, the ISlice alias on every 7th case), every "
             "behaviour of SliceUse (two interleaved runs and fill_into on one element), every (scenario, protocol "
             "surface of the flow object incl. its length hint, and growth plan of a live flow) of SliceFlow, every Chain of dependent iterables of ChainLazy (each with every "
             "kind of shared container) and every Iterators "
             "scenario (all construction variants; CountFrom also shifted to and beyond the machine word), non-trivial = "
             "flow not empty; C2S: seeded random Slice "
             "runs/fills and Chains of dependent iterables outside the bounds",
        exhaustive=True)
