"""C17  Flow iterators equal their Python reference (Slice is list slicing).

spec/Slice.tla      pull/yield machine of Slice (islice + the seven negative-index branches)
spec/SliceRef.tla   PySlice (declarative)
spec/Iterators.tla  Reverse, Chain, CountFrom, RunningChunkBy machines + references
spec/Trace_Slice.tla  validation of recorded runs beyond the exhaustive bounds
"""
import itertools
import random
import collections

from .. import core
from ..util import CountingIter, exc_name

NONE = -1000
# flow values that an implementation might confuse with "no value": identity is compared
ODD_VALUES = [0, None, False, "", (), 0.0, [], {}, None, StopIteration, float("nan")]


def _py(x):
    return None if x == "None" else int(x)


def arg_forms(a, b, s):
    forms = []
    if s is None:
        if a is None:
            forms.append((b,))
        forms.append((a, b))
    forms.append((a, b, s))
    return forms


def replay_slice(ctx, rec, lena):
    a, b, s, n = _py(rec["a"]), _py(rec["b"]), _py(rec["s"]), rec["n"]
    expected = rec["out"]
    bad = False
    for args in arg_forms(a, b, s):
        try:
            el = lena.flow.Slice(*args)
            out = list(el.run(iter(range(n))))
        except Exception as exc:       # noqa
            out = "raised " + exc_name(exc)
        if out != expected:
            bad = True
            ctx.violation("Slice.run:branch=%s" % rec["branch"],
                          {"args": repr(args), "n": n, "expected": expected, "observed": out})
        elif args == (a, b, s) and n:
            # "every finite flow": the values are arbitrary objects (None and other falsy values included);
            # the slice must consist of the very objects at the selected positions
            objs = [ODD_VALUES[i % len(ODD_VALUES)] for i in range(n)]
            try:
                # the same element object is run a second time (RunIf, Split and users reuse elements):
                # run() keeps no state between runs; the flow may also be a re-iterable container
                out2 = list(el.run(iter(objs)))
                same = len(out2) == len(expected) and all(x is objs[i] for x, i in zip(out2, expected))
                out3 = list(el.run(list(range(n))))
                if out3 != expected:
                    bad = True
                    ctx.violation("Slice.run:container-flow:branch=%s" % rec["branch"],
                                  {"args": repr(args), "flow": "list(range(%d))" % n, "expected": expected,
                                   "observed": out3})
            except Exception as exc:       # noqa
                out2, same = "raised " + exc_name(exc), False
            if not same:
                bad = True
                ctx.violation("Slice.run:odd-values:branch=%s" % rec["branch"],
                              {"args": repr(args), "flow": repr(objs), "expected_positions": expected,
                               "observed": repr(out2)})
        # fill_into route for non-negative arguments
        if rec["fillstop"] != "na":
            el = lena.flow.Slice(*args)
            sink = lena.flow.StoreFilled()
            stop = None
            after_stop = None
            for i in range(n + 12):
                try:
                    el.fill_into(sink, i)
                except lena.core.LenaStopFill:
                    stop = i
                    break
                except Exception as exc:   # noqa
                    stop = "raised " + exc_name(exc)
                    break
            if isinstance(stop, int):
                # the stop point is final: a consumer that keeps offering values must not get any of them
                # filled (the element may raise LenaStopFill again or ignore them)
                before = list(sink.group)
                for i in range(stop, stop + 2 * (n + 14)):
                    try:
                        el.fill_into(sink, i)
                    except lena.core.LenaStopFill:
                        pass
                    except Exception as exc:   # noqa
                        after_stop = "raised " + exc_name(exc)
                        break
                if after_stop is None and sink.group != before:
                    after_stop = "filled %r after LenaStopFill at %d" % (sink.group[len(before):], stop)
                del sink.group[len(before):]
                if after_stop:
                    bad = True
                    ctx.violation("Slice.fill_into:after-stop", {"args": repr(args), "stop": stop,
                                                                 "observed": after_stop})
            lo = 0 if a is None else a
            st = 1 if s is None else s
            sel = lambda j: j >= lo and (b is None or j < b) and (j - lo) % st == 0
            if isinstance(stop, str):
                ok, exp_filled = False, None
            else:
                total = n + 12 if stop is None else stop
                exp_filled = [j for j in range(total) if sel(j)]
                ok = (sink.group == exp_filled
                      and (stop is None or not any(sel(j) for j in range(stop, stop + 80))))
            if not ok:
                bad = True
                ctx.violation("Slice.fill_into", {"args": repr(args), "filled": sink.group,
                                                  "stop": stop, "expected_filled": exp_filled})
    return not bad


def replay_iter(ctx, rec, lena):
    kind, p1, p2, n = rec["kind"], rec["p1"], rec["p2"], rec["n"]
    exp = rec["out"]
    got = {}
    try:
        if kind == "reverse":
            rv = lena.flow.Reverse()
            got["Reverse"] = list(rv.run(iter(range(n))))
            got["Reverse:second-run"] = list(rv.run(iter(range(n))))
            # two runs of one element alive at the same time (an element used in two branches or
            # pipelines): each run has its own buffer
            g1, g2 = rv.run(iter(range(n))), rv.run(iter(range(100, 100 + n + 1)))
            first = list(itertools.islice(g1, 1))
            other = list(g2)
            got["Reverse:interleaved-runs"] = first + list(g1)
            if other != list(range(100 + n, 99, -1)):
                got["Reverse:interleaved-runs"] = {"second generator": other}
        elif kind == "chain":
            its = [[(i + 1, j) for j in range(m)] for i, m in enumerate((p1, p2, n))]
            exp = [tuple(x) for x in exp]
            ch = lena.flow.Chain(*its)
            got["Chain"] = list(ch())
            # the element is a Source: every call generates the chain of its (re-iterable) arguments anew
            got["Chain:second-call"] = list(ch())
            g1, g2 = ch(), ch()
            inter = [list(itertools.islice(g1, 1)), list(g2), list(g1)]
            got["Chain:interleaved-calls:first"] = inter[0] + inter[2]
            got["Chain:interleaved-calls:second"] = inter[1]
            got["Chain(iter)"] = list(lena.flow.Chain(*[iter(x) for x in its])())
        elif kind == "count":
            cf = lena.flow.CountFrom(p1, p2)
            got["CountFrom"] = list(itertools.islice(cf(), n))
            got["CountFrom:second-call"] = list(itertools.islice(cf(), n))
            # the machine counts by repeated addition (CountStep: v' = v + step), which is what
            # itertools.count does; with binary floats that differs from start + i*step, so the same
            # action sequence is replayed in float arithmetic on scaled arguments
            for scale in (0.1, 1e16 + 2.0, 1e-3, 1.0 / 3.0):
                fs, fp = p1 * scale, p2 * scale
                ref, v = [], fs
                for _ in range(n + 8):
                    ref.append(v)
                    v = v + fp
                obs = list(itertools.islice(lena.flow.CountFrom(fs, fp)(), n + 8))
                if obs != ref or obs != list(itertools.islice(itertools.count(fs, fp), n + 8)):
                    got["CountFrom(float)"] = "differs from repeated addition / itertools.count for start=%r step=%r: %r" % (fs, fp, obs)
        elif kind == "chunk":
            exp_t = [tuple(w) for w in exp]
            rc = lena.flow.RunningChunkBy(p1)
            got["RunningChunkBy(tuple)"] = list(rc.run(iter(range(n))))
            got["RunningChunkBy(tuple):second-run"] = list(rc.run(iter(range(n))))
            g1, g2 = rc.run(iter(range(n))), rc.run(iter(range(50, 50 + n)))
            first = list(itertools.islice(g1, 1))
            list(g2)
            got["RunningChunkBy(tuple):interleaved-runs"] = first + list(g1)
            l = list(lena.flow.RunningChunkBy(p1, container=list, from_iterable=True).run(range(n)))
            got["RunningChunkBy(list)"] = [tuple(w) for w in l]
            nt = collections.namedtuple("W", ["f%d" % i for i in range(p1)])
            l = list(lena.flow.RunningChunkBy(p1, container=nt).run(iter(range(n))))
            got["RunningChunkBy(namedtuple)"] = [tuple(w) for w in l]
            if not all(isinstance(w, nt) for w in l):
                got["RunningChunkBy(namedtuple)"] = "wrong container type"
            exp = exp_t
    except Exception as exc:   # noqa
        got[kind] = "raised " + exc_name(exc)
    ok = True
    for name, val in got.items():
        if name == "CountFrom(float)":
            ok = False
            ctx.violation(name, {"scenario": rec, "observed": val})
            continue
        if val != exp:
            ok = False
            ctx.violation("%s" % name, {"scenario": rec, "expected": exp, "observed": val})
    return ok


def bad_steps(ctx, lena):
    """Other steps are rejected with LenaValueError at construction, whatever start and stop are."""
    n = 0
    rng = [None] + list(range(-7, 8))
    for step in (0, -1, -3, 2.5):
        for a in rng:
            for b in rng:
                n += 1
                try:
                    lena.flow.Slice(a, b, step)
                    res = "accepted"
                except lena.core.LenaValueError:
                    res = "LenaValueError"
                except Exception as exc:    # noqa
                    res = exc_name(exc)
                ctx.case(["badstep", a, b, step])
                if res != "LenaValueError":
                    ctx.violation("Slice.__init__:bad-step:%s" % res, {"args": [a, b, step], "observed": res})
    return n


def run(ctx):
    import lena.flow
    import lena.core
    import lena
    ctx.assume("flow values are the integers 0..n-1, so outputs identify input positions")
    # ---- design level
    ctx.mc("Slice", "Slice_mc.cfg", coverage=True,
           must_cover=("Start", "Skip", "Fill", "Lag", "Drain", "Emit", "Collect", "ISlice"))
    ctx.mc("Iterators", "Iterators_mc.cfg", coverage=True,
           must_cover=("ARevPop", "AChunkSlide", "AChainStep", "ACountStep"))
    # ---- spec -> code: every terminal state of the bounded model replayed on the real elements
    recs = ctx.export("Slice", "Slice_export.cfg", min_records=1000)
    for rec in recs:
        replay_slice(ctx, rec, lena)
        ctx.case(["slice", rec["a"], rec["b"], rec["s"], rec["n"]], nontrivial=rec["n"] > 0)
    ctx.sample({"spec_behaviour": recs[len(recs) // 2]})
    recs2 = ctx.export("Iterators", "Iterators_export.cfg", min_records=100)
    for rec in recs2:
        replay_iter(ctx, rec, lena)
        ctx.case(["iter", rec["kind"], rec["p1"], rec["p2"], rec["n"]], nontrivial=rec["n"] > 0)
    ctx.sample({"spec_behaviour": recs2[len(recs2) // 3]})
    bad_steps(ctx, lena)
    # ---- code -> spec: recorded runs beyond the exhaustive bounds, validated by Trace_Slice
    rnd = random.Random(ctx.seed)
    nrec = 20000 if ctx.thorough else 3000
    trace = []

    def pick(lo, hi):
        return NONE if rnd.random() < 0.2 else rnd.randint(lo, hi)
    for _ in range(nrec):
        a, b = pick(-25, 25), pick(-25, 25)
        s = NONE if rnd.random() < 0.3 else rnd.randint(1, 9)
        n = rnd.randint(0, 40)
        args = tuple(None if x == NONE else x for x in (a, b, s))
        if a >= 0 or a == NONE:
            if (b >= 0 or b == NONE) and rnd.random() < 0.5:
                el = lena.flow.Slice(*args)
                sink = lena.flow.StoreFilled()
                stop = NONE
                for i in range(n):
                    try:
                        el.fill_into(sink, i)
                    except lena.core.LenaStopFill:
                        stop = i
                        break
                    except Exception as exc:     # noqa
                        ctx.violation("Slice.fill_into:random:raised:" + exc_name(exc), {"args": repr(args), "n": n})
                        stop = None
                        break
                if stop is None:
                    continue
                trace.append({"op": "fill", "a": a, "b": b, "s": s, "n": n,
                              "filled": sink.group, "stop": stop})
                continue
        try:
            out = list(lena.flow.Slice(*args).run(iter(range(n))))
        except Exception as exc:     # noqa
            ctx.violation("Slice.run:random:raised:" + exc_name(exc), {"args": repr(args), "n": n})
            continue
        trace.append({"op": "run", "a": a, "b": b, "s": s, "n": n, "out": out})
    acc = ctx.validate("Trace_Slice", "Trace_Slice.cfg", trace)
    ctx.traces += acc
    ctx.evaluations += len(trace)
    for r in trace[:acc]:
        ctx.distinct.add(core.canon(r))
    if acc < len(trace):
        r = trace[acc]
        ctx.violation("Trace_Slice:%s:rejected" % r["op"], {"record": r, "index": acc})
    ctx.sample({"recorded_trace_record": trace[1]})
    # binding demonstration: a corrupted record must be rejected exactly there
    if acc == len(trace) and not ctx.violations:
        bad = [dict(r) for r in trace[:50]]
        k = next(i for i, r in enumerate(bad) if r["op"] == "run" and r["out"])
        bad[k] = dict(bad[k], out=bad[k]["out"][:-1])
        acc2 = ctx.validate("Trace_Slice", "Trace_Slice.cfg", bad, label="corrupt")
        if acc2 != k:
            raise core.MachineryError("trace spec does not bind: corrupted record %d, accepted %d" % (k, acc2))
        ctx.extra["binding_demo"] = "corrupted record %d of 50 rejected at index %d" % (k, acc2)
    return ctx.finish(
        rule="S2C: every (start, stop, step, n) of the bounded Slice model and every Iterators scenario, "
             "non-trivial = flow not empty; C2S: seeded random Slice runs/fills outside the bounds",
        exhaustive=True)
