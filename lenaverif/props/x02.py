"""X02  lena.math (meshes, utils, vector3) and the histogram helper functions do what their documentation says.

spec/MathFnsSem.tla    pure operators: mesh / refine_mesh / md_map / flatten / clip / isclose / check_edges_increasing /
                       get_bin_on_index ... written like the code, their documented meaning, vector ring operations
spec/MathFns.tla       one call per behaviour (16 functions): code-like evaluation = documentation (MeshDoc, RefineDoc,
                       FlattenDoc, MdMapDoc, ClipDoc, IsCloseDoc, CheckDoc, BinEdgesDoc, BinOnIndexDoc, ...)
spec/Vector3.tla       vector3 as a machine on one mutable vector: algebraic laws (commutativity, bilinearity, Lagrange,
                       triple product, rotation, spherical round trip) and in-place / new-vector semantics
spec/Trace_MathFns.tla validation of calls recorded on seeded random arguments
"""
import concurrent.futures
import random

from .. import histlib as hl
from .. import mathfnslib as ml

FN_ACTIONS = ("Mesh", "Refine", "Flatten", "MdMap", "MdMap2", "Clip", "IsClose", "IsCloseBad", "CheckEdges", "BinEdges",
              "BinOnIndex", "Example", "Unify", "InitBinsA", "CellStr", "HistContext")
VEC_ACTIONS = ("Algebra", "Metric", "Angles", "SetCoord", "SetR", "SetRho", "SetPhi", "SetTheta", "Spherical", "RotateA",
               "IsCloseA")


def strip(recs):
    return [dict((k, v) for k, v in r.items() if k not in ("exp", "swapped")) for r in recs]


def corrupt(r):
    if r["k"] == "mesh" and len(r["v"]) > 2:
        v = [list(p) for p in r["v"]]
        v[1] = [v[1][0] + 1, v[1][1]]
        return dict(r, v=v)
    if r["k"] == "vector":
        return dict(r, dot=[r["dot"][0] + 1, r["dot"][1]])
    if r["k"] in ("isclose", "check"):
        return dict(r, ok=not r["ok"])
    return None


def trace_phase(ctx, recs):
    trace = strip(recs)
    rest = trace
    for _ in range(5):
        acc = ctx.trace_check("Trace_MathFns", "Trace_MathFns.cfg", rest, lambda r: r["k"], sample_at=len(rest) // 2)
        if acc >= len(rest):
            break
        rest = rest[acc + 1:]
    for kind in ("mesh", "vector", "isclose"):
        sub = [r for r in trace if r["k"] == kind]
        if sub:
            ctx.binding_demo("Trace_MathFns", "Trace_MathFns.cfg", sub, corrupt, limit=60)


def misc(ctx, report):
    """HistCell: "A namedtuple with fields edges, bin, index"."""
    import lena.structures as S
    cell = S.HistCell(((0, 1), (2, 4)), 5, (0, 1))
    same = S.HistCell(index=(0, 1), bin=5, edges=((0, 1), (2, 4)))
    ok = (cell.edges == ((0, 1), (2, 4)) and cell.bin == 5 and cell.index == (0, 1) and cell == same
          and tuple(cell) == (((0, 1), (2, 4)), 5, (0, 1)) and S.HistCell._fields == ("edges", "bin", "index"))
    ctx.case(["HistCell"])
    if not ok:
        report("HistCell:fields", {"observed": repr(cell)})


def run(ctx):
    tag = "thorough" if ctx.thorough else "quick"
    rnd = random.Random(ctx.seed)
    report = hl.Reporter(ctx)
    ctx.assume("numbers are small rationals in the spec; results of ring operations on ints / dyadic floats are compared "
               "exactly, meshes with a non-dyadic step, square roots and angles within 1e-9 (documented as approximate)")
    ctx.assume("angles are given by rational (cos, sin) pairs; the harness passes atan2(sin, cos)")
    ctx.assume("where the documentation is silent (mesh with a reversed range or nbins = 0, irregular arrays in md_map, "
               "isclose on containers of different dimensions or mixed kinds, zero vectors in norm / angles, negative "
               "indices) nothing is demanded")
    pool = concurrent.futures.ThreadPoolExecutor(max_workers=6)
    try:
        f_fn = pool.submit(hl.mc_export, ctx, "MathFns", "MathFns_%s.cfg" % tag, must_cover=FN_ACTIONS, min_records=2000)
        f_v = pool.submit(ctx.mc, "Vector3", "Vector3_%s.cfg" % tag, coverage=True, must_cover=VEC_ACTIONS)
        f_v2 = pool.submit(ctx.mc, "Vector3", "Vector3_wide.cfg") if ctx.thorough else None
        f_ve = pool.submit(ctx.export, "Vector3", "Vector3_export.cfg", min_records=3000)
        f_vh = pool.submit(hl.export_generate, ctx, "Vector3", "Vector3_hist_export.cfg",
                           num=3000 if ctx.thorough else 500, depth=6, min_records=300)
        recs = ml.record_calls(rnd, 9000 if ctx.thorough else 1500, report)
        f_trace = pool.submit(trace_phase, ctx, recs)

        misc(ctx, report)
        state = {}
        frecs = f_fn.result()
        for k, rec in enumerate(frecs):
            ml.replay_case(ctx, rec, k, report, state)
            ctx.case(["call", rec["c"]], nontrivial=True)
        by_fn = {}
        for rec in frecs:
            by_fn.setdefault(rec["c"]["fn"], rec)
        ctx.extra["functions"] = sorted(by_fn)
        ctx.sample({"spec_call": by_fn.get("refine")})
        ctx.sample({"spec_call": by_fn.get("md_map")})
        for fut, what in ((f_ve, "vector_op"), (f_vh, "vector_history")):
            vrecs = fut.result()
            for k, rec in enumerate(vrecs):
                ml.replay_vector(ctx, rec, k, report)
                ctx.case([what, rec], nontrivial=True)
            ctx.sample({"spec_" + what: vrecs[len(vrecs) // 2]})
        f_v.result()
        if f_v2 is not None:
            f_v2.result()
        f_trace.result()
    finally:
        pool.shutdown(wait=True)
    return ctx.finish(
        rule="S2C: every case of MathFns.tla (16 functions: all ranges x nbins, refinements, trees of lists / tuples to "
             "depth 2-3, clip intervals incl. invalid ones, isclose with default / explicit tolerances and boundary "
             "perturbations in 5 container shapes, both argument orders, at several magnitudes, edge arrays, indices, "
             "cell names) and every single operation + generated 3-operation histories of Vector3.tla on 38 vectors x 9 "
             "other vectors x 5 scalars x 8 angles executed on lena; C2S: seeded random calls validated by Trace_MathFns",
        exhaustive=True)
