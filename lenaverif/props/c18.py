"""C18  Cache replays exactly the stored flow and never serves a truncated one.

spec/Cache.tla         files, dump / load runs, crash points, drop / recompute, hoisting; what the
                       statement leaves open (state of a cache after an interrupted run) is
                       nondeterministic; invariants NoTruncated, LoadIsStored, LoadNoPull, ...
spec/Trace_Cache.tla   validation of the histories recorded from the real code
lenaverif/cachelib.py  instrumented source / taps, replay of command histories, sharded validation

S2C: TLC exports a transition cover of the state graph of the conforming design (every transition
with a shortest command history); each history is executed on real pipelines (all value styles,
pickle protocols and ways to start a run), continued to the end of an open run and followed by two
probing runs; the recorded observations must be a behaviour of Cache.tla (Design = "allowed").
`start` builds a new container (Sequence / Source / alter_sequence result / bare element / Split) around
the same elements; `restart` runs the SAME container object once more (model: rr = TRUE, Restart).
C2S: seeded random longer histories (with restarts), validated the same way.

Flow values: every data version is a sequence of value codes (FRESH / DUP / special value k) chosen by TLC from the
data profiles of the configuration; the harness binds FRESH to the value style of the history, DUP to the same object
yielded once more and k to element k of a set of special values (None, exception instances, empty / falsy objects ...).
Kept runs (model: hd = TRUE): `stop keep` - the consumer keeps the iterator of a stopped run; `raise` with c = 1 - the
caller keeps the exception object (its traceback keeps the generators upstream of the raising element suspended);
`release` drops everything kept.  Later runs start while the stopped run is still suspended, and after it was released.
In-place modification downstream (model: mu = TRUE): the consumer modifies every value it has received in place (values
with a mutable part), in first runs and replays alike; the histories of that part replay one Cache object completely
several times (memo[c].n; new containers around it, the same container / hoisted Source once more), then fresh Cache
objects on the same files twice; every replay must yield the values as they were when they passed the cache in the
filling run (a value that comes back modified is recorded as 10000 * marks + value: no behaviour of the spec).
Cache_memo.cfg: the design that keeps the objects of a complete replay in the Cache object is refuted by TLC.
"""
import pickle
import random

from .. import cachelib as cl
from .. import core

MUST =("NewAny", "DropAny", "ChangeData", "StartAny", "Restart", "Deliver", "Exhaust", "RaiseAt", "Stop", "BrokenRaise",
       "Release")
PROTOCOLS = (2, 0, 4, 3, pickle.HIGHEST_PROTOCOL)


def random_history(rnd):
    base = rnd.randint(0, 8)
    # flow length of each data version: mostly the same, sometimes empty, sometimes another one
    lens = [base if r < 0.55 else 0 if r < 0.8 else rnd.randint(0, 8) for r in (rnd.random() for _ in range(9))]
    # value codes: mostly values of their own; sometimes special values (None, ...) and repeated objects
    p_special = rnd.choice([0.0, 0.0, 0.15, 0.4])
    vk = [[rnd.randrange(4) if r < p_special else cl.DUP if r < 1.4 * p_special else cl.FRESH
           for r in (rnd.random() for _ in range(m))] for m in lens]
    nc = rnd.choice([1, 2, 2])
    shape = {"pre": rnd.random() < 0.6, "mid": nc == 2 and rnd.random() < 0.6, "post": rnd.random() < 0.6}
    sites = ["src", "pkl"] + [k for k in ("pre", "mid", "post") if shape[k]]
    cmds = [{"cmd": "new", "a": "", "rc": [rnd.random() < 0.25 for _ in range(nc)], "c": 0}]
    rc = cmds[0]["rc"]
    ver = 1
    started = False
    p_keep = rnd.choice([0.0, 0.3, 0.6])     # the consumer keeps the iterator / the exception of a stopped run
    nkept = 0
    for _ in range(rnd.randint(2, 8)):
        r = rnd.random()
        if nkept and rnd.random() < 0.3:
            cmds.append({"cmd": "release", "a": "", "rc": rc, "c": 0})
            nkept = 0
        if r < 0.25:
            rc = [rnd.random() < 0.3 for _ in range(nc)]
            cmds.append({"cmd": "new", "a": "", "rc": rc, "c": 0})
            started = False
        elif r < 0.4:
            cmds.append({"cmd": "drop", "a": "", "rc": rc, "c": rnd.randint(1, nc)})
        elif r < 0.6 and ver < 9:
            ver += 1
            cmds.append({"cmd": "data", "a": "", "rc": rc, "c": 0})
        if started and rnd.random() < 0.4:
            # the same container object once more
            cmds.append({"cmd": "restart", "a": "", "rc": rc, "c": 0})
        else:
            cmds.append({"cmd": "start", "a": rnd.choice(cl.FORMS), "rc": rc, "c": 0})
            started = True
        n = lens[ver - 1]
        end = rnd.random()
        if end < 0.45:      # complete run
            k, last = n + 1, None
        elif end < 0.75:    # the consumer stops after k values
            how = "keep" if rnd.random() < p_keep else rnd.choice(["close", "abandon"])
            k, last = rnd.randint(0, n), {"cmd": "stop", "a": how, "rc": rc, "c": 0}
            nkept += how == "keep"
        else:               # an element raises at value k + 1
            held = int(rnd.random() < p_keep)
            k, last = rnd.randint(0, max(0, n - 1)), {"cmd": "raise", "a": rnd.choice(sites), "rc": rc, "c": held}
            nkept += held
        cmds.extend({"cmd": "next", "a": "", "rc": rc, "c": 0} for _ in range(k))
        if last:
            cmds.append(last)
    # the consumer modifies the values in place (flows without a repeated object: the source would yield it modified)
    mu = rnd.random() < 0.4 and not any(k == cl.DUP for codes in vk for k in codes)
    return {"lens": lens, "vk": vk, "nc": nc, "shape": shape, "mu": mu}, cmds


def binding_demo(ctx):
    """Corrupt one recorded field of an accepted history: Trace_Cache must reject exactly there."""
    scen = {"lens": [2, 2], "vk": [[cl.FRESH, cl.FRESH], [cl.FRESH, cl.FRESH]], "nc": 1,
            "shape": {"pre": True, "mid": False, "post": True}}
    nx = {"cmd": "next", "a": "", "rc": [False], "c": 0}
    cmds = [{"cmd": "new", "a": "", "rc": [False], "c": 0}, {"cmd": "start", "a": "seq", "rc": [False], "c": 0},
            nx, nx, nx]
    import os
    import shutil
    d = cl.private_scratch(ctx)
    try:
        _binding_demo(ctx, d, scen, cmds)
    finally:
        shutil.rmtree(d, ignore_errors=True)


def _binding_demo(ctx, d, scen, cmds):
    import os
    os.makedirs(os.path.join(d, "fs"))
    ev = cl.run_history(os.path.join(d, "fs"), scen, cmds)
    good = dict(scen, ev=ev)
    # (a) a value of the first run altered; (b) a pull observed during a later (loading) run
    k1 = [i for i, e in enumerate(ev) if e["res"] == "val"][1]
    k2 = [i for i, e in enumerate(ev) if e["res"] == "val"][-1]
    plan = ((k1, "v", ev[k1]["v"] + 1), (k2, "pulled", 1))
    recs = [good]
    for k, field, val in plan:
        bad = dict(scen, ev=[dict(e) for e in ev])
        bad["ev"][k][field] = val
        recs.append(bad)
    rejected, stats = cl.validate_shard(d, recs, "demo")      # one TLC run for the original and both corruptions
    for st in stats:
        ctx._account("trace", "Trace_Cache", st["cfg"], cl._Res(st))
        if st["exit"] != 0:
            raise core.MachineryError("binding demo: TLC failed: %s" % st["tail"])
    if 0 in rejected:
        # the implementation itself misbehaves on this simple history (reported elsewhere): no demo
        ctx.extra.setdefault("binding_demo", []).append("skipped: the uncorrupted history was rejected")
        return
    if rejected != {1: k1, 2: k2}:
        raise core.MachineryError("Trace_Cache does not bind: corrupted events %d and %d, rejected %r" % (k1, k2, rejected))
    ctx.extra.setdefault("binding_demo", []).extend(
        "Trace_Cache: event %d of %d with %s corrupted rejected at index %d; uncorrupted history accepted"
        % (k, len(ev), field, k) for k, field, _ in plan)


def run(ctx):
    tag = "thorough" if ctx.thorough else "quick"
    ctx.assume("pre / mid / post are one-to-one harness elements (tagging, counting, raising on demand); "
               "flow values are picklable values in nine styles (int, (data, context), str, nested, context only, falsy objects, "
               "one context dict updated in place for every value, one growing list object, values with internal sharing - "
               "one str / tuple object at several places, always stored with protocol 4 or the highest), each identified by "
               "its snapshot at the moment it is yielded; the flow length depends on the data version; pickle protocols "
               "0, 2, 3, 4 and the highest; an element that raises raises an Exception, a plain BaseException subclass, "
               "KeyboardInterrupt or SystemExit; the two caches of a pipeline are named c1.v1.ü.pkl + sub/c2.pkl, "
               "events.raw + events.sel, events + events.pkl or store/cache + store/cache.v2; a flow may contain special "
               "values (six sets of four: None, EOFError() / StopIteration() instances, the EOFError class, b'', '', 0, 0.0, "
               "False, (), [], frozenset(), Ellipsis, NotImplemented, '.', a bytes object that is a complete pickle) and the "
               "same object twice in a row, at the positions the data profile of the model says")
    ctx.assume("a consumer that stops pulling may keep the iterator, and a caller may keep the exception of a failed run "
               "(with its traceback), while later runs use the same caches; dropping them later (release) may leave a "
               "cache as it is, remove it or make it unreadable - it never makes loadable what was not stored by a "
               "complete run; a kept run is not resumed after other runs, and nothing is released while a run is open")
    ctx.assume("a cache left by an interrupted run may be kept, removed, refused with an exception by a later "
               "run, or hold the complete flow - everything except a loadable proper prefix is accepted")
    ctx.assume("a container that alter_sequence built from a filled cache (a Source without the upstream) and that is "
               "run again after drop_cache() on that cache may only raise: it has nothing to load and nothing to recompute from")
    ctx.assume("mu = TRUE: the consumer modifies every value in place after it has received it (one more mark on the dict / "
               "list objects at the top of the value or inside its tuples, as an element updating the context does); the "
               "values of those histories have a mutable part and are new objects (styles pair, nested, ctxonly, shared)")
    ctx.mc("Cache", "Cache_%s.cfg" % tag, coverage=True, must_cover=MUST)
    # sensitivity guard: a design that keeps the objects of a complete replay in the Cache object and yields them
    # again (as modified downstream since) must be refuted
    memo = ctx.mc("Cache", "Cache_memo.cfg", workers=2, expect_violation="report")
    if memo.exit == 0 or memo.violated != "LoadIsStored":
        raise core.MachineryError("Cache_memo.cfg (Design = memo) does not violate LoadIsStored (exit %s, %s)"
                                  % (memo.exit, memo.violated))
    ctx.extra["model_of_memoising_design"] = "Design=memo with an in-place modifying consumer: TLC refutes LoadIsStored"
    if ctx.thorough:
        # the design of the pinned code (values written to the final name while yielding) in the same model
        pinned = ctx.mc("Cache", "Cache_pinned.cfg", expect_violation="report")
        ctx.extra["model_of_pinned_design"] = (
            "Design=final_name: TLC refutes %s" % pinned.violated if pinned.violated else
            "Design=final_name: no invariant refuted")
    # ---- spec -> code
    recs = ctx.export("Cache", "Cache_%s_export.cfg" % tag, min_records=1000)
    paths = [p for p in cl.cover_paths(recs) if p[1][-1]["cmd"] not in ("new", "data")]
    ctx.extra["exported_transitions"] = len(recs)
    ctx.extra["command_histories"] = len(paths)
    del recs
    ctx.sample({"exported_command_history": {"scenario": paths[len(paths) // 2][0],
                                             "commands": [[c["cmd"], c["a"] or c["c"] or c["rc"]]
                                                          for c in paths[len(paths) // 2][1]]}})
    # (mu = TRUE: values with a mutable part)
    items = [(scen, cmds, (cl.MUT_STYLES[i % len(cl.MUT_STYLES)] if scen.get("mu") else cl.STYLES[i % len(cl.STYLES)]),
              PROTOCOLS[(i // len(cl.STYLES)) % len(PROTOCOLS)])
             for i, (scen, cmds) in enumerate(paths)]
    # (a Split materialises its input, so the styles with ONE object mutated in place cannot pass through it:
    # the histories with a Split use the other styles)
    fallback = [s for s in cl.STYLES if s not in cl.ALIAS_STYLES]
    items = [(scen, cmds, fallback[i % len(fallback)], prot)
             if style in cl.ALIAS_STYLES and any(c["cmd"] == "start" and c["a"] == "split" for c in cmds)
             else (scen, cmds, style, prot) for i, (scen, cmds, style, prot) in enumerate(items)]
    # explicit dimensions: values with internal sharing always go through a memoizing protocol (4 or the
    # highest); the class of the injected exception rotates over the histories in which an element raises;
    # the pair of cache file names rotates over the histories with two caches
    nraise = ntwo = nspec = 0
    full = []
    for i, (scen, cmds, style, prot) in enumerate(items):
        if style == "shared":
            prot = (4, pickle.HIGHEST_PROTOCOL)[(i // len(cl.STYLES)) % 2]
        opts = {"names": 0, "exc": "exc", "specials": 0}
        if any(k >= 0 for codes in scen["vk"] for k in codes):
            opts["specials"] = nspec % len(cl.SPECIAL_SETS)
            nspec += 1
        if any(c["cmd"] == "raise" for c in cmds):
            opts["exc"] = cl.EXC_KINDS[nraise % len(cl.EXC_KINDS)]
            nraise += 1
        if scen["nc"] == 2:
            opts["names"] = ntwo % len(cl.NAME_PAIRS)
            ntwo += 1
        full.append((scen, cmds, style, prot, opts))
    items = full
    ctx.extra["histories_with_restart"] = sum(1 for _s, cmds in paths if any(c["cmd"] == "restart" for c in cmds))
    ctx.extra["histories_with_kept_run"] = sum(1 for _s, cmds in paths if any(
        (c["cmd"] == "stop" and c["a"] == "keep") or (c["cmd"] == "raise" and c["c"] == 1) for c in cmds))
    mu_paths = [cmds for scen, cmds in paths if scen.get("mu")]
    ctx.extra["histories_with_in_place_modifying_consumer"] = len(mu_paths)

    def complete_runs(cmds):
        """Largest number of consecutive complete runs through one set of Cache objects (the model starts a run only
        when the one before has ended: without a stop / raise it was exhausted; the last one is continued to its end)."""
        best = cur = 0
        for c in cmds:
            if c["cmd"] in ("start", "restart"):
                cur += 1
                best = max(best, cur)
            elif c["cmd"] != "next":
                cur = 0
        return best
    nrep = [complete_runs(cmds) for cmds in mu_paths]
    ctx.extra["histories_with_two_or_more_complete_replays_of_one_cache_object"] = sum(1 for k in nrep if k >= 3)
    if not any(k >= 3 for k in nrep) or not any(k >= 3 and any(c["cmd"] == "restart" for c in cmds)
                                               for k, cmds in zip(nrep, mu_paths)):
        raise core.MachineryError("vacuous export: no history with an in-place modifying consumer replays one Cache "
                                  "object completely twice (new containers / the same container)")
    ctx.extra["histories_with_special_or_repeated_values"] = sum(
        1 for scen, _c in paths if any(k != cl.FRESH for codes in scen["vk"] for k in codes))
    # ---- code -> spec: random longer histories (validated in the same wave of TLC runs)
    rnd = random.Random(ctx.seed)
    for i in range(6000 if ctx.thorough else 400):
        scen, cmds = random_history(rnd)
        items.append((scen, cmds, rnd.choice(cl.STYLES), rnd.choice(PROTOCOLS),
                      {"names": rnd.randrange(len(cl.NAME_PAIRS)), "exc": rnd.choice(cl.EXC_KINDS),
                       "specials": rnd.randrange(len(cl.SPECIAL_SETS))}))
    cl.check_histories(ctx, items, "replay")
    binding_demo(ctx)
    return ctx.finish(
        rule="S2C: every transition of the state graph of Cache.tla (conforming design) reached by a shortest "
             "command history, executed on real Sequence / Source / alter_sequence / bare element / Split-branch pipelines with 1-2 caches, continued "
             "to the end of the run and probed by one more run; every reachable state with a kept container object "
             "(Sequence, Source, hoisted Source, bare Cache, Split) continued by a run of the SAME object; every reachable state "
             "with a stopped run kept suspended (iterator or exception kept) continued by later runs and by the release of what was kept; "
             "flows with special values (None, ...) and repeated objects at the positions of the data profiles; "
             "C2S: seeded random histories (flows <= 8, <= 8 runs, kept runs, special values); "
             "every recorded history validated by Trace_Cache.tla; non-trivial = non-empty flow and more than 3 events",
        exhaustive=True)
