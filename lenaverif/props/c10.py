"""C10  Elements pass values they do not select through unchanged.

spec/Selective.tla        generic selective element (Consume / PassUnselected / EmitSel / FsSel / Launch / Flush),
                          invariants UnselIdentityOrder, SelIndependent, NoFsForUnsel, Metamorphic
                          (run(interleave(A, B)) = interleave(run(A), B))
spec/Trace_Selective.tla  validation of event logs recorded from the real elements
spec/SelectiveValue.tla   the anatomy of one value in front of a selective element: data kind (plain, of the element's
                          type, with parts that carry contexts, a one-shot source) x shape of the context along the
                          option path of the element (absent / cut by a non-dictionary at any level / leaf values) x
                          selection rule; declarative Verdict, operational Split / Descend / DataTest / Decide / Pass,
                          invariants LookupAgrees, DecisionAgrees, UnselUntouched
spec/Trace_SelectiveValue.tla  what the real elements did to each such value (same object, cells touched, source
                          advanced, raised) validated against that machine
lenaverif/selectivelib.py the ten elements with selected / unselected samples, audit hook, stub converters
"""
import concurrent.futures
import os
import random
import shutil

from .. import core
from .. import selectivelib as sl
from ..util import exc_name

SYNC_ACTIONS = ("Consume", "PassUnselected", "EmitSel", "FsSel", "DoneSel", "EndInput", "Finish")
ASYNC_ACTIONS = ("Consume", "FlushAny", "PollDone", "PassUnselected", "EmitSel", "Launch", "EndInput", "Finish")
VALUE_ACTIONS = ("Split", "Descend", "DataTest", "Decide", "Pass", "Transform")


def event_kind(trace, k):
    ev = trace[k]
    if ev["ev"] == "out":
        if ev["k"] == "m":
            return "unselected-mutated", ev["w"]
        if ev["k"] == "u":
            return "unselected-out-of-place", ev["w"]
        return ("selected-result-differs" if ev["i"] == 0 else "selected-result-misplaced"), ev["w"]
    if ev["ev"] == "fs":
        return "fs-for-unselected:" + ev["op"], ev["w"]
    if ev["ev"] == "in":
        prev = [e for e in trace[:k] if e["ev"] == "in"]
        return "value-not-yielded", (prev[-1]["w"] if prev else ev["w"])
    if ev["ev"] == "end":
        if ev.get("raised"):
            prev = [e for e in trace[:k] if e["ev"] == "in"]
            return "run-raised:" + ev["raised"], (prev[-1]["w"] if prev else "")
        if ev.get("mutated"):
            return "unselected-mutated", ev["mutated"][0]
        if not ev.get("fsok", True):
            return "fs-state-differs", ""
        return "missing-output", ""
    return ev["ev"], ev.get("w", "")


def strip(trace):
    """What TLC sees: no harness-only fields."""
    out = []
    for e in trace:
        out.append(dict((k, v) for k, v in e.items() if k not in ("val", "path")))
    return out


def validate_all(ctx, scens):
    """scens: list of (element name, Scenario, trace).  One TLC run over all traces; on rejection the scenario's
    root cause (element, sample) is reported, scenarios with the same cause are set aside, and the rest is
    validated again."""
    remaining = list(scens)
    rounds = 0
    while remaining and rounds < 12:
        rounds += 1
        flat, starts = [], []
        for name, sc, tr in remaining:
            starts.append(len(flat))
            flat.extend(strip(tr))
        acc = ctx.validate("Trace_Selective", "Trace_Selective.cfg", flat, label="selective")
        if acc >= len(flat):
            ctx.traces += len(remaining)
            for name, sc, tr in remaining:
                ctx.distinct.add(core.hashlib.md5(core.canon(strip(tr)).encode()).hexdigest())
            return flat
        s = max(i for i, st in enumerate(starts) if st <= acc)
        ctx.traces += s
        name, sc, tr = remaining[s]
        k = acc - starts[s]
        kind, sample = event_kind(tr, k)
        detail = {"element": name, "pattern": sc.pattern, "selected": sc.anames, "unselected": sc.bnames,
                  "rejected_event_index": k, "rejected_event": tr[k], "events": tr[max(0, k - 6):k + 1]}
        if kind == "fs-state-differs":
            detail["fs_difference"] = getattr(sc, "fsdiff", None)
        ctx.violation("%s:%s:%s" % (name, kind, sample), detail)

        # one report per element and validation round: the other scenarios of this element are set aside
        # (the position-only layout comparison above has already reported per sample), the rest is validated again
        remaining = [it for it in remaining[s + 1:] if it[0] != name]
    if remaining and rounds >= 12:
        ctx.extra["trace_validation_note"] = "%d scenarios not re-validated after 12 rejections" % len(remaining)
    return None


def value_kind(rec):
    if rec["raised"]:
        return "raised"
    if not rec["same"]:
        return "not-passed"
    if rec["cursor"]:
        return "source-consumed"
    if rec["touched"]:
        return "touched-" + "-".join(rec["touched"])
    return "rejected"


def validate_values(ctx, vrecs):
    """vrecs: list of (element name, sample name, record).  One TLC run of Trace_SelectiveValue over all records; a
    rejected record is reported, the other records of that element are set aside, the rest is validated again."""
    remaining = list(vrecs)
    rounds = 0
    while remaining and rounds < 12:
        rounds += 1
        flat = [r for _, _, r in remaining]
        acc = ctx.validate("Trace_SelectiveValue", "Trace_SelectiveValue.cfg", flat, label="values")
        ctx.traces += min(acc, len(flat))
        if acc >= len(flat):
            return flat
        name, sample, rec = remaining[acc]
        ctx.violation("%s:value-%s:%s" % (name, value_kind(rec), sample),
                      {"element": name, "sample": sample, "observation": rec,
                       "legend": "the value is unselected under the rule of the element (SelectiveValue.tla Verdict): it "
                                 "must be yielded as the same object, no cell (ctx, data, parts) touched, its one-shot "
                                 "source not advanced, nothing raised"})
        remaining = [it for it in remaining[acc + 1:] if it[0] != name]
    return None


def run(ctx):
    import lena   # noqa  (the tree under test must be importable)
    rnd = random.Random(ctx.seed)
    tag = "thorough" if ctx.thorough else "quick"
    ctx.assume("the ten elements are per-value generator loops: what is yielded between two pulls of the input "
               "belongs to the value pulled last (laziness itself is C02); file-system / process events are those "
               "reported by sys.addaudithook in the scratch directory, writes and process starts anywhere")
    ctx.assume("LaTeXToPDF runs a stub command (cp) through create_command, PDFToPNG a stand-in pdftoppm first on PATH")
    # ------------------------------------------------------------------ design level
    # the four model-checking runs are independent of the replay: they run beside it and are joined at the end
    mcpool = concurrent.futures.ThreadPoolExecutor(max_workers=9)
    # the exports are needed first: they are started before the model-checking runs
    exports = [mcpool.submit(ctx.export, mod, cfg, min_records=m) for mod, cfg, m in (
        ("Selective", "Selective_%s_export.cfg" % tag, 500), ("Selective", "Selective_rep_export.cfg", 100),
        ("Selective", "Selective_cut_export.cfg", 100), ("SelectiveValue", "SelectiveValue_%s_export.cfg" % tag, 300))]
    mcruns = [mcpool.submit(ctx.mc, mod, cfg, coverage=True, must_cover=cover) for mod, cfg, cover in (
        ("Selective", "Selective_%s.cfg" % tag, SYNC_ACTIONS), ("Selective", "Selective_async_%s.cfg" % tag, ASYNC_ACTIONS),
        ("Selective", "Selective_rep.cfg", SYNC_ACTIONS),
        ("Selective", "Selective_cut.cfg", ASYNC_ACTIONS + ("EndFirstRun", "StartSecond", "Abort")),
        ("SelectiveValue", "SelectiveValue_%s.cfg" % tag, VALUE_ACTIONS))]
    try:
        recs, recs_rep, recs_cut, verdicts = [f.result() for f in exports]
    except BaseException:
        mcpool.shutdown(wait=True)
        raise
    expected = {}
    maxfan = 0

    def xkey(pat, fan, bobj, cut, kind):
        return (tuple(bool(x) for x in pat), tuple(fan), tuple(bobj), cut, kind if cut else "end")
    for r in recs + recs_rep + recs_cut:
        expected[xkey(r["pat"], r["fan"], r["bobj"], r["cut"], r["kind"])] = [(o["k"], o["i"]) for o in r["out"]]
        maxfan = max([maxfan] + list(r["fan"]))
    patterns = sorted(set(tuple(r["pat"]) for r in recs), key=lambda p: (len(p), [not x for x in p]))
    # scenario kinds of the audit: the same unselected object twice; the flow fed in two runs of one element object
    rep_scen = sorted(set((tuple(r["pat"]), tuple(r["bobj"])) for r in recs_rep
                          if list(r["bobj"]) != list(range(1, len(r["bobj"]) + 1))))
    cut_scen = sorted(set((tuple(r["pat"]), r["cut"], r["kind"]) for r in recs_cut if r["cut"]))
    ctx.sample({"spec_behaviour": recs[len(recs) // 2]})
    ctx.sample({"spec_value_verdict": next(v for v in verdicts if v["ck"] == "cut" and v["verdict"] == "unselected")})

    # ------------------------------------------------------------------ the real elements
    scratch = os.path.join(ctx.workdir, "scratch")
    bindir = os.path.join(ctx.workdir, "bin")
    sl.make_fake_pdftoppm(bindir)
    oldpath = os.environ.get("PATH", "")
    os.environ["PATH"] = bindir + os.pathsep + oldpath
    specs = sl.element_specs()
    scens = []
    vrecs = []
    vshapes = {}
    used_b = {}
    layout_seen = set()
    try:
        for spec in specs:
            anames_all = [n for n, _ in spec.A]
            bnames_all = [n for n, _ in spec.B]
            audit_cfg = spec.name in sl.AUDIT_CONFIGS
            # quick tier: the configurations added by the audit get the short patterns only
            todo = [(p, False) for p in patterns if ctx.thorough or not audit_cfg or len(p) <= 3]
            # C2S: longer random interleavings
            for _ in range(40 if ctx.thorough else (2 if audit_cfg else 6)):
                na = rnd.randint(1, 3 if spec.is_async else 6)
                nb = rnd.randint(1, 8)
                p = [True] * na + [False] * nb
                rnd.shuffle(p)
                todo.append((tuple(p), True))
            # every unselected sample once right BEFORE all selected samples (an unselected value whose context
            # carries an option key must not influence later selected values that lack the key), and once between them
            lead = [((False,) + (True,) * min(3, len(anames_all)), b) for b in bnames_all]
            if ctx.thorough:
                lead += [((True, False) + (True,) * (min(3, len(anames_all)) - 1), b) for b in bnames_all
                         if len(anames_all) > 1]
            else:
                # quick: the second placement only for the samples whose context carries option keys / names
                lead += [((True, False) + (True,) * (min(3, len(anames_all)) - 1), b) for b in bnames_all
                         if len(anames_all) > 1 and not audit_cfg and any(t in b for t in (
                             "duplicate", "changed", "template", "value_key", "variable_key", "output_keys", "already"))]
            todo = [(p, False, None) for p, _ in todo if not _] + [(p, False, b) for p, b in lead] + \
                   [(p, True, None) for p, r in todo if r]
            todo = [t + (None, 0, "end") for t in todo]
            si = specs.index(spec)
            nrep = len(rep_scen) if ctx.thorough else (3 if audit_cfg else 6)
            ncut = len(cut_scen) if ctx.thorough else (4 if audit_cfg else 10)
            # a deterministic slice that differs between configurations (together they cover every exported scenario)
            todo += [(p, False, None, bo, 0, "end") for p, bo in (rep_scen[si::max(1, len(rep_scen) // nrep)])[:nrep]]
            todo += [(p, False, None, None, c, kd) for p, c, kd in (cut_scen[si::max(1, len(cut_scen) // ncut)])[:ncut]]
            # value anatomy: every value shape that SelectiveValue.tla calls unselected under the rule of this element,
            # several of them interleaved with selected samples (quick tier: a third of them for the audit configurations)
            spec.G = sl.anatomy_values(spec, verdicts)
            if not spec.G:
                raise core.MachineryError("no value shapes for %s" % spec.name)
            gsel = spec.G if (ctx.thorough or not audit_cfg) else spec.G[si % 3::3]
            # (elements that start a process for every selected value get one selected sample per scenario)
            costly = spec.is_async or spec.name.startswith("PDFToPNG")
            gchunk = 5 if ctx.thorough else 8
            for c in range(0, len(gsel), gchunk):
                names = [n for n, _, _ in gsel[c:c + gchunk]]
                p = [True] * min((2 if costly else 3) if ctx.thorough else (1 if costly else 2), len(anames_all)) + \
                    [False] * len(names)
                rnd.shuffle(p)
                todo.append((tuple(p), True, names, None, 0, "end"))
            for pi, (pat, is_random, forced_b, bobj, cut, ckind) in enumerate(todo):
                na, nb = sum(1 for x in pat if x), sum(1 for x in pat if not x)
                if spec.is_async and na > len(anames_all):
                    continue        # converter results are attributed by file name: no duplicates
                anames = [anames_all[(pi + k) % len(anames_all)] for k in range(na)]
                bnames = [bnames_all[(pi * 3 + k) % len(bnames_all)] for k in range(nb)]
                if isinstance(forced_b, list):
                    bnames = list(forced_b)
                elif forced_b is not None:
                    anames = anames_all[:na]
                    bnames = [forced_b]
                if bobj is not None:
                    for k, first in enumerate(bobj):
                        bnames[k] = bnames[first - 1]
                sc = sl.Scenario(spec, pat, anames, bnames, os.path.join(scratch, spec.name), bobj=bobj, cut=cut, kind=ckind)
                trace = sc.run()
                ctx.case([spec.name, list(pat), anames, bnames, bobj, cut, ckind], nontrivial=na > 0 and nb > 0)
                if (spec.is_async and not is_random and bobj is None and na > 0 and len(pat) > 1 and trace is not None
                        and (ctx.thorough or spec.name in ("LaTeXToPDF", "LaTeXToPDF_fail"))):
                    # the same scenario under the waiting schedule: every job has exited before the next value
                    # is consumed, so a finished or FAILED job is noticed while a later value is handled
                    scw = sl.Scenario(spec, pat, anames, bnames, os.path.join(scratch, spec.name), bobj=bobj, cut=cut,
                                      kind=ckind, wait=True)
                    tracew = scw.run()
                    ctx.case([spec.name, "waiting", list(pat), anames, bnames, cut, ckind], nontrivial=nb > 0)
                    for kind, sample, what in scw.problems:
                        ctx.violation("%s:%s:%s:%s" % (spec.name, kind, what.split("(")[0], sample),
                                      {"element": spec.name, "pattern": list(pat), "selected": anames,
                                       "unselected": bnames, "exception": what, "schedule": "waiting"})
                    if tracew is not None:
                        scens.append((spec.name, scw, tracew))
                    vrecs.extend((spec.name, n, r) for n, r in scw.vrecords)
                for kind, sample, what in sc.problems:
                    if isinstance(forced_b, list):
                        # generated value shapes: one report per element and kind of failure
                        if (spec.name, kind, what.split("(")[0]) in layout_seen:
                            continue
                        layout_seen.add((spec.name, kind, what.split("(")[0]))
                    ctx.violation("%s:%s:%s:%s" % (spec.name, kind, what.split("(")[0], sample),
                                  {"element": spec.name, "pattern": list(pat), "selected": anames,
                                   "unselected": bnames, "exception": what})
                vrecs.extend((spec.name, n, r) for n, r in sc.vrecords)
                for n, r in sc.vrecords:
                    vshapes.setdefault((r["d"], r["ck"]), set()).add(spec.name)
                if trace is None:
                    continue
                for b in bnames:
                    used_b.setdefault(spec.name, set()).add(b)
                scens.append((spec.name, sc, trace))
                # S2C: the layout TLC exports for this interleaving and fan-out (synchronous elements)
                key = xkey(pat, sc.fan, sc.bobj, cut, ckind)
                if not spec.is_async and key in expected:
                    obs = [(e["k"], e["i"]) for e in trace if e["ev"] == "out"]
                    exp = expected[key]
                    if obs != exp:
                        d = next((i for i in range(min(len(obs), len(exp))) if obs[i] != exp[i]), min(len(obs), len(exp)))
                        outs = [e for e in trace if e["ev"] == "out"]
                        w = outs[d]["w"] if d < len(outs) else "end"
                        kind = "%s-where-%s" % (obs[d][0] if d < len(obs) else "nothing",
                                                exp[d][0] if d < len(exp) else "nothing")
                        # one report per element and kind of mismatch (patterns come smallest first)
                        if (spec.name, kind) not in layout_seen:
                            layout_seen.add((spec.name, kind))
                            ctx.violation("%s:layout:%s:%s" % (spec.name, kind, w),
                                          {"element": spec.name, "pattern": list(pat), "selected": anames,
                                           "unselected": bnames, "fan": sc.fan, "expected": exp, "observed": obs,
                                           "same_object_at": sc.bobj, "second_run_after": cut, "first_run": ckind,
                                           "legend": "u = the i-th unselected value itself, m = that object with "
                                                     "changed content, s = i-th reference result (0: none)"})
            missing = set(bnames_all) - used_b.get(spec.name, set())
            if missing:
                raise core.MachineryError("unselected samples never used for %s: %s" % (spec.name, sorted(missing)))
    finally:
        os.environ["PATH"] = oldpath
    ctx.extra["elements"] = dict((s.name, {"selected_samples": [n for n, _ in s.A],
                                           "unselected_samples": [n for n, _ in s.B], "rule": s.doc}) for s in specs)

    # ------------------------------------------------------------------ C2S: every recorded run judged by TLC
    flat = validate_all(ctx, scens)
    good = next((tr for n, sc, tr in scens if n == "Write" and len(tr) > 8), scens[0][2])
    ctx.sample({"recorded_run": strip(good)[:14]})
    demo = flat if flat is not None else strip(scens[0][2])

    def corrupt(r):
        if r.get("ev") == "out" and r.get("k") == "u":
            return dict(r, i=r["i"] + 1)
        return None
    if any(corrupt(r) for r in demo[:60]):
        ctx.binding_demo("Trace_Selective", "Trace_Selective.cfg", demo, corrupt, limit=60)
    # ------------------------------------------------------------------ C2S: what happened to every value shape
    need = set((v["d"], v["ck"]) for v in verdicts if v["verdict"] == "unselected" and v["depth"] <= 2)
    if need - set(vshapes):
        raise core.MachineryError("value shapes never met by a real element: %s" % sorted(need - set(vshapes)))
    vflat = validate_values(ctx, vrecs)
    ctx.extra["value_shapes"] = {"records": len(vrecs), "distinct_samples": len(set((e, n) for e, n, _ in vrecs)),
                                 "kinds": sorted("%s/%s" % k for k in vshapes)}
    if vflat is not None:
        ctx.sample({"recorded_value": next((r for r in vflat if r["ck"] == "cut"), vflat[0])})

        def corrupt_value(r):
            if r.get("d") == "lazy":
                return dict(r, cursor=1)        # the source of an unselected value has been advanced
            if r.get("ck") != "bare":
                return dict(r, touched=["ctx"])
            return None
        if any(corrupt_value(r) for r in vflat[:80]):
            ctx.binding_demo("Trace_SelectiveValue", "Trace_SelectiveValue.cfg", vflat, corrupt_value, limit=80)
    shutil.rmtree(scratch, ignore_errors=True)
    try:
        for f in mcruns:
            f.result()
    finally:
        mcpool.shutdown(wait=True)
    return ctx.finish(
        rule="S2C: every interleaving pattern of the bounded Selective model (|A|,|B| <= %d) for each of the eleven "
             "element configurations, unselected samples rotated so that each is used; the layout of the real output "
             "(identity of unselected values with `is`, selected results matched to the reference run on A alone) "
             "must equal TLC's exported layout; C2S: the event log of every run (pulls, yields, audit-hook events, "
             "final directory snapshot vs reference) plus %d longer random interleavings per element validated by "
             "Trace_Selective; value anatomy: every value shape SelectiveValue.tla calls unselected under the rule of an "
             "element (data kind x context shape along the element's option path) built for that element, run "
             "interleaved with selected samples, and what happened to it (same object, cells touched, one-shot source "
             "advanced, raised) validated by Trace_SelectiveValue; non-trivial = at least one selected and one "
             "unselected value" % (
                 4 if ctx.thorough else 3, 40 if ctx.thorough else 6),
        exhaustive=True)
