"""C12  Histogram and graph arithmetic, scaling and conversions keep every cell.

spec/HistOpsSem.tla   rationals; scale / set_nevents / add, graph.scale, the iterators, hist_to_graph and CSV rows
                      written like the code, and their declarative counterparts (CellList, CsvRef)
spec/HistOps.tla      histogram.scale (with the stored scale) / set_nevents / add as a machine: ScaleExact,
                      ScaleRecomputed, ZeroScaleRaises, NeventsSet, AddCellwise, AddOnlyEqualEdges, AddPure
spec/Graph.tla        graph.scale over every valid naming of 0..3 error fields: ScaleExact, UnknownScaleRaises
spec/Convert.tla      hist_to_graph, iter_bins, iter_bins_with_edges, iter_cells, CSV: OnePointPerCell, IteratorsAgree,
                      RangesChecked, CsvOneRowPerCell
spec/ConvFlow.tla     several values through ONE ToCSV / HistToGraph / ScaleTo object, each with its own context options, in
                      one or several run() calls: ElementStateless, RowCount (guards: ConvFlow_sticky_local / _self)
spec/Trace_HistOps.tla  validation of operations recorded on random float data (rational / rank encodings)
"""
import concurrent.futures
import random

from .. import core
from .. import histlib as hl
from .. import hist12lib as h12


def strip(recs, drop=("names", "exps")):
    return [dict((k, v) for k, v in r.items() if k not in drop) for r in recs]


def bump(p):
    return [p[0] + 1, p[1]]


def corrupt_hist(r):
    if r["k"] == "hist" and r["op"] == "scale" and r["ok"]:
        a = dict(r["a"])
        a["oor"] = bump(a["oor"])
        return dict(r, a=a)
    return None


def corrupt_graph(r):
    if r["k"] == "graph" and r["ok"]:
        g2 = dict(r["g2"])
        cols = [list(c) for c in g2["cols"]]
        cols[0][0] = bump(cols[0][0])         # the first coordinate must stay untouched... unless dim = 1
        g2["cols"] = cols
        return dict(r, g2=g2)
    return None


def corrupt_conv(r):
    if r["k"] == "conv" and r["op"] == "iter_bins" and len(r["cells"]) > 1:
        cells = list(r["cells"])
        cells[0], cells[1] = cells[1], cells[0]
        return dict(r, cells=cells)
    return None


def guarded(report, what, rec, fn, *args):
    """An exception that escapes a replay (none is expected to: the replays catch what the statement allows) is a
    verdict about the operation, not a machinery error."""
    try:
        fn(*args)
    except core.MachineryError:
        raise
    except Exception as exc:   # noqa
        report("%s:unexpected-exception:%s" % (what, type(exc).__name__), {"scenario": rec, "exception": repr(exc)[:300]})


def trace_phase(ctx, recs, kinds):
    trace = strip(recs)
    # a rejected record is reported and validation goes on behind it (bounded number of rounds)
    rest = trace
    default_op = {"graph": "scale", "addtol": "add-with-tolerance"}
    for _ in range(6):
        acc = ctx.trace_check("Trace_HistOps", "Trace_HistOps.cfg", rest,
                              lambda r: "%s:%s" % (r["k"], r.get("op", default_op.get(r["k"], ""))),
                              sample_at=len(rest) // 2)
        if acc >= len(rest):
            break
        rest = rest[acc + 1:]
    for kind, fn in (("hist", corrupt_hist), ("graph", corrupt_graph), ("conv", corrupt_conv),
                     ("addtol", lambda r: dict(r, ok=not r["ok"]))):
        if kind not in kinds:
            continue
        sub = [r for r in trace if r["k"] == kind]
        if sub:
            ctx.binding_demo("Trace_HistOps", "Trace_HistOps.cfg", sub, fn, limit=60)


def run(ctx):
    tag = "thorough" if ctx.thorough else "quick"
    rnd = random.Random(ctx.seed)
    report = hl.Reporter(ctx)
    ctx.assume("numbers that are multiplied are small rationals (exact in the spec); the implementation's floats are "
               "compared within a relative 1e-9 ('up to rounding'), CSV text within the printed precision 5e-7")
    ctx.assume("the stored histogram scale is used as documented: scale() returns it unless recompute=True; "
               "'recomputed scale = s' is demanded when the stored scale was current")
    ctx.assume("add of histograms with different edges must not return a result (any exception is accepted); 'equal "
               "edges' is the documented approximate equality (lena.math.isclose with edges_abs_tol=0, edges_rel_tol=1e-9 "
               "unless given), checked at magnitudes 2^-990 .. 2^990 with perturbations that are exact in floating point")
    pool = concurrent.futures.ThreadPoolExecutor(max_workers=10)
    try:
        # ---- design level (+ exports)
        f_mc1 = pool.submit(ctx.mc, "HistOps", "HistOps_%s.cfg" % tag, coverage=True,
                            must_cover=("GetScale", "Scale", "SetNevents", "ToGraphScale", "Add", "AddTol"))
        # (the export configurations carry the properties too: in the quick tier they are the model checking of the
        #  graph machine and of the scale sequences; the thorough tier adds the larger configurations)
        f_mc2 = pool.submit(ctx.mc, "Graph", "Graph_thorough.cfg", coverage=True,
                            must_cover=("GetScale", "Scale")) if ctx.thorough else None
        f_conv = pool.submit(hl.mc_export, ctx, "Convert", "Convert_%s.cfg" % tag,
                             must_cover=("ToGraph", "IterBins", "IterBinsWithEdges", "IterCells", "Csv", "Csv3d"), min_records=1000)
        f_h1 = pool.submit(ctx.export, "HistOps", "HistOps_export.cfg", min_records=3000)
        f_h2 = pool.submit(hl.export_generate, ctx, "HistOps", "HistOps_hist_export.cfg",
                           num=5000 if ctx.thorough else 500, depth=8, min_records=300)
        # every order of scale() / scale(recompute) / scale(s) / set_nevents / c = a.add(b) (go on with c), length 4 (5)
        seq_acts = ("GetScale", "Scale", "SetNevents", "ToGraphScale", "Add")
        f_mc3 = pool.submit(ctx.mc, "HistOps", "HistOps_seq.cfg", coverage=True,
                            must_cover=seq_acts) if ctx.thorough else None
        f_h3 = pool.submit(hl.mc_export, ctx, "HistOps", "HistOps_seq_export.cfg", must_cover=seq_acts, min_records=3000)
        f_g3 = pool.submit(hl.mc_export, ctx, "Graph", "Graph_seq_export.cfg", must_cover=("GetScale", "Scale"),
                           min_records=1000)
        f_g1 = pool.submit(hl.mc_export, ctx, "Graph", "Graph_export.cfg", must_cover=("GetScale", "Scale"),
                           min_records=3000)
        # columns given as one list object (symmetric errors) and a twin graph made from the same lists
        f_g4 = pool.submit(hl.mc_export, ctx, "Graph", "Graph_share_export.cfg", must_cover=("GetScale", "Scale"),
                           min_records=3000)
        # flows of several values through ONE element object (ToCSV / HistToGraph / ScaleTo), each value with the options
        # of its own context, in one or several run() calls: ElementStateless; the element that remembers the setting of
        # an earlier value (in a variable of run() / on the object) must be refuted
        f_flow = pool.submit(hl.mc_export, ctx, "ConvFlow", "ConvFlow_%s.cfg" % ("thorough_export" if ctx.thorough else "quick"),
                             must_cover=("Feed", "NewRun"), min_records=5000)
        f_mc4 = pool.submit(ctx.mc, "ConvFlow", "ConvFlow_thorough.cfg", coverage=True,
                            must_cover=("Feed", "NewRun")) if ctx.thorough else None
        f_guards = [(cfg, pool.submit(ctx.mc, "ConvFlow", cfg, expect_violation="report"))
                    for cfg in ("ConvFlow_sticky_local.cfg", "ConvFlow_sticky_self.cfg")]
        # (random graph histories only in the thorough tier: Graph_seq_export has every history of length 4)
        f_g2 = pool.submit(hl.export_generate, ctx, "Graph", "Graph_hist_export.cfg", num=4000, depth=6,
                           min_records=400) if ctx.thorough else None

        # ---- code -> spec (all random choices here, in a fixed order)
        m = 6 if ctx.thorough else 1
        recs = (h12.record_histops(rnd, 500 * m, report) + h12.record_graphs(rnd, 500 * m, report)
                + h12.record_conversions(rnd, 500 * m, report) + h12.record_addtol(rnd, 600 * m, report))
        f_trace = pool.submit(trace_phase, ctx, recs, ("hist", "graph", "conv", "addtol") if ctx.thorough else ("hist", "conv"))

        # ---- spec -> code
        extra = ctx.extra
        crecs = f_conv.result()
        for k, rec in enumerate(crecs):
            h12.replay_convert(ctx, rec, k, report)
            ctx.case(["convert", rec], nontrivial=len(rec["conv"]["cells"]) + len(rec["conv"]["rows"]) + len(rec["conv"]["cols"]) > 0)
        ctx.sample({"spec_conversion": crecs[len(crecs) // 2]})
        frecs = f_flow.result()
        for k, rec in enumerate(frecs):
            h12.replay_flow(ctx, rec, k, report)
            ctx.case(["element_flow", rec], nontrivial=len(rec["flow"]) > 1)
        ctx.sample({"spec_element_flow": frecs[len(frecs) // 2]}, limit=8)
        for fut, what in ((f_h1, "histogram_op"), (f_h2, "histogram_history"), (f_h3, "histogram_scale_sequence")):
            hrecs = fut.result()
            for k, rec in enumerate(hrecs):
                guarded(report, what, rec, h12.replay_histops, ctx, rec, k, report, extra)
                ctx.case([what, rec], nontrivial=True)
            ctx.sample({"spec_" + what: hrecs[len(hrecs) // 2]})
        for fut, what in ((f_g1, "graph_op"), (f_g2, "graph_history"), (f_g3, "graph_scale_sequence"),
                          (f_g4, "graph_shared_columns")):
            if fut is None:
                continue
            grecs = fut.result()
            for k, rec in enumerate(grecs):
                guarded(report, what, rec, h12.replay_graph, ctx, rec, k, report)
                ctx.case([what, rec], nontrivial=True)
            ctx.sample({"spec_" + what: grecs[len(grecs) // 3]}, limit=8)
        for fut in (f_mc1, f_mc2, f_mc3, f_mc4):
            if fut is not None:
                fut.result()
        for cfg, fut in f_guards:
            if fut.result().violated != "ElementStateless":
                raise core.MachineryError("the flow model is insensitive: %s did not refute ElementStateless" % cfg)
        extra["sensitivity"] = ["ConvFlow with Memory = local (the effective duplicate_last_bin / to_csv kept in a variable of "
                                "run() from value to value) and Memory = self (kept on the element across run() calls): TLC "
                                "refutes ElementStateless"]
        f_trace.result()
    finally:
        pool.shutdown(wait=True)
    return ctx.finish(
        rule="S2C: every single operation (scale / ScaleTo / scale_to / GroupScale, scale(), set_nevents, add with six "
             "kinds of other operand; add with default / explicit edge tolerances and one edge moved by a grid amount or "
             "by 1/2, 1, 2 tolerances, at 9 magnitudes of the edges) on every histogram of HistOps_export and TLC-generated "
             "4-operation histories, at 7 magnitudes of edges and contents; every "
             "graph (1..3 coordinates, every ordered choice of 0..3 error fields, 4 name sets) x scale x target and "
             "every getter / setter sequence of length 4 (thorough: and generated histories); every conversion of Convert.tla (3 coordinate modes, all index ranges, both "
             "duplicate_last_bin, functions and ToCSV / HistToGraph elements, int/float contents, list/tuple edges); every "
             "flow of ConvFlow.tla (3 values through ONE ToCSV / HistToGraph / ScaleTo object, each with the options of its own "
             "context, in one or several run() calls) with the output of every value compared; "
             "C2S: seeded random float histograms / graphs, every recorded operation validated by Trace_HistOps",
        exhaustive=True)
