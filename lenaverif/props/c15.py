"""C15  Selectors evaluate compositionally; GroupBy partitions by the selected context.

spec/SelectorsSem.tla   Eval: three-valued recursive definition over specifications (documentation)
spec/Selectors.tla      Build (constructors) + call-stack machine + Filter.run; TLC: machine = Eval
                        (results: True / False / class of the exception that reaches the caller)
spec/GroupBySem.tla     Owner / Selected / Agree / SameGroup (the statement), Sig, Proj
spec/GroupBy.tla        fill machine keyed by the selected sub-context; TLC: partition = SameGroup classes;
                        NObj > 0: context objects shared between values and modified in place between fills
spec/Trace_Selectors.tla, spec/Trace_GroupBy.tla   validation of recorded runs beyond the bounds
"""
import concurrent.futures
import itertools
import json
import os
import random

from .. import core
from .. import sellib as sl

SEL_ACTIONS = ("FilterPull", "FilterEnd", "FilterDecide", "CallSelector", "CallAndOr", "CallLeaf",
               "CallSelectContext", "CallPredicate", "RetSelector", "RetAndOr", "CatchExc", "Propagate")
KEYS6 = ["", "a", "b", "a.b", "a.c", "a.b.c"]


def jkey(x):
    return json.dumps(x, sort_keys=True)


# ------------------------------------------------------------------ selectors: S2C
class Worst(object):
    """Smallest failing input per kind of mismatch."""

    def __init__(self):
        self.best = {}
        self.count = {}

    def add(self, kind, size, payload):
        self.count[kind] = self.count.get(kind, 0) + 1
        cur = self.best.get(kind)
        if cur is None or size < cur[0]:
            self.best[kind] = (size, payload)


def mismatch_kind(exp, got):
    """exp / got: "T", "F" or the name of the class of the exception that reaches the caller.
    The kind does not name the expected class (one defect that swallows every exception is one kind; the
    witness shows the class), "E" stands for it."""
    if sl.is_exc(got) and not sl.is_exc(exp):
        return "raised %s" % got
    if sl.is_exc(got):
        return "raised %s in place of the exception of the leaf" % got
    return "expected %s observed %s" % ("E" if sl.is_exc(exp) else exp, got)


def replay_vectors(ctx, recs, vals, worst):
    """Every specification of the exported universe on each of the eight values."""
    F = sl.funcs()
    pyvals = [sl.dec_val(v) for v in vals]
    for n, rec in enumerate(recs):
        ast, res = rec["ast"], rec["res"]
        variants = [(0, True), (0, False)]
        if sl.has_sc(ast):
            variants += [(1, True), (2, True)]
        for form, explicit in variants:
            try:
                obj = sl.build(ast, form, explicit, F)
            except Exception as exc:   # noqa
                worst.add("constructor raised %s" % type(exc).__name__, (sl.size(ast), jkey(ast)),
                          {"ast": ast, "form": form, "exception": repr(exc)})
                continue
            for j, v in enumerate(pyvals):
                if res[j] == "U":
                    continue           # a string leaf walks through a scalar here: contains is C08's subject
                got = sl.evaluate(obj, v)
                if got != res[j]:
                    worst.add(mismatch_kind(res[j], got), (sl.size(ast), jkey(ast), j),
                              {"ast": ast, "value": repr(v), "expected": res[j], "observed": got,
                               "key_form": form, "explicit_raise_on_error": explicit})
        ctx.case(["sel", ast], nontrivial=True, traces=len(pyvals))
    return len(recs)


def report_selector(ctx, worst):
    """One violation per kind of mismatch, with the smallest specification showing it."""
    for kind, (size, d) in sorted(worst.best.items()):
        ctx.violation("Selector:%s:%s" % (kind, sl.render(d["ast"])),
                      dict(d, cases_of_this_kind=worst.count[kind], rendered=sl.render(d["ast"])))


def run_filter(ast, flow, how):
    import lena.flow as lf
    obj = sl.build(ast)
    if how == "raw" and ast["k"] == "Sel" and ast["roe"]:
        flt = lf.Filter(sl.build(ast["x"]))         # Filter converts a non-Selector itself
    else:
        flt = lf.Filter(obj)
    out, raised = [], ""
    if how == "fill":
        sink = lf.StoreFilled()
        try:
            for v in flow:
                flt.fill_into(sink, v)
        except Exception as exc:   # noqa
            raised = type(exc).__name__
        out = list(sink.group)
    else:
        try:
            for v in flt.run(iter(flow)):
                out.append(v)
        except Exception as exc:   # noqa
            raised = type(exc).__name__
        # the same Filter object run over the same flow again
        out2, raised2 = [], ""
        try:
            for v in flt.run(iter(flow)):
                out2.append(v)
        except Exception as exc:   # noqa
            raised2 = type(exc).__name__
        if raised2 != raised or len(out2) != len(out) or any(a is not b for a, b in zip(out, out2)):
            raised = raised or "second run differs"
            out = out + ["<second run differs>"]
    return out, raised


def replay_filters(ctx, recs, worst):
    for rec in recs:
        ast = rec["ast"]
        flow = [sl.dec_val(v) for v in rec["flow"]]
        exp = [sl.sig(sl.dec_val(v)) for v in rec["out"]]
        for how in ("run", "fill", "raw"):
            try:
                out, raised = run_filter(ast, flow, how)
            except Exception as exc:   # noqa
                worst.add("constructor raised %s" % type(exc).__name__, (sl.size(ast), jkey(ast)),
                          {"ast": ast, "exception": repr(exc), "where": "Filter"})
                continue
            got = [sl.sig(v) for v in out]
            if rec["raised"]:
                # the selector's exception reaches the caller (a Selector made from a raw specification has the
                # default raise_on_error=True); what was yielded before it is exact
                ok = got[:len(exp)] == exp and raised == rec["exc"]
            else:
                ok = got == exp and not raised
            # the values that pass are the filled objects themselves
            ok = ok and all(any(o is v for v in flow) for o in out)
            if not ok:
                kind = ("raised %s" % raised) if (raised and not rec["raised"]) else "Filter keeps other values"
                worst.add(kind, (sl.size(ast), jkey(ast), len(flow)),
                          {"ast": ast, "flow": [repr(v) for v in flow], "expected": exp,
                           "expected_raised": rec["exc"] or rec["raised"], "observed": got, "observed_raised": raised,
                           "where": "Filter.fill_into" if how == "fill" else "Filter.run"})
        ctx.case(["filter", ast, rec["flow"]], nontrivial=len(flow) > 0)


# ------------------------------------------------------------------ selectors: C2S
def record_selectors(ctx, rnd, n, worst):
    import lena.flow as lf
    F = sl.funcs()
    trace = []
    while len(trace) < n:
        ast = sl.random_spec(rnd, rnd.choice([1, 2, 3, 3, 4]), want_obj=True)
        paths = sl.str_leaves(ast)
        try:
            obj = sl.build(ast, rnd.randint(0, 2), rnd.random() < 0.5, F)
        except Exception as exc:   # noqa
            worst.add("constructor raised %s" % type(exc).__name__, (10 ** 6 + sl.size(ast), jkey(ast)),
                      {"ast": ast, "exception": repr(exc), "where": "random specification"})
            n -= 1
            continue
        vals = []
        for _ in range(40):
            v = sl.random_val(rnd)
            c = lf.get_context(v)
            if not any(sl.through_scalar(c, p) for p in paths):
                vals.append(v)
            if len(vals) == 4:
                break
        if rnd.random() < 0.25 and vals:
            out, exc = [], ""
            try:
                for v in lf.Filter(obj).run(iter(vals)):
                    out.append(v)
            except Exception as e:   # noqa
                exc = type(e).__name__
            trace.append({"op": "filter", "ast": ast, "flow": [sl.enc_val(v) for v in vals],
                          "out": [sl.enc_val(v) for v in out], "raised": bool(exc), "exc": exc})
        else:
            for v in vals[:2]:
                got = sl.evaluate(obj, v)
                trace.append({"op": "sel", "ast": ast, "val": sl.enc_val(v), "res": got,
                              "exc": got if sl.is_exc(got) else ""})
    return trace


def trace_kind(r):
    if r.get("exc"):
        return "raised %s" % r["exc"]
    if r["op"] == "sel":
        return "recorded result %s rejected" % r["res"]
    return "Filter keeps other values"


def check_sel_trace(ctx, trace, worst, max_rounds=6):
    """Validate recorded selector runs.  A rejected record goes to the aggregator; it and the later
    records of the same kind are set aside and validation continues, so that one defect does not
    hide the rest of the batch."""
    todo = list(trace)
    accepted = []
    for _ in range(max_rounds):
        if not todo:
            break
        acc = ctx.validate("Trace_Selectors", "Trace_Selectors.cfg", todo, label="seltrace")
        ctx.traces += acc
        accepted.extend(todo[:acc])
        if acc >= len(todo):
            break
        bad = todo[acc]
        kind = trace_kind(bad)
        # witnesses from the exhaustive universe are preferred: recorded ones get a large size
        worst.add(kind, (10 ** 6 + sl.size(bad["ast"]), jkey(bad["ast"])),
                  {"ast": bad["ast"], "record": {k: v for k, v in bad.items() if k != "ast"},
                   "where": "recorded run rejected by Trace_Selectors"})
        todo = [r for r in todo[acc + 1:] if trace_kind(r) != kind]
    ctx.evaluations += len(trace)
    for r in accepted:
        ctx.distinct.add(core.canon(r))
    if accepted:
        ctx.sample({"recorded_trace_record": accepted[min(1, len(accepted) - 1)]})
    return accepted


# ------------------------------------------------------------------ GroupBy
def accepted_pairs(ctx, keys=KEYS6):
    """Every (group_by, merge) over *keys* with the root key in exactly one of them, offered to the
    real constructor; those rejected with LenaValueError are outside the quantifier."""
    import lena.flow as lf
    import lena.core as lc
    out, rejected = [], 0
    order_dependent = None
    for mask in itertools.product((0, 1, 2), repeat=len(keys)):
        G = [k for k, m in zip(keys, mask) if m == 1]
        M = [k for k, m in zip(keys, mask) if m == 2]
        if ("" in G) + ("" in M) != 1:
            continue
        # a key set is accepted or not - in whatever order it is written
        verdicts = {}
        for g in itertools.permutations(G):
            for m in itertools.permutations(M):
                try:
                    lf.GroupBy(g, m)
                    v = "accepted"
                except lc.LenaValueError:
                    v = "rejected"
                except Exception as exc:   # noqa
                    v = "raised %s" % type(exc).__name__
                verdicts.setdefault(v, (g, m))
        if len(verdicts) > 1 and "accepted" in verdicts:
            w = {v: {"group_by": list(gm[0]), "merge": list(gm[1])} for v, gm in verdicts.items()}
            if order_dependent is None or len(G) + len(M) < order_dependent[0]:
                order_dependent = (len(G) + len(M), w)
        if "accepted" not in verdicts:
            if any(v.startswith("raised") for v in verdicts):
                ctx.violation("GroupBy.__init__:%s" % sorted(verdicts)[0], {"group_by": G, "merge": M})
            else:
                rejected += 1
            continue
        out.append({"G": [k.split(".") if k else [] for k in G], "M": [k.split(".") if k else [] for k in M]})
    if order_dependent is not None:
        w = order_dependent[1]
        ctx.violation("GroupBy.__init__:whether a key set is accepted depends on the order in which it is written:%s"
                      % gm_text([k.split(".") if k else [] for k in w["accepted"]["group_by"]],
                                [k.split(".") if k else [] for k in w["accepted"]["merge"]]), w)
    return out, rejected


def make_groupby(G, M, style):
    import lena.flow as lf
    if style == 2 and G == [] and M == [[]]:
        return lf.GroupBy()                # the default arguments: everything in one group
    g, m = sl.gm_args(G, M, 3 if style == 3 else style % 2)
    return lf.GroupBy(g, m)


def fill_all(gb, values):
    for v in values:
        gb.fill(v)
    groups = [list(g) for g in gb.groups.values()]
    computed = [list(g) for g in gb.compute()]
    return groups, computed


def gm_text(G, M):
    return "group_by=(%s);merge=(%s)" % (",".join('"%s"' % sl.dotted(p) for p in G),
                                         ",".join('"%s"' % sl.dotted(p) for p in M))


def note_pairs(worst, G, M, ctxs, same_impl, same_spec, where):
    """Record the context pairs on which the implementation and the specification disagree."""
    n = len(ctxs)
    for i in range(n):
        for j in range(i):
            if same_impl(i, j) != same_spec(i, j):
                kind = "split" if same_spec(i, j) else "merged"
                c1, c2 = sorted([ctxs[i], ctxs[j]], key=lambda c: (len(jkey(c)), jkey(c)))
                size = (len(jkey(c1)) + len(jkey(c2)), len(G) + len(M), jkey([G, M, c1, c2]))
                worst.add(kind, size, {"group_by": [sl.dotted(p) for p in G], "merge": [sl.dotted(p) for p in M],
                                       "context_1": c1, "context_2": c2, "where": where, "G": G, "M": M})


def rev_keys(c):
    if isinstance(c, dict):
        return {k: rev_keys(c[k]) for k in reversed(list(c))}
    return c


def shape_problem(worst, kind, G, M, extra):
    worst.add(kind, (len(G) + len(M), jkey([G, M])), dict(extra, G=G, M=M, group_by=[sl.dotted(p) for p in G],
                                                        merge=[sl.dotted(p) for p in M]))


def replay_classes(ctx, recs, rnd, worst):
    ctxs = None
    for rec in recs:
        if rec["ctxs"]:
            ctxs = [sl.dec_ctx(c) for c in rec["ctxs"]]
    if ctxs is None:
        raise core.MachineryError("GroupBy export: universe of contexts missing")
    n = len(ctxs)
    for rnum, rec in enumerate(recs):
        G, M, cls = rec["G"], rec["M"], rec["cls"]
        if len(cls) != n:
            raise core.MachineryError("GroupBy export: class vector of wrong length")
        order = list(range(n)) + rnd.sample(range(n), n // 4)      # some contexts twice
        rnd.shuffle(order)
        values = []
        seen = set()
        for pos, ci in enumerate(order):
            c = ctxs[ci]
            # a second occurrence of a context has its keys inserted in the opposite order
            c = rev_keys(c) if ci in seen else json.loads(json.dumps(c))
            seen.add(ci)
            if c:
                values.append((pos, c))
            else:
                # values without a context of their own, in every shape get_context answers {} for
                values.append([(pos, c), pos, [pos, {"a": 1}], (pos, "a"), (pos, {"a": 1}, 0)][pos % 5])
        expected = {}
        for pos, ci in enumerate(order):
            expected.setdefault(cls[ci], []).append(pos)
        exp = sorted(expected.values())
        canon = (sorted(G), sorted(M))
        if not rec["W"] or any((sorted(w["g"]), sorted(w["m"])) != canon for w in rec["W"]):
            raise core.MachineryError("GroupBy export: the writings are not writings of the key sets")
        # the key sets are constructed in every writing of the record (the first one in several argument styles)
        todo = []
        for wn, w in enumerate(rec["W"]):
            styles = (((0, 1, 2, 3) if rnum % 7 == 0 or (G == [] and M == [[]]) else (rnum % 4,)) if wn == 0
                      else ((0, 3)[(wn + rnum) % 2],))
            todo += [(w["g"], w["m"], s) for s in styles]
        for G, M, style in todo:
            try:
                gb = make_groupby(G, M, style)
                groups, computed = fill_all(gb, values)
            except Exception as exc:   # noqa
                shape_problem(worst, "raised %s" % type(exc).__name__, G, M, {"exception": repr(exc)})
                continue
            # group members are the filled values themselves
            pos_of = {id(v): p for p, v in enumerate(values)}
            try:
                got = [[pos_of[id(v)] if id(v) in pos_of else values.index(v) for v in g] for g in groups]
            except ValueError:
                shape_problem(worst, "foreign value in a group", G, M, {})
                continue
            if sorted(got) != exp:
                where_of = {}
                for gi, g in enumerate(got):
                    for p in g:
                        where_of.setdefault(order[p], set()).add(gi)
                if any(sorted(g) != g for g in got):
                    shape_problem(worst, "arrival order not preserved", G, M, {"a_group": next(g for g in got if sorted(g) != g)})
                if sorted(p for g in got for p in g) != list(range(len(values))):
                    shape_problem(worst, "not a partition of the filled values", G, M, {})
                present = sorted(where_of)
                sub = [ctxs[i] for i in present]
                note_pairs(worst, G, M, sub,
                           lambda i, j: where_of[present[i]] == where_of[present[j]],
                           lambda i, j: cls[present[i]] == cls[present[j]], "all contexts of the universe, one flow")
            if sorted([id(v) for v in g] for g in computed) != sorted([id(v) for v in g] for g in groups):
                shape_problem(worst, "compute() differs from groups", G, M, {})
        ctx.case(["groupby-classes", rec["G"], rec["M"], len(rec["W"])], nontrivial=True)


def assign_in_place(dst, src):
    """Make the dictionary *dst* equal to *src* by modifying it in place (nested dictionaries that stay
    dictionaries are kept and modified in place too): what a source does that keeps one context object."""
    for k in list(dst):
        if k not in src:
            del dst[k]
    for k, v in src.items():
        if isinstance(v, dict) and isinstance(dst.get(k), dict):
            assign_in_place(dst[k], v)
        else:
            dst[k] = json.loads(json.dumps(v))
    if list(dst) != list(src):             # the key order of the new content as well
        items = [(k, dst[k]) for k in src]
        dst.clear()
        dst.update(items)


def run_flow(G, M, style, items, shared=True):
    """fill / compute() / reset() on one GroupBy object.  Fill items with o > 0 use the context object o
    of the source, modified in place to hold the item's context (shared=False: a context object of its
    own for every value - the control run).  Returns (groups, snapshots) as lists of lists of positions."""
    objs = {}
    snaps = []
    gb = make_groupby(G, M, style)
    for pos, it in enumerate(items):
        if it["op"] == "fill":
            c = sl.dec_ctx(it["c"])
            if shared and it.get("o", 0) > 0:
                if it["o"] in objs:
                    assign_in_place(objs[it["o"]], c)
                    c = objs[it["o"]]
                else:
                    objs[it["o"]] = c
            gb.fill((pos + 1, c))
        elif it["op"] == "compute":
            snaps.append([[v[0] for v in g] for g in gb.compute()])
        else:
            gb.reset()
    return [[v[0] for v in g] for g in gb.groups.values()], snaps


def pair_mismatches(got, exp, open_pairs):
    """Pairs of positions (i < j), not among the open ones, that the two partitions treat differently."""
    gi = {p: k for k, g in enumerate(got) for p in g}
    ei = {p: k for k, g in enumerate(exp) for p in g}
    live = sorted(ei)
    skip = set((a, b) for a, b in open_pairs)
    return [(i, j, ei[i] == ei[j]) for n, j in enumerate(live) for i in live[:n]
            if (i, j) not in skip and (gi[i] == gi[j]) != (ei[i] == ei[j])]


def replay_flows(ctx, recs, worst, where="behaviour of the fill machine"):
    """Behaviours of the GroupBy machine: fill / compute() / reset() in any order on one object, the
    values bringing context objects of their own or sharing objects that the source modifies in place.
    At every observation (compute(), the end) the implementation's partition is compared with the
    machine's on every settled pair of values (see AliasingIrrelevant in GroupBy.tla)."""
    for rnum, rec in enumerate(recs):
        w = rec["W"][rnum % len(rec["W"])]          # one of the writings of the key sets
        G, M = w["g"], w["m"]
        items = rec["flow"]
        cs = {pos + 1: sl.dec_ctx(it["c"]) for pos, it in enumerate(items) if it["op"] == "fill"}
        aliased = {pos + 1 for pos, it in enumerate(items) if it["op"] == "fill" and it.get("o", 0) > 0}
        ops = [it["op"] if it["op"] != "fill" else ("fill" if not it.get("o") else "fill(object %d)" % it["o"]) for it in items]
        try:
            got, snaps = run_flow(G, M, rnum % 4, items)
        except Exception as exc:   # noqa
            shape_problem(worst, "raised %s" % type(exc).__name__, G, M, {"exception": repr(exc), "operations": ops})
            continue
        observations = [(sn, e, o, "compute()") for sn, e, o in zip(snaps, rec["snaps"], rec["snapopen"])]
        if len(snaps) != len(rec["snaps"]):
            raise core.MachineryError("GroupBy flow export: number of compute() calls")
        observations.append((got, rec["groups"], rec["open"], "groups"))
        control = None
        for obs, (g, e, opn, what) in enumerate(observations):
            e = [list(x) for x in e]
            if any(sorted(x) != x for x in g):
                shape_problem(worst, "arrival order not preserved", G, M, {"a_group": next(x for x in g if sorted(x) != x)})
            if sorted(p for x in g for p in x) != sorted(p for x in e for p in x):
                shape_problem(worst, "groups do not hold exactly the values filled since the last reset()"
                              if what == "groups" else "compute() does not yield the groups of the values filled so far",
                              G, M, {"operations": ops, "expected": sorted(e), "observed": sorted(g)})
                continue
            bad = pair_mismatches(g, e, opn)
            if not bad:
                continue
            # is the sharing of context objects needed to see it?  the same flow with a context object per value
            if aliased and control is None:
                try:
                    cg, csn = run_flow(G, M, rnum % 4, items, shared=False)
                    control = csn + [cg]
                except Exception:   # noqa
                    control = []
            cbad = pair_mismatches(control[obs], e, []) if aliased and obs < len(control or []) else bad
            for i, j, same in bad:
                alias_only = bool(aliased) and (i, j, same) not in cbad
                kind = "split" if same else "merged"
                if alias_only:
                    kind += " when a context object is shared between values and modified in place"
                c1, c2 = sorted([cs[i], cs[j]], key=lambda c: (len(jkey(c)), jkey(c)))
                size = (len(jkey(c1)) + len(jkey(c2)), len(G) + len(M), "%03d %s" % (len(items), jkey([G, M, c1, c2])))
                worst.add(kind, size, {"group_by": [sl.dotted(p) for p in G], "merge": [sl.dotted(p) for p in M],
                                       "context_1": c1, "context_2": c2, "where": where, "G": G, "M": M,
                                       "operations": ops, "contexts_when_filled": [cs.get(p + 1) for p in range(len(items))],
                                       "values": [i, j], "observed_at": what, "observed": sorted(g), "expected": sorted(e)})
        ctx.case(["groupby-flow", rec["G"], rec["M"], rec["flow"]], nontrivial=len(cs) > 1)


def report_groupby(ctx, worst):
    """One violation per kind (merged / split / ...), with the smallest witness."""
    for kind, (size, d) in sorted(worst.best.items()):
        if "context_1" in d:
            shrunk = "%s|%s" % (jkey(d["context_1"]).replace('"', ""), jkey(d["context_2"]).replace('"', ""))
        elif "contexts" in d:
            shrunk = "recorded run"
        else:
            shrunk = "any flow"
        key = "GroupBy:%s:%s:%s" % (kind, gm_text(d["G"], d["M"]), shrunk)
        d = {k: v for k, v in d.items() if k not in ("G", "M")}
        what = {"split": "values whose contexts agree on every selected key path are put into different groups",
                "merged": "values whose contexts differ on a selected key path are put into the same group"}.get(kind, kind)
        ctx.violation(key, dict(d, what=what, pairs_of_this_kind=worst.count[kind]))


def gb_ctx(rnd, depth=3):
    d = {}
    for k in ("a", "b", "c", "d")[:rnd.choice([2, 3, 3, 4])]:
        t = rnd.random()
        if t < 0.4:
            continue
        if t < 0.7 or depth <= 1:
            d[k] = rnd.choice([1, 2, 2, "1", None, None, 0, "", [], {}])
        else:
            d[k] = gb_ctx(rnd, depth - 1)
    return d


def record_groupby(ctx, rnd, n, worst):
    import lena.flow as lf
    import lena.core as lc
    trace = []
    tries = 0
    while len(trace) < n and tries < 50 * n:
        tries += 1
        G, M = sl.random_gm(rnd)
        g, m = sl.gm_args(G, M, rnd.randint(0, 1))
        try:
            gb = lf.GroupBy(g, m)
        except lc.LenaValueError:
            continue
        base = [gb_ctx(rnd) for _ in range(rnd.randint(1, 4))]
        cs = []
        for _ in range(rnd.randint(2, 7)):
            c = json.loads(json.dumps(rnd.choice(base)))
            # small edits make contexts that differ on one path only
            if rnd.random() < 0.6:
                ps = list(sl.ctx_paths(c))
                if ps and rnd.random() < 0.7:
                    p = rnd.choice(ps)
                    cur = c
                    for k in p[:-1]:
                        cur = cur[k]
                    r = rnd.random()
                    if r < 0.3:
                        del cur[p[-1]]
                    elif r < 0.6:
                        cur[p[-1]] = rnd.choice([1, 2, {}, None, 0, "", []])
                    else:
                        cur[p[-1]] = {rnd.choice("abc"): rnd.choice([1, 2, {}, None, 0])}
                else:
                    c[rnd.choice("abcd")] = rnd.choice([1, 2, {}, None, 0, ""])
            cs.append(c)
        # in some runs the source keeps one or two context objects, modifies them in place and hands them
        # on with several values; "now" is what the context of each value holds at the end
        objs = [{} for _ in range(rnd.choice([0, 0, 1, 2]))]
        values = []
        try:
            for pos, c in enumerate(cs):
                if objs and rnd.random() < 0.6:
                    o = rnd.choice(objs)
                    assign_in_place(o, c)
                    c = o
                values.append((pos + 1, c))
                gb.fill(values[-1])
        except Exception as exc:   # noqa
            shape_problem(worst, "raised %s" % type(exc).__name__, G, M, {"exception": repr(exc), "where": "random key sets"})
            continue
        trace.append({"G": G, "M": M, "ctxs": [sl.enc_ctx(c) for c in cs], "now": [sl.enc_ctx(v[1]) for v in values],
                      "groups": [[v[0] for v in grp] for grp in gb.groups.values()]})
    return trace


def check_gb_trace(ctx, trace, worst):
    """Validate recorded GroupBy runs.  When a record is rejected, the batch is validated again with
    only one part of the acceptance condition switched on (GB_MODE), so that the trace spec itself
    says which half of 'exactly when' fails first and on which record."""
    if not trace:
        return []
    acc = ctx.validate("Trace_GroupBy", "Trace_GroupBy.cfg", trace, label="gbtrace")
    ctx.traces += acc
    ctx.evaluations += len(trace)
    for r in trace[:acc]:
        ctx.distinct.add(core.canon(r))
    ctx.sample({"recorded_trace_record": trace[min(1, len(trace) - 1)]})
    if acc < len(trace):
        found = False
        for mode, kind in (("shape", "groups are not an order-preserving partition"), ("merged", "merged"),
                           ("split", "split")):
            a = ctx.validate("Trace_GroupBy", "Trace_GroupBy.cfg", trace, label="gbclassify", env={"GB_MODE": mode})
            if a < len(trace):
                found = True
                r = trace[a]
                cs = [sl.dec_ctx(c) for c in r["ctxs"]]
                worst.add(kind, (10 ** 6 + len(jkey(cs)), jkey(r)),
                          {"G": r["G"], "M": r["M"], "group_by": [sl.dotted(p) for p in r["G"]],
                           "merge": [sl.dotted(p) for p in r["M"]], "contexts": cs, "groups": r["groups"],
                           "contexts_at_the_end": [sl.dec_ctx(c) for c in r["now"]],
                           "where": "recorded run rejected by Trace_GroupBy", "index": a})
        if not found:
            raise core.MachineryError("Trace_GroupBy rejects record %d but none of its parts does" % acc)
    return trace[:acc]


def run(ctx):
    import lena.flow   # noqa
    tag = "thorough" if ctx.thorough else "quick"
    rnd = random.Random(ctx.seed)
    ctx.assume("callables, classes and predicates of specifications are the harness's (sellib.FUNCS/CLASSES/PREDS); "
               "contexts have integer and string leaves; string specifications never walk through a scalar "
               "before their last level (that case of contains belongs to C08)")
    ctx.assume("And/Or objects built with raise_on_error=False contain no ready-made item that can raise "
               "(the documentation does not say whether they must swallow its exception)")
    ctx.assume("an exception that propagates out of a selector is the leaf's exception: its class is compared "
               "(Exception subclasses only; StopIteration is not used)")
    ctx.assume("when a source modifies a context object in place after a value was filled with it, the statement does not say "
               "which content of that value's context counts: a pair of values is compared only when the contents at fill time "
               "and at observation time give the same answer")
    # ---- all TLC jobs of the design level and of the export are independent: side by side
    pairs, rejected = accepted_pairs(ctx)
    if len(pairs) < 20:
        raise core.MachineryError("vacuous: make_include_exclude_tree accepts only %d key sets" % len(pairs))
    ctx.extra["group_by_key_sets"] = {"offered": len(pairs) + rejected, "accepted": len(pairs)}
    gmfile = os.path.join(ctx.workdir, "gm.json")
    with open(gmfile, "w") as f:
        json.dump(pairs, f)
    genv = {"GM_FILE": gmfile}
    pool = concurrent.futures.ThreadPoolExecutor(max_workers=4 if ctx.thorough else 9)
    mcs = [pool.submit(ctx.mc, "Selectors", "Selectors_%s.cfg" % tag, coverage=True, must_cover=SEL_ACTIONS),
           pool.submit(ctx.mc, "GroupBy", "GroupBy_%s.cfg" % tag, coverage=True,
                       must_cover=("FillOld", "FillNew", "Compute", "Reset") if not ctx.thorough else ("FillOld", "FillNew")),
           pool.submit(ctx.mc, "GroupBy", "GroupBy_rel_%s.cfg" % tag),
           # context objects shared between values and modified in place between fills
           pool.submit(ctx.mc, "GroupBy", "GroupBy_alias_%s.cfg" % tag, coverage=True,
                       must_cover=("FillOld", "FillNew", "Compute", "Reset"))]
    f_recs = pool.submit(ctx.export, "Selectors", "Selectors_%s_export.cfg" % tag, min_records=1000)
    f_frecs = pool.submit(ctx.export, "Selectors", "Selectors_filter_%s_export.cfg" % tag, min_records=500)
    f_crecs = pool.submit(ctx.export, "GroupBy", "GroupBy_%s_export.cfg" % tag, env=genv, min_records=len(pairs))
    f_flrecs = pool.submit(ctx.export, "GroupBy", "GroupBy_flow_%s_export.cfg" % tag, env=genv, min_records=1000)
    f_alrecs = pool.submit(ctx.export, "GroupBy", "GroupBy_alias_%s_export.cfg" % tag, env=genv, min_records=1000)
    if ctx.thorough:
        mcs += [pool.submit(ctx.mc, "Selectors", "Selectors_filter_thorough.cfg", coverage=True,
                            must_cover=("FilterPull", "FilterEnd", "FilterDecide", "Again")),
                pool.submit(ctx.mc, "Selectors", "Selectors_thorough3.cfg", coverage=True, must_cover=SEL_ACTIONS),
                pool.submit(ctx.mc, "GroupBy", "GroupBy_ops_thorough.cfg", coverage=True,
                            must_cover=("FillOld", "FillNew", "Compute", "Reset"))]
        f_recs3 = pool.submit(ctx.export, "Selectors", "Selectors_thorough3_export.cfg", min_records=1000)
        f_crecs2 = pool.submit(ctx.export, "GroupBy", "GroupBy_thorough2_export.cfg", env=genv, min_records=len(pairs))
        f_alrecs2 = pool.submit(ctx.export, "GroupBy", "GroupBy_alias_thorough2_export.cfg", env=genv, min_records=1000)
    # ---- spec -> code: selectors
    recs = f_recs.result()
    vals = next((r["vals"] for r in recs if r["vals"]), None)
    if not vals:
        raise core.MachineryError("Selectors export: the values are missing")
    worst = Worst()
    replay_vectors(ctx, recs, vals, worst)
    ctx.sample({"spec_behaviour_selector": recs[len(recs) // 2], "values": [repr(sl.dec_val(v)) for v in vals]})
    if ctx.thorough:
        replay_vectors(ctx, f_recs3.result(), vals, worst)
    frecs = f_frecs.result()
    replay_filters(ctx, frecs, worst)
    ctx.sample({"spec_behaviour_filter": frecs[len(frecs) // 2]})
    # ---- spec -> code: GroupBy
    gworst = Worst()
    crecs = f_crecs.result()
    replay_classes(ctx, crecs, rnd, gworst)
    if ctx.thorough:
        # a second universe: None, 0, "", [], False, {} at every listed path
        replay_classes(ctx, f_crecs2.result(), rnd, gworst)
    ctx.sample({"spec_behaviour_groupby": {k: crecs[len(crecs) // 2][k] for k in ("G", "M", "cls")}})
    flrecs = f_flrecs.result()
    replay_flows(ctx, flrecs, gworst)
    alrecs = f_alrecs.result()
    if not any(r["open"] for r in alrecs) or not any(len(r["flow"]) >= 3 and not r["open"] and
                                                     any(it["o"] for it in r["flow"]) for r in alrecs):
        raise core.MachineryError("GroupBy alias export: no behaviour with (without) unsettled pairs")
    replay_flows(ctx, alrecs, gworst, where="behaviour of the fill machine, context objects shared between values")
    if ctx.thorough:
        # two shared objects, four contexts
        replay_flows(ctx, f_alrecs2.result(), gworst,
                     where="behaviour of the fill machine, context objects shared between values")
    ctx.sample({"spec_behaviour_groupby_shared_context_object":
                next(r for r in alrecs if len(r["flow"]) >= 3 and r["open"] and len(r["groups"]) >= 2)})
    for f in mcs:
        f.result()                      # a failed design-level run is a machinery error
    # ---- code -> spec
    strace = record_selectors(ctx, rnd, 12000 if ctx.thorough else 2500, worst)
    gtrace = record_groupby(ctx, rnd, 6000 if ctx.thorough else 1200, gworst)
    sdemo = [{"op": "sel", "ast": r["ast"], "val": vals[j], "res": r["res"][j], "exc": ""}
             for j, r in enumerate([r2 for r2 in recs[len(recs) // 2:len(recs) // 2 + 40] if "U" not in r2["res"][:8]][:8])]

    def corrupt_groups(r):
        if len(r["groups"]) < 2:
            return None
        g = [list(x) for x in r["groups"]]
        g[1] = sorted(g[1] + [g[0].pop()])
        return dict(r, groups=[x for x in g if x])
    # the demonstrations use behaviours of the specification itself, so they do not depend on the tree under test
    demo = [{"G": r["G"], "M": r["M"], "ctxs": [it["c"] for it in r["flow"]], "now": [it["c"] for it in r["flow"]],
             "groups": r["groups"]}
            for r in flrecs if all(it["op"] == "fill" for it in r["flow"]) and len(r["groups"]) >= 2][-30:]
    def demos():      # (one after the other: core.binding_demo uses one scratch file name)
        ctx.binding_demo("Trace_Selectors", "Trace_Selectors.cfg", sdemo,
                         lambda r: dict(r, res="T" if r["res"] == "F" else "F"))
        ctx.binding_demo("Trace_GroupBy", "Trace_GroupBy.cfg", demo, corrupt_groups)
    jobs = [pool.submit(demos),
            pool.submit(check_sel_trace, ctx, strace, worst),
            pool.submit(check_gb_trace, ctx, gtrace, gworst)]
    for j in jobs:
        j.result()
    pool.shutdown()
    report_selector(ctx, worst)
    report_groupby(ctx, gworst)
    return ctx.finish(
        rule="S2C: every specification of the exported universe (depth <= 2 quick / <= 3 thorough over strings, classes, "
             "total and raising callables, lists, tuples, Selector/Not/And/Or/SelectContext objects, both "
             "raise_on_error settings; callables and SelectContext predicates raising each of twelve exception classes, "
             "the class that reaches the caller compared) on 30 values (context leaves: numbers, strings, None, False, empty and "
             "non-empty lists / tuples, strings containing the tested level); every behaviour of the Filter machine; every key set accepted "
             "by make_include_exclude_tree over {'', a, b, a.b, a.c, a.b.c}, written shortest key first and deepest key first "
             "(thorough: in every order), on one flow holding every context of the "
             "universe (partition compared with the SameGroup classes) and every behaviour of the fill machine, with a "
             "context object per value and with context objects shared between values and modified in place by the source "
             "(every settled pair of values compared at every compute() and at the end); "
             "C2S: seeded random deeper specifications / key sets validated by Trace_Selectors / Trace_GroupBy",
        exhaustive=True)
