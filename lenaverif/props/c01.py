"""C01  Sequence and Source compute the left-to-right composition of their elements.

spec/Flow.tla (coroutine machine) + spec/FlowSem.tla (Sem) checked by TLC; every terminal state of
the bounded model is replayed on real Sequence / nested Sequences / Source; larger random programs
are recorded and validated by spec/Trace_Flow.tla.
"""
import random

from .. import core
from .. import flowlib as fl
from ..util import exc_name


def run_real(prog, n, pairs, shape, as_source, flowkind="iter", calls=1):
    """Build fresh elements in the given bracketing and run.  Returns (built, out).

    flowkind: how the flow is handed over - "iter" (an iterator), "list" / "tuple" (re-iterable
    containers; for a Source the container itself is the first element).  calls > 1: the same
    Source object is called repeatedly (a container-based Source generates the same flow each time);
    the outputs of all calls must be equal and are returned once."""
    import lena.core
    els = [fl.build_stage(st, pairs) for st in prog]
    flow = [fl.make_value(i, pairs) for i in range(n)]
    given = {"iter": lambda: iter(flow), "list": lambda: list(flow), "tuple": lambda: tuple(flow)}[flowkind]
    try:
        args = fl.nest(els, shape)
        if as_source:
            first = (lambda: iter(flow)) if flowkind == "iter" else given()
            with fl.quiet_warnings():
                seq = lena.core.Source(first, *args)
        else:
            seq = lena.core.Sequence(*args)
    except lena.core.LenaTypeError:
        return "LenaTypeError", None
    except Exception as exc:    # noqa
        return exc_name(exc), None
    try:
        with fl.quiet():
            outs = []
            for _ in range(calls):
                res = seq() if as_source else seq.run(given())
                outs.append([fl.project(v) for v in res])
            out = outs[0]
            if any(o != out for o in outs[1:]):
                return "ok", {"calls-differ": outs}
    except Exception as exc:    # noqa
        return "ok", "raised-at-run " + exc_name(exc)
    return "ok", out


def bad_source_first(ctx):
    """The first argument of a Source must be callable or iterable: anything else is rejected with
    LenaTypeError at construction, with or without a tail (never later, when the Source is called)."""
    import lena.core
    import lena.flow
    tails = [(), (lambda x: x,), (lena.flow.Slice(2),), (lena.flow.Count(), lena.core.Sequence())]
    for name, first in (("int", 1), ("none", None), ("obj", fl.NoRun()), ("float", 2.5), ("runnone", fl.RunNotCallable())):
        for tail in tails:
            ctx.evaluations += 1
            try:
                with fl.quiet_warnings():
                    lena.core.Source(first, *tail)
                res = "accepted"
            except lena.core.LenaTypeError:
                res = "LenaTypeError"
            except Exception as exc:    # noqa
                res = exc_name(exc)
            if res != "LenaTypeError":
                ctx.violation("build:source-first:%s:tail=%d:%s" % (name, len(tail), res), {"first": name})


def stateless(prog):
    """Programs whose elements can be run twice (accumulators keep state between runs)."""
    return all(st["t"] not in ("sum", "last", "count", "split") for st in prog)


def replay(ctx, rec, all_shapes=True):
    prog, n, pairs = rec["prog"], rec["n"], rec["pairs"]
    exp_out = [fl.norm_spec_val(v) for v in rec["out"]]
    shapes = fl.shapes(len(prog)) if all_shapes else [list(range(len(prog)))]
    ok = True
    variants = [(shape, src, "iter", 1) for shape in shapes for src in (False, True)]
    flat = list(range(len(prog)))
    # the flow may be any finite iterable: re-iterable containers, flat and with the first element nested
    variants += [(flat, False, "list", 1), (flat, False, "tuple", 1), (flat, True, "list", 1)]
    if len(prog) >= 1:
        variants.append(([[0]] + flat[1:], False, "list", 1))
    if stateless(prog):
        # a Source over a container generates the same flow on every call
        variants += [(flat, True, "list", 2), (flat, True, "iter", 2)]
        # ... and a Sequence of stateless elements computes the same composition on every run
        variants += [(flat, False, "iter", 2), (flat, False, "list", 2)]
    if any(st["t"] == "split" and any(b["t"] == "seqsum" for b in st["brs"]) for st in prog):
        # regrouping inside a Split branch that is a Sequence object
        variants = [v + (k,) for v in variants[:6] for k in range(4)]
    else:
        variants = [v + (0,) for v in variants]
    for shape, as_source, flowkind, calls, brnest in variants:
        fl.BRANCH_NEST[0] = brnest
        built, out = run_real(prog, n, pairs, shape, as_source, flowkind, calls)
        ctx.evaluations += 1
        if built != rec["built"]:
            ok = False
            kinds = "+".join(st["t"] if st["t"] != "bad" else "bad:" + st["k"] for st in prog)
            ctx.violation("build:%s:expected=%s:got=%s" % (kinds, rec["built"], built),
                          {"prog": prog, "shape": shape, "source": as_source})
        elif built == "ok" and out != exp_out:
            ok = False
            kinds = "+".join(st["t"] for st in prog)
            ctx.violation("run:%s%s%s%s" % (kinds, ":source" if as_source else "",
                                            "" if flowkind == "iter" else ":flow=" + flowkind,
                                            "" if calls == 1 else ":calls=%d" % calls),
                          {"prog": prog, "n": n, "pairs": pairs, "shape": shape, "source": as_source,
                           "flowkind": flowkind, "calls": calls, "branch_grouping": brnest,
                           "expected": exp_out, "observed": out})
    fl.BRANCH_NEST[0] = 0
    return ok


def run(ctx):
    import lena.core
    tag = "thorough" if ctx.thorough else "quick"
    ctx.assume("element vocabulary of spec/FlowSem.tla; contexts abstracted to their top-level keys "
               "(count key with its value)")
    ctx.mc("Flow", "Flow_c01_%s.cfg" % tag, coverage=True,
           must_cover=("Ask", "StageNeed", "StageHave", "StageEof", "Source", "Deliver"))
    recs = ctx.export("Flow", "Flow_c01_%s_export.cfg" % tag, min_records=500)
    for k, rec in enumerate(recs):
        replay(ctx, rec, all_shapes=(not ctx.thorough) or len(rec["prog"]) <= 2 or k % 7 == 0)
        ctx.traces += 1
        if rec["prog"] and rec["n"]:
            ctx.distinct.add(core.canon([rec["prog"], rec["n"], rec["pairs"]]))
    ctx.sample({"spec_behaviour": recs[len(recs) // 2]})
    ctx.sample({"spec_behaviour": recs[-1]})
    # callables whose result is None: one output per input, None is a value like any other
    recs_nul = ctx.export("Flow", "Flow_c01_nul.cfg", min_records=200)
    for rec in recs_nul:
        replay(ctx, rec, all_shapes=False)
        ctx.traces += 1
        if rec["prog"] and rec["n"]:
            ctx.distinct.add(core.canon([rec["prog"], rec["n"], rec["pairs"]]))
    ctx.sample({"spec_behaviour_none_values": recs_nul[len(recs_nul) // 2]})
    bad_source_first(ctx)
    # empty Sequence is the identity also on arbitrary objects
    objs = [object(), "s", (1, {}), None]
    if list(lena.core.Sequence().run(iter(objs))) != objs:
        ctx.violation("empty-sequence-identity", {})
    # ---- code -> spec: larger random programs in random bracketings, validated by Trace_Flow
    rnd = random.Random(ctx.seed)
    alphabet = ["map", "map", "filter", "slice", "lagk", "lastk", "count", "runif", "reverse", "end",
                "sum", "last", "split"]
    trace = []
    ntr = 1500 if ctx.thorough else 300
    attempts = 0
    while len(trace) < ntr and attempts < 2 * ntr:
        attempts += 1
        prog = [fl.random_stage(rnd, alphabet) for _ in range(rnd.randint(0, 6))]
        n, pairs = rnd.randint(0, 12), rnd.random() < 0.6
        if not pairs and any(st.get("f") == "id" for st in prog):
            pass     # Print is used for bare data
        shape = random_shape(rnd, list(range(len(prog))))
        built, out = run_real(prog, n, pairs, shape, rnd.random() < 0.3, rnd.choice(["iter", "iter", "list", "tuple"]))
        if built != "ok" or not isinstance(out, list):
            ctx.violation("random-run:%s" % (out if built == "ok" else built), {"prog": prog, "n": n, "shape": shape})
            continue
        trace.append({"prog": prog, "n": n, "pairs": pairs, "out": out, "pulls": [], "lazy": False,
                      "shape": repr(shape)})
    if not trace:
        return ctx.finish(rule="no random program could be run on the real code (reported as violations)")
    acc = ctx.validate("Trace_Flow", "Trace_Flow.cfg", trace)
    ctx.traces += acc
    ctx.evaluations += len(trace)
    for r in trace[:acc]:
        ctx.distinct.add(core.canon(r))
    if acc < len(trace):
        r = trace[acc]
        ctx.violation("Trace_Flow:rejected:%s" % "+".join(st["t"] for st in r["prog"]), {"record": r, "index": acc})
    ctx.sample({"recorded_trace_record": trace[min(3, len(trace) - 1)]})
    # binding demonstration (only when the recorded trace itself was accepted)
    if acc == len(trace) and not ctx.violations:
        bad = [dict(r) for r in trace[:30]]
        k = next(i for i, r in enumerate(bad) if r["out"])
        bad[k] = dict(bad[k], out=bad[k]["out"][1:])
        acc2 = ctx.validate("Trace_Flow", "Trace_Flow.cfg", bad, label="corrupt")
        if acc2 != k:
            raise core.MachineryError("Trace_Flow does not bind: corrupted %d accepted %d" % (k, acc2))
        ctx.extra["binding_demo"] = "record %d with its first output removed is rejected at index %d" % (k, acc2)
    return ctx.finish(
        rule="S2C: all programs of the bounded Flow model x flows x {bare, pairs}, each in every bracketing "
             "and as a Source tail; non-trivial = non-empty program and flow; C2S: seeded random programs "
             "(<= 6 stages, random nesting) validated by Trace_Flow",
        exhaustive=True)


def random_shape(rnd, idx):
    """Random nesting of the index list."""
    if len(idx) <= 1 or rnd.random() < 0.4:
        return list(idx)
    i = rnd.randint(0, len(idx) - 1)
    j = rnd.randint(i + 1, len(idx))
    return list(idx[:i]) + [random_shape(rnd, idx[i:j])] + list(idx[j:])
