"""C01  Sequence and Source compute the left-to-right composition of their elements.

spec/Flow.tla (coroutine machine) + spec/FlowSem.tla (Sem) checked by TLC; every terminal state of
the bounded models is replayed on real Sequence / nested Sequences / Source; larger random programs
are recorded and validated by spec/Trace_Flow.tla.

Bounded models (configurations of Flow.tla):
  Flow_c01_<tier>      all programs over the element vocabulary (AlphaC01)
  Flow_c01_ext*        elements without data (SetContext), callables of every kind, negative Slices in all
                       sign patterns, Split with no / tuple / Sequence / nested-Split branches, bufsize None..
  Flow_c01_bad         arguments that cannot be converted (also values that look like nothing, half
                       interfaces, nested in Split / RunIf): LenaTypeError at construction
  Flow_c01_nul         callables returning None
  Flow_c01_vals        flows of None, False, "", {}, [], (), 0, bare and in pairs
  Flow_c01_rerun*      the same pipeline object run again after a complete, an abandoned or a failed run
  Flow_c01_obj*        how an argument is given: elements whose class is also a named tuple / list / dict /
                       equal to everything (Hosted), static context elements of every kind also BEFORE the
                       generator of a Source (lead; also in Flow_c01_ext*), Split with copy_buf=False
  Flow_c01_lead_thorough   deeper argument lists that start with static context elements
"""
import random
import threading
import time
from concurrent.futures import ThreadPoolExecutor

from .. import core
from .. import flowlib as fl
from ..util import exc_name


class InputError(Exception):
    """raised by the instrumented input (Abort of spec/Flow.tla)"""


def kinds_of(prog):
    return "+".join(fl.kind_name(st) for st in prog)


def build(prog, pairs, shape, mode, first=None, nsplit=0, share=False, lead=0):
    """Fresh elements in the given bracketing.  mode: "seq" | "source" | "nsource" (a Source whose first
    element is a Source holding the first nsplit elements).  share: equal descriptors become ONE object.
    lead (spec/Flow.tla): the first lead elements (they have no data) stand BEFORE the generator of the Source;
    shape and nsplit then refer to the elements after them.  mode "nsource-outer": the leading elements
    stand in the outer Source, before the inner one."""
    import lena.core
    els = []
    for i, st in enumerate(prog):
        j = next((j for j in range(i) if share and prog[j] == st and fl.reusable(st)), None)
        els.append(els[j] if j is not None else fl.build_stage(st, pairs))
    head, els = els[:lead], els[lead:]
    if mode == "nsource":
        with fl.quiet_warnings():
            inner = lena.core.Source(*(head + [first] + els[:nsplit]))
            return lena.core.Source(inner, *els[nsplit:])
    if mode == "nsource-outer":
        with fl.quiet_warnings():
            inner = lena.core.Source(first, *els[:nsplit])
            return lena.core.Source(*(head + [inner] + els[nsplit:]))
    args = fl.nest(els, shape)
    if mode == "source":
        with fl.quiet_warnings():
            return lena.core.Source(*(head + [first] + args))
    assert not lead
    return lena.core.Sequence(*args)


def source_first(flow, kind):
    """First element of a Source that generates *flow* on every call."""
    if kind == "iter":
        return lambda: iter(list(flow))
    if kind == "gen":
        def generate():
            for v in list(flow):
                yield v
        return generate
    if kind == "cls":
        return fl.iterator_class(flow)
    return fl.hand_over(flow, kind)        # a re-iterable container is the first element itself


def run_real(prog, flow, pairs, shape, mode="seq", kind="iter", calls=1, nsplit=0, share=False, partial=False,
             lead=0):
    """Build and run.  Returns (built, out).  calls > 1: the same object is run repeatedly on the same
    flow (a container-based Source generates the same flow each time); all outputs must be equal."""
    import lena.core
    try:
        first = source_first(flow, kind) if mode != "seq" else None
        seq = build(prog, pairs, shape, mode, first, nsplit, share, lead)
    except lena.core.LenaTypeError:
        return "LenaTypeError", None
    except Exception as exc:    # noqa
        return exc_name(exc), None
    got = []
    try:
        with fl.quiet():
            outs = []
            for _ in range(calls):
                res = seq.run(fl.hand_over(flow, kind)) if mode == "seq" else seq()
                got = []
                for v in res:
                    got.append(fl.project(v))
                outs.append(got)
            out = outs[0]
            if any(o != out for o in outs[1:]):
                return "ok", {"calls-differ": outs}
    except Exception as exc:    # noqa
        if partial:
            return "ok", {"raised": exc_name(exc), "before": got}
        return "ok", "raised-at-run " + exc_name(exc)
    return "ok", out


def bad_source_first(ctx):
    """The first argument of a Source must be callable or iterable: anything else is rejected with
    LenaTypeError at construction, with or without a tail (never later, when the Source is called)."""
    import lena.core
    import lena.flow
    import lena.meta
    tails = [(), (lambda x: x,), (lena.flow.Slice(2),), (lena.flow.Count(), lena.core.Sequence()),
             (lena.meta.SetContext("s", 1),)]
    for name, first in (("int", 1), ("none", None), ("obj", fl.NoRun()), ("float", 2.5), ("runnone", fl.RunNotCallable()),
                        ("zero", 0), ("false", False), ("fillonly", fl.FillOnly())):
        for tail in tails:
            ctx.evaluations += 1
            try:
                with fl.quiet_warnings():
                    lena.core.Source(first, *tail)
                res = "accepted"
            except lena.core.LenaTypeError:
                res = "LenaTypeError"
            except Exception as exc:    # noqa
                res = exc_name(exc)
            if res != "LenaTypeError":
                ctx.violation("build:source-first:%s:tail=%d:%s" % (name, len(tail), res), {"first": name})


def stateless(prog):
    """Programs whose elements can be run twice (spec/FlowSem.tla Reusable)."""
    return all(fl.reusable(st) for st in prog)


def groupings(prog):
    """Number of equivalent ways to write the grouped arguments of the program's stages (Split branches given
    as tuples / Sequence objects / nested Sequences, the argument list of RunIf); 1: nothing to regroup."""
    n = 1
    for st in prog:
        if st["t"] == "runifs":
            n = max(n, 7)
        if st["t"] == "split":
            for b in st["brs"]:
                n = max(n, {"seqbr": 5, "seqsum": 4, "fcsum": 4}.get(b["t"], 1))
    return n


def sole_tuple(prog, shape):
    """A tuple argument ends up as the ONLY argument of a Sequence (the documented, if unimplemented,
    "single tuple of elements" form): such a construction is left alone."""
    if len(shape) == 1 and not isinstance(shape[0], list):
        st = prog[shape[0]]
        if st["t"] == "bad" and st["k"] in fl.TUPLE_BAD:
            return True
    return any(isinstance(x, list) and sole_tuple(prog, x) for x in shape)


def variants(rec, salt, full, lite=False):
    """The ways one exported scenario is built and driven: (shape, mode, kind, calls, nsplit, share, brnest).
    Flat Sequence and Source always; the other bracketings, flow kinds and reuses rotate with (n, pairs), so
    that the scenarios of one program together cover all of them (full: everything for every scenario)."""
    prog, special = rec["prog"], rec.get("vals") == "special"
    m = len(prog)
    flat = list(range(m))
    rot = rec["n"] * 2 + (1 if rec["pairs"] else 0) + salt
    V = [(flat, "seq", "iter", 1, 0, False), (flat, "source", "iter", 1, 0, False)]
    others = fl.shapes(m)[1:]
    take = len(others) if full else min(1 if lite else 3, len(others))
    for j in range(take):
        sh = others[(rot * 3 + j) % len(others)]
        V += [(sh, "seq", "iter", 1, 0, False), (sh, "source", "iter", 1, 0, False)]
    # the flow may be any finite iterable: re-iterable containers, generators, objects with only __iter__ or
    # only __getitem__; a Source takes a container (or a class of iterators) as its first element
    seqkinds = ["tuple", "gen", "iterable", "getitem", "deque"]
    if not special and not rec["pairs"] and rec.get("base", 0) == 0:
        seqkinds.append("range")
    srckinds = ["tuple", "gen", "iterable", "deque", "cls"]
    V.append((flat, "seq", "list", 1, 0, False))
    V.append((flat, "source", "list", 1, 0, False))
    for j in range(len(seqkinds) if full else 1 if lite else 2):
        V.append((flat, "seq", seqkinds[(rot * 2 + j) % len(seqkinds)], 1, 0, False))
    for j in range(len(srckinds) if full else 1):
        V.append((flat, "source", srckinds[(rot + j) % len(srckinds)], 1, 0, False))
    if m >= 1:
        V.append(([[0]] + flat[1:], "seq", "list", 1, 0, False))
    # a Source whose first element is itself a Source (the first k elements placed there)
    for k in (range(m + 1) if full else [rot % (m + 1)]):
        V.append((flat, "nsource", ["iter", "list"][(rot + k) % 2], 1, k, False))
    if stateless(prog):
        # a Source over a container generates the same flow on every call, and a Sequence of stateless
        # elements computes the same composition on every run
        again = [(flat, "source", "list", 2, 0, False), (flat, "source", "iter", 2, 0, False),
                 (flat, "seq", "iter", 2, 0, False), (flat, "seq", "list", 2, 0, False)]
        V += again if full else [again[rot % 4]] if lite else [again[rot % 4], again[(rot + 1) % 4]]
        if any(prog[i] == prog[j] for i in range(m) for j in range(i)):
            # the same element object may occur twice
            V += [(flat, "seq", "iter", 1, 0, True), (flat, "source", "list", 1, 0, True)]
    if groupings(prog) > 1:
        # regrouping inside a Split branch (nested Sequences, tuple or sequence object) and of the arguments of RunIf
        V = [v + (k,) for v in V[:6 if full else 4] for k in range(groupings(prog))]
    else:
        V = [v + (0,) for v in V]
    return V


def variants_lead(rec, salt, full):
    """Scenarios of spec/Flow.tla with lead > 0: Source(e1..e_lead, generator, e_lead+1..en).  Only a Source has
    a generator among its arguments; the elements after it in rotating bracketings, the generator of several
    kinds, the Source nested in a Source (with the leading elements inside or outside)."""
    prog, lead = rec["prog"], rec["lead"]
    m = len(prog) - lead
    flat = list(range(m))
    rot = rec["n"] * 2 + (1 if rec["pairs"] else 0) + salt
    srckinds = ["list", "tuple", "gen", "iterable", "deque", "cls"]
    V = [(flat, "source", "iter", 1, 0, False)]
    for j in range(len(srckinds) if full else 1):
        V.append((flat, "source", srckinds[(rot + j) % len(srckinds)], 1, 0, False))
    others = fl.shapes(m)[1:]
    for j in range(len(others) if full else min(2, len(others))):
        V.append((others[(rot * 2 + j) % len(others)], "source", "iter", 1, 0, False))
    for k in (range(m + 1) if full else [rot % (m + 1)]):
        V.append((flat, "nsource", ["iter", "list"][(rot + k) % 2], 1, k, False))
        V.append((flat, "nsource-outer", ["list", "iter"][(rot + k) % 2], 1, k, False))
    if stateless(prog):
        V.append((flat, "source", ["list", "iter"][rot % 2], 2, 0, False))
    return [v + (0,) for v in V]


def replay(ctx, rec, full=True, lite=False):
    prog, n, pairs = rec["prog"], rec["n"], rec["pairs"]
    lead = rec.get("lead", 0)
    exp_out = [fl.norm_spec_val(v) for v in rec["out"]]
    ok = True
    if lead:
        V = variants_lead(rec, ctx.seed, full)
    elif rec["built"] != "ok":
        # nothing is run: every bracketing must be rejected at construction
        V = [(sh, mode, "iter", 1, 0, False, 0) for sh in fl.shapes(len(prog)) for mode in ("seq", "source")
             if not sole_tuple(prog, sh)]
    else:
        V = variants(rec, ctx.seed, full, lite)
    for shape, mode, kind, calls, nsplit, share, brnest in V:
        fl.BRANCH_NEST[0] = brnest
        # a fresh flow every time: elements may write into the contexts they are given (Count)
        flow = fl.make_flow(n, pairs, rec.get("base", 0), rec.get("vals", "nat"))
        built, out = run_real(prog, flow, pairs, shape, mode, kind, calls, nsplit, share, partial=rec.get("failed", False),
                              lead=lead)
        ctx.evaluations += 1
        if built == "ok" and rec.get("failed"):
            # a callable raises for one value: the values before it (what the lazy machine has delivered, or a
            # prefix of that), then an exception of whatever class - never a quiet end of the flow
            if not (isinstance(out, dict) and "raised" in out and out["before"] == exp_out[:len(out["before"])]):
                ok = False
                ctx.violation("run:%s%s:%s" % (kinds_of(prog), "" if mode == "seq" else ":" + mode,
                                               "ended-quietly" if isinstance(out, list) else "values-before-the-failure"),
                              {"prog": prog, "n": n, "pairs": pairs, "shape": shape, "mode": mode, "flowkind": kind,
                               "expected_before_failure": exp_out, "observed": out})
            continue
        if built != rec["built"]:
            ok = False
            ctx.violation("build:%s%s:expected=%s:got=%s" % (kinds_of(prog), ":generator-after-%d" % lead if lead else "",
                                                             rec["built"], built),
                          {"prog": prog, "shape": shape, "mode": mode, "elements_before_generator": lead})
        elif built == "ok" and out != exp_out:
            ok = False
            ctx.violation("run:%s%s%s%s%s%s%s" % (kinds_of(prog), {"seq": "", "source": ":source", "nsource": ":source-in-source",
                                                                   "nsource-outer": ":source-in-source"}[mode],
                                                  ":generator-after-%d" % lead if lead else "",
                                                "" if kind == "iter" else ":flow=" + kind,
                                                "" if calls == 1 else ":calls=%d" % calls,
                                                ":shared-object" if share else "",
                                                ":vals" if rec.get("vals") == "special" else ""),
                          {"prog": prog, "n": n, "pairs": pairs, "shape": shape, "mode": mode,
                           "flowkind": kind, "calls": calls, "first_in_inner_source": nsplit, "branch_grouping": brnest,
                           "elements_before_generator": lead,
                           "expected": exp_out, "observed": out})
    fl.BRANCH_NEST[0] = 0
    return ok


# ---------------------------------------------------------------- reuse of one pipeline object
def failing_flow(vals, fail_at):
    """An iterator over vals that raises InputError instead of giving the value number fail_at."""
    for i, v in enumerate(vals):
        if i == fail_at:
            raise InputError()
        yield v
    if fail_at >= len(vals):
        raise InputError()


def replay_rerun(ctx, rec, first_runs, k):
    """rec: a second run of spec/Flow.tla (prev = how the first run of the same object ended).  The real
    object is driven through the same first run (exhausted / abandoned after `taken` results by close(),
    by dropping it or by throw() / ended by an exception of its input), then run on the second flow.
    Also interleaved: the second run is made while the first is suspended, which then continues."""
    import lena.core
    prog, pairs = rec["prog"], rec["pairs"]
    p = rec["prev"][0]
    flow1 = fl.make_flow(p["n"], pairs, 0)
    flow2 = fl.make_flow(rec["n"], pairs, rec["base"])
    exp2 = [fl.norm_spec_val(v) for v in rec["out"]]
    modes = [("seq", "iter"), ("source", "iter"), ("seq", "list")]
    mode, kind = modes[k % 3]
    if p["how"] == "raised":
        kind = "iter"
    stopkind = ("close", "abandon", "throw")[(k // 3) % 3]
    key = "rerun:%s:after-%s%s" % (kinds_of(prog), p["how"] if p["how"] != "closed" else stopkind,
                                   "" if mode == "seq" else ":source")
    cur = [None]
    with fl.quiet():
        try:
            seq = build(prog, pairs, list(range(len(prog))), mode, first=lambda: cur[0])
        except Exception as exc:    # noqa
            ctx.violation("build:%s:expected=ok:got=%s" % (kinds_of(prog), exc_name(exc)), {"prog": prog, "mode": mode})
            return

        def start(flow, failing=None):
            if failing is not None:
                given = failing_flow(flow, failing)
            else:
                given = fl.hand_over(flow, kind)
            if mode == "seq":
                return seq.run(given)
            cur[0] = given
            return seq()
        ctx.evaluations += 1
        try:
            g1 = start(flow1, p["pulled"] if p["how"] == "raised" else None)
            out1 = []
            if p["how"] == "exhausted":
                out1 = [fl.project(v) for v in g1]
            elif p["how"] == "raised":
                try:
                    for v in g1:
                        out1.append(fl.project(v))
                except InputError:
                    pass
            else:
                while len(out1) < p["taken"]:
                    out1.append(fl.project(next(g1)))
                if stopkind == "close" and hasattr(g1, "close"):
                    g1.close()
                elif stopkind == "throw" and hasattr(g1, "throw"):
                    try:
                        g1.throw(InputError())
                    except (InputError, StopIteration):
                        pass
                del g1          # dropping the last reference finalises the generator chain
            out2 = [fl.project(v) for v in start(flow2)]
        except Exception as exc:    # noqa
            ctx.violation(key + ":raised:" + exc_name(exc), {"prog": prog, "prev": p, "n": rec["n"]})
            return
        if out2 != exp2:
            ctx.violation(key, {"prog": prog, "first_run": p, "n": rec["n"], "base": rec["base"],
                                "expected": exp2, "observed": out2, "first_run_observed": out1})
            return
        # interleaved: two runs of the same object alive at once
        exp1 = first_runs.get(core.canon([prog, p["n"], pairs]))
        if p["how"] == "closed" and exp1 is not None:
            ctx.evaluations += 1
            try:
                seq = build(prog, pairs, list(range(len(prog))), mode, first=lambda: cur[0])
                g1 = start(flow1)
                o1 = [fl.project(next(g1)) for _ in range(p["taken"])]
                g2 = start(flow2)
                o2 = []
                alive = [True, True]
                while any(alive):       # alternate between the two generators
                    for j, (g, o) in enumerate(((g2, o2), (g1, o1))):
                        if alive[j]:
                            try:
                                o.append(fl.project(next(g)))
                            except StopIteration:
                                alive[j] = False
            except Exception as exc:    # noqa
                ctx.violation(key.replace("rerun:", "interleaved:") + ":raised:" + exc_name(exc), {"prog": prog, "prev": p})
                return
            if o1 != exp1 or o2 != exp2:
                ctx.violation("interleaved:%s%s" % (kinds_of(prog), "" if mode == "seq" else ":source"),
                              {"prog": prog, "n1": p["n"], "n2": rec["n"], "taken_before_second_started": p["taken"],
                               "expected": [exp1, exp2], "observed": [o1, o2]})


def run(ctx):
    import lena.core
    tag = "thorough" if ctx.thorough else "quick"
    ctx.assume("element vocabulary of spec/FlowSem.tla; contexts abstracted to their top-level keys "
               "(count key with its value)")
    lock = threading.Lock()
    account = ctx._account

    def locked_account(*a, **kw):
        with lock:
            return account(*a, **kw)
    ctx._account = locked_account
    ext = "Flow_c01_ext_thorough" if ctx.thorough else "Flow_c01_ext"
    rerun_cfg = "Flow_c01_rerun_thorough.cfg" if ctx.thorough else "Flow_c01_rerun.cfg"
    machine = ("Ask", "StageNeed", "StageHave", "StageEof", "Source", "Deliver")
    w = max(2, ctx.nworkers // 2)
    obj_cfg = "Flow_c01_obj_thorough.cfg" if ctx.thorough else "Flow_c01_obj.cfg"
    with ThreadPoolExecutor(max_workers=11) as pool:
        jobs = {
            "mc": pool.submit(ctx.mc, "Flow", "Flow_c01_%s.cfg" % tag, coverage=True, must_cover=machine),
            "obj": pool.submit(ctx.mc, "Flow", obj_cfg, workers=1, coverage=True, must_cover=machine),
            "export": pool.submit(ctx.export, "Flow", "Flow_c01_%s_export.cfg" % tag, min_records=500),
            "mc_ext": pool.submit(ctx.mc, "Flow", ext + ".cfg", workers=w),
            "ext": pool.submit(ctx.export, "Flow", ext + "_export.cfg", min_records=500),
            "nul": pool.submit(ctx.export, "Flow", "Flow_c01_nul.cfg", min_records=200),
            "bad": pool.submit(ctx.export, "Flow", "Flow_c01_bad.cfg", min_records=200),
            "vals": pool.submit(ctx.export, "Flow", "Flow_c01_vals.cfg", min_records=500),
            "rerun": pool.submit(ctx.mc, "Flow", rerun_cfg, workers=1, coverage=True,
                                 must_cover=machine + ("Stop", "Abort", "Rerun")),
            "fail": pool.submit(ctx.mc, "Flow", "Flow_c01_fail.cfg", workers=1, coverage=True,
                                must_cover=machine + ("Fail",)),
        }
        if ctx.thorough:
            jobs["lead"] = pool.submit(ctx.mc, "Flow", "Flow_c01_lead_thorough.cfg", workers=1, coverage=True,
                                       must_cover=machine)
        res = {k: j.result() for k, j in jobs.items()}

    def note(rec):
        ctx.traces += 1
        if rec["prog"] and rec["n"]:
            ctx.distinct.add(core.canon([rec["prog"], rec["n"], rec["pairs"], rec.get("vals"), rec.get("base"),
                                         rec.get("lead", 0)]))
    cpu = {"tlc_wall": round(time.time() - ctx.t0, 1)}
    t_cpu = [time.process_time()]

    def lap(name):
        now = time.process_time()
        cpu[name] = round(now - t_cpu[0], 1)
        t_cpu[0] = now
    ctx.extra["phase_cpu_s"] = cpu
    recs = res["export"]
    for k, rec in enumerate(recs):
        replay(ctx, rec, full=ctx.thorough and (len(rec["prog"]) <= 2 or k % 4 == 0))
        note(rec)
    ctx.sample({"spec_behaviour": recs[len(recs) // 2]})
    lap("main")
    for k, rec in enumerate(res["ext"]):
        replay(ctx, rec, full=ctx.thorough, lite=(rec["n"] + (1 if rec["pairs"] else 0) + ctx.seed) % 2 == 1)
        note(rec)
    ctx.sample({"spec_behaviour_extended_vocabulary": res["ext"][len(res["ext"]) // 2]})
    lap("ext")
    # the way an argument is given: hosted elements, static context before the generator, copy_buf=False
    objr = res["obj"].records + (res["lead"].records if ctx.thorough else [])
    nlead = sum(1 for r in objr + res["ext"] if r.get("lead"))
    nhost = sum(1 for r in objr if any(st["t"] == "hosted" for st in r["prog"]))
    if len(objr) < 500 or not nhost or not nlead:
        raise core.MachineryError("Flow_c01_obj produced %d records (%d hosted, %d with lead)" % (len(objr), nhost, nlead))
    for rec in objr:
        replay(ctx, rec, full=ctx.thorough and (rec["n"] + ctx.seed) % 2 == 0, lite=True)
        note(rec)
    ctx.extra["hosted_element_scenarios"] = nhost
    ctx.extra["generator_after_static_context_scenarios"] = nlead
    ctx.sample({"spec_behaviour_generator_after_static_context":
                next(r for r in objr if r.get("lead") and r["out"] and len(r["prog"]) > r["lead"])})
    lap("obj")
    # callables whose result is None: one output per input, None is a value like any other
    for rec in res["nul"]:
        replay(ctx, rec, full=False, lite=True)
        note(rec)
    lap("nul")
    # values that look like nothing pass like any other value
    for rec in res["vals"]:
        replay(ctx, rec, full=False, lite=True)
        note(rec)
    ctx.sample({"spec_behaviour_special_values": res["vals"][len(res["vals"]) // 2]})
    lap("vals")
    # unconvertible arguments
    nbad = 0
    for rec in res["bad"]:
        replay(ctx, rec)
        note(rec)
        nbad += rec["built"] != "ok"
    ctx.extra["rejected_at_construction_scenarios"] = nbad
    lap("bad")
    # callables that raise for one value
    fr = res["fail"].records
    if len(fr) < 500 or not any(r["failed"] for r in fr):
        raise core.MachineryError("Flow_c01_fail produced %d records" % len(fr))
    for rec in fr:
        replay(ctx, rec, full=ctx.thorough)
        note(rec)
    ctx.extra["failing_callable_scenarios"] = sum(1 for r in fr if r["failed"])
    ctx.sample({"spec_behaviour_failing_callable": next(r for r in fr if r["failed"] and r["out"])})
    lap("fail")
    # the same object run again
    rr = res["rerun"].records
    if len(rr) < 500:
        raise core.MachineryError("Flow_c01_rerun produced %d records" % len(rr))
    first_runs = {core.canon([r["prog"], r["n"], r["pairs"]]): [fl.norm_spec_val(v) for v in r["out"]]
                  for r in rr if not r["prev"] and r["exhausted"]}
    second = [r for r in rr if r["prev"]]
    for k, rec in enumerate(second):
        replay_rerun(ctx, rec, first_runs, k + ctx.seed)
        note(rec)
    ctx.extra["second_run_scenarios"] = len(second)
    if second:
        ctx.sample({"spec_behaviour_second_run": second[len(second) // 2]})
    lap("rerun")
    bad_source_first(ctx)
    # empty Sequence is the identity also on arbitrary objects
    objs = [object(), "s", (1, {}), None, 0, "", {}, [], ()]
    if list(lena.core.Sequence().run(iter(objs))) != objs:
        ctx.violation("empty-sequence-identity", {})
    # ---- code -> spec: larger random programs in random bracketings, validated by Trace_Flow
    rnd = random.Random(ctx.seed)
    alphabet = ["map", "map", "filter", "slice", "lagk", "lastk", "count", "runif", "reverse", "end",
                "sum", "last", "split", "nslice", "nodata", "splitx", "print", "hosted"]
    trace = []
    ntr = 1500 if ctx.thorough else 300
    attempts = 0
    while len(trace) < ntr and attempts < 2 * ntr:
        attempts += 1
        prog = [fl.random_stage(rnd, alphabet) for _ in range(rnd.randint(0, 6))]
        n, pairs = rnd.randint(0, 12), rnd.random() < 0.6
        mode = "source" if rnd.random() < 0.3 else "seq"
        lead = 0
        if mode == "source" and rnd.random() < 0.5:
            # static context elements before the generator of the Source
            lead = rnd.randint(1, 2)
            prog = [rnd.choice([{"t": "nodata"}, {"t": "nodata", "k": "store"}, {"t": "nodata", "k": "set2"}])
                    for _ in range(lead)] + prog[:5]
        shape = random_shape(rnd, list(range(len(prog) - lead)))
        kind = rnd.choice(["iter", "iter", "list", "tuple", "gen", "iterable", "deque"])
        fl.BRANCH_NEST[0] = rnd.randint(0, 3)
        built, out = run_real(prog, fl.make_flow(n, pairs), pairs, shape, mode, kind, lead=lead)
        fl.BRANCH_NEST[0] = 0
        if built != "ok" or not isinstance(out, list):
            ctx.violation("random-run:%s" % (out if built == "ok" else built), {"prog": prog, "n": n, "shape": shape})
            continue
        trace.append({"prog": prog, "n": n, "pairs": pairs, "out": out, "pulls": [], "lazy": False, "alive": -1,
                      "shape": repr(shape), "lead": lead})
    lap("random")
    if not trace:
        return ctx.finish(rule="no random program could be run on the real code (reported as violations)")
    acc = ctx.validate("Trace_Flow", "Trace_Flow.cfg", trace)
    ctx.traces += acc
    ctx.evaluations += len(trace)
    for r in trace[:acc]:
        ctx.distinct.add(core.canon(r))
    if acc < len(trace):
        r = trace[acc]
        ctx.violation("Trace_Flow:rejected:%s" % "+".join(st["t"] for st in r["prog"]), {"record": r, "index": acc})
    ctx.sample({"recorded_trace_record": trace[min(3, len(trace) - 1)]})
    # binding demonstration (only when the recorded trace itself was accepted)
    if acc == len(trace) and not ctx.violations:
        bad = [dict(r) for r in trace[:30]]
        k = next(i for i, r in enumerate(bad) if r["out"])
        bad[k] = dict(bad[k], out=bad[k]["out"][1:])
        acc2 = ctx.validate("Trace_Flow", "Trace_Flow.cfg", bad, label="corrupt")
        if acc2 != k:
            raise core.MachineryError("Trace_Flow does not bind: corrupted %d accepted %d" % (k, acc2))
        ctx.extra["binding_demo"] = "record %d with its first output removed is rejected at index %d" % (k, acc2)
    return ctx.finish(
        rule="S2C: all programs of the bounded Flow models (vocabulary, extended vocabulary, unconvertible "
             "arguments, None results, special values, second runs) x flows x {bare, pairs}, each flat, in "
             "rotating bracketings, as a Source tail and Source in Source, on iterators / containers / generators; "
             "non-trivial = non-empty program and flow; C2S: seeded random programs "
             "(<= 6 stages, random nesting) validated by Trace_Flow",
        exhaustive=True)


def random_shape(rnd, idx):
    """Random nesting of the index list."""
    if len(idx) <= 1 or rnd.random() < 0.4:
        return list(idx)
    i = rnd.randint(0, len(idx) - 1)
    j = rnd.randint(i + 1, len(idx))
    return list(idx[:i]) + [random_shape(rnd, idx[i:j])] + list(idx[j:])
