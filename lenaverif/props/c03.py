"""C03  Split.run follows its documented block/branch schedule for every branch mix.

spec/Split.tla     operational scheduler (active list + index) = declarative SplitSem (spec/SplitSem.tla);
                   eq (branch elements with an == of their own: equal to everything / Sum-like totals; guard
                   SpecEqDrop), explicit Sequence objects around fill elements (plain Sequences all the same);
                   scenario families: classic (<= 2 branches, 13 kinds), wide (every mix of the four classes,
                   <= 4 branches), forms (every way of handing a branch to Split, result multiplicities,
                   Sources with tails, Splits as branches), modes (the same object rerun / abandoned /
                   two runs interleaved)
spec/SplitCT.tla   common-type fill/compute, fill/request, __call__ and Zip (reset, fields)
spec/Trace_Split.tla   validation of recorded runs of larger configurations
"""
import collections
import itertools
import random

from .. import core
from .. import splitlib as sl
from .. import tlcpar
from ..util import exc_name

NONE = sl.NONE
# flow values that an implementation might confuse with "nothing" (identity / type is compared)
ODD_VALUES = [0, None, False, "", (), 0.0, [], {}, (None, {}), ("d", {}), StopIteration, [[]]]


def kind_key(k):
    if k["t"] == "nest":
        ibs = k.get("ibs", NONE)
        return "nest[%s]%s" % ("+".join(kind_key(x) for x in k["sub"]), "" if ibs == NONE else "@%s" % ibs)
    s = k["t"] + ("" if k.get("stop", NONE) == NONE else str(k["stop"]))
    if k.get("form", "el") != "el":
        s += "/" + k["form"]
    m = k.get("m", NONE)
    if m != NONE and not (k["t"] == "src" and m == 2):
        s += "*%d" % m
    if k.get("eq", "id") != "id":
        s += "~" + k["eq"]
    return s


def kinds_key(brs):
    return "+".join(kind_key(k) for k in brs) or "empty"


def bs_key(bs):
    return "None" if bs == NONE else str(bs)


def flat_kinds(brs):
    for k in brs:
        if k["t"] == "nest":
            for x in flat_kinds(k["sub"]):
                yield x
        else:
            yield k


def make_or_violation(ctx, brs, bs, copy_buf):
    """Construct the Split; a construction failure is reported under a key that names the offending
    branch forms (not the whole scenario)."""
    try:
        return sl.make_split(brs, bs, copy_buf)
    except Exception as exc:   # noqa
        offenders = set()
        for k in brs:
            try:
                sl.make_split([k], bs, copy_buf)
            except Exception:   # noqa
                form = k.get("form", "el")
                offenders.add(k["t"] + "/" + ("tuple" if form in ("tup", "pp", "sl") else form))
        ctx.violation("Split.__init__:raised:%s:%s:bs=%s" % (exc_name(exc), "+".join(sorted(offenders)) or kinds_key(brs),
                                                             bs_key(bs)),
                      {"brs": brs, "bs": bs, "copy_buf": copy_buf, "exception": repr(exc)})
        return None


def run_list(s, flow):
    with sl.deadline(3):
        return [sl.untag(v) for v in itertools.islice(s.run(flow), sl.CAP)]


# ---------------------------------------------------------------------------------------------- odd values
def odd_ok(brs):
    """Odd flow values make sense unless a branch computes with the values (filt: v % 2, pp: v + 100)."""
    return all(k["t"] != "filt" and k.get("form", "el") not in ("pp", "sqpp") for k in flat_kinds(brs))


def odd_res_ok(brs):
    """Odd results make sense unless an element behind the branch element looks into the results
    (pp: post-processing retags them; Sources with a tail)."""
    return all(k.get("form", "el") not in ("pp", "sqpp", "fct") and not (k["t"] == "src" and k.get("form", "el") == "obj")
               for k in flat_kinds(brs))


def kind_of_tag(brs, b):
    if b >= 10:
        return brs[b // 10 - 1]["sub"][b % 10 - 1]
    return brs[b - 1]


def subst(exp, brs, objs):
    """Expected records over positions -> expected records over the objects at these positions:
    every payload entry becomes (is_flow_value, item)."""
    res = []
    for r in exp:
        k, p = r["k"], r["p"]
        if k in ("c", "r"):
            kd = kind_of_tag(brs, r["b"])
            if kd["t"] == "src":            # Source with a fill/compute tail: not flow values
                q = [(False, x) for x in p]
            elif kd.get("m", NONE) != NONE:
                q = [(False, p[0])] + [(True, objs[i]) for i in p[1:]]
            else:
                q = [(True, objs[i]) for i in p]
        elif k in ("m", "id"):
            q = [(True, objs[i]) for i in p]
        else:
            q = [(False, x) for x in p]
        res.append({"b": r["b"], "k": k, "p": q})
    return res


def same_obj(a, b, identity):
    if identity:
        return a is b
    if type(a) is not type(b):
        return False
    if isinstance(a, (list, tuple)):
        return len(a) == len(b) and all(same_obj(x, y, False) for x, y in zip(a, b))
    return a == b or (a != a and b != b)


def same_out(got, exp, identity):
    if len(got) != len(exp):
        return False
    for g, e in zip(got, exp):
        if g["b"] != e["b"] or g["k"] != e["k"] or len(g["p"]) != len(e["p"]):
            return False
        for x, (is_value, y) in zip(g["p"], e["p"]):
            if is_value:
                if not same_obj(x, y, identity):
                    return False
            elif type(x) is not type(y) or x != y:
                return False
    return True


# ---------------------------------------------------------------------------------------------- replay
def replay_run(ctx, rec, idx=0):
    brs, n, bs, exp = rec["brs"], rec["N"], rec["bs"], rec["out"]
    mode, cut = rec.get("mode", "rerun"), rec.get("cut")
    key = kinds_key(brs)
    ok = True
    for copy_buf in (True, False):
        made = make_or_violation(ctx, brs, bs, copy_buf)
        if made is None:
            ok = False
            continue
        s, bld = made
        detail = {"brs": brs, "N": n, "bs": bs, "copy_buf": copy_buf, "expected": exp}
        if mode == "rerun":
            # run 1 on an iterator; run 2 = Rerun of Split.tla on the same object, fed from another kind of
            # flow (list / tuple / range / generator): Split.run accepts any iterable
            fk = "gen" if sl.WATCHDOG["hit"] else sl.FLOW_KINDS[1 + (idx + int(copy_buf)) % 4]
            try:
                out1 = run_list(s, iter(range(n)))
            except Exception as exc:   # noqa
                out1 = "raised " + exc_name(exc)
            if out1 != exp:
                ok = False
                ctx.violation("Split.run:%s:bs=%s:N=%d" % (key, bs_key(bs), n), dict(detail, observed=out1))
                continue
            bld.hreset()
            try:
                out2 = run_list(s, sl.make_flow(range(n), fk))
            except Exception as exc:   # noqa
                out2 = "raised " + exc_name(exc)
            if out2 != exp:
                ok = False
                # is it the second use of the object, or the kind of flow?
                try:
                    fresh = sl.run_split(brs, n, bs, copy_buf, flow=fk)
                except Exception as exc:   # noqa
                    fresh = "raised " + exc_name(exc)
                if fresh != exp:
                    ctx.violation("Split.run:%s-flow:%s" % (fk, key), dict(detail, flow=fk, observed=fresh))
                else:
                    ctx.violation("Split.run:second-run-of-same-object:%s" % key, dict(detail, second_run=out2))
                continue
            # "every flow": arbitrary objects, the falsy ones included
            if n and odd_ok(brs):
                objs = [ODD_VALUES[(i + idx) % len(ODD_VALUES)] for i in range(n)]
                bld.hreset()
                try:
                    with sl.deadline(3):
                        got = [sl.untag(v) for v in itertools.islice(s.run(iter(objs)), sl.CAP)]
                except Exception as exc:   # noqa
                    got = "raised " + exc_name(exc)
                # values are compared by type and equality: whether a branch sees the very object or a copy
                # is the subject of C04 (copy_buf), not of the schedule
                if isinstance(got, str) or not same_out(got, subst(exp, brs, objs), identity=False):
                    ok = False
                    ctx.violation("Split.run:odd-values:%s" % key,
                                  dict(detail, flow=repr(objs), observed=repr(got)))
            # results are arbitrary objects too: None, 0, "", (), [], False, StopIteration (class and instance)
            # yielded by Sources, compute() and request() must come through like any other result
            if exp and odd_res_ok(brs):
                omode = ("none", "mix")[(idx + int(copy_buf)) % 2]
                bld.hreset()
                with sl.odd_results(omode):
                    try:
                        with sl.deadline(3):
                            got = list(itertools.islice(s.run(iter(range(n))), sl.CAP))
                    except Exception as exc:   # noqa
                        got = "raised " + exc_name(exc)
                    want = [sl.expected_result(r) for r in exp]
                if isinstance(got, str) or len(got) != len(want) or not all(sl.same_result(a, b) for a, b in zip(got, want)):
                    ok = False
                    ctx.violation("Split.run:odd-results:%s" % key,
                                  dict(detail, results=omode, expected_values=repr(want), observed=repr(got)))
        elif mode == "abort":
            # Abort of Split.tla: the consumer takes cut.n results and closes the generator ...
            try:
                g = s.run(iter(range(n)))
                with sl.deadline(3):
                    first = [sl.untag(v) for v in sl.take(g, cut["n"])]
                    g.close()
                bld.hreset()
                second = run_list(s, iter(range(n)))
            except Exception as exc:   # noqa
                first, second = "raised " + exc_name(exc), None
            if first != exp[:cut["n"]] or second != exp:
                ok = False
                ctx.violation("Split.run:run-after-abandoned-run:%s" % key,
                              dict(detail, cut=cut, first=first, second=second))
            # ... or the flow raises when the next block is read: the exception reaches the caller after
            # the results of the blocks read so far, and the object can be run again
            if cut["ph"] == "read" and cut["pos"] < n:
                made = make_or_violation(ctx, brs, bs, copy_buf)
                if made is None:
                    continue
                s, bld = made
                got, err = [], None
                try:
                    with sl.deadline(3):
                        for v in itertools.islice(s.run(sl.raising_flow(n, cut["pos"])), sl.CAP):
                            got.append(sl.untag(v))
                except sl.FlowBoom:
                    err = "FlowBoom"
                except Exception as exc:   # noqa
                    err = exc_name(exc)
                bld.hreset()
                try:
                    second = run_list(s, iter(range(n)))
                except Exception as exc:   # noqa
                    second = "raised " + exc_name(exc)
                if err != "FlowBoom" or got != exp[:cut["n"]] or second != exp:
                    ok = False
                    ctx.violation("Split.run:run-after-raising-flow:%s" % key,
                                  dict(detail, cut=cut, error=err, before_error=got, second=second))
        elif mode == "inter":
            # Suspend / Resume: a second run of the same object while the first generator is alive
            try:
                g1 = s.run(iter(range(n)))
                with sl.deadline(3):
                    first = [sl.untag(v) for v in sl.take(g1, cut["n"])]
                    second = [sl.untag(v) for v in itertools.islice(s.run(iter(range(n))), sl.CAP)]
                    rest = [sl.untag(v) for v in itertools.islice(g1, sl.CAP)]
            except Exception as exc:   # noqa
                first, second, rest = "raised " + exc_name(exc), None, []
            if isinstance(first, str) or first + rest != exp or second != exp:
                ok = False
                ctx.violation("Split.run:interleaved-runs:%s" % key,
                              dict(detail, cut=cut, first_run=[first, rest], second_run=second))
    ctx.case(["run", mode, cut, brs, n, bs], nontrivial=bool(brs) and n > 0)
    return ok


class SubSource(object):
    cls = None


def ct_elements(kind, nb, ms, form):
    import lena.core
    if SubSource.cls is None:
        SubSource.cls = type("MySource", (lena.core.Source,), {})
    els = []
    for b in range(nb):
        if kind == "src":
            els.append((SubSource.cls if form == "sub" else lena.core.Source)(sl.TSrc(b + 1, ms[b])))
            continue
        el = sl.TFC(b + 1, None, ms[b]) if kind == "fc" else sl.TFR(b + 1, None, ms[b])
        if form == "tup":
            el = (el,)
        elif form == "obj":
            el = (lena.core.FillComputeSeq(el) if kind == "fc"
                  else lena.core.FillRequestSeq(el, reset=False, buffer_input=True))
        els.append(el)
    return els


def ct_ops(obj, hist):
    outs = []
    for op in hist:
        if op[0] == "f":
            obj.fill(op[1])
        elif op[0] == "c":
            outs.append(list(obj.compute()))
        elif op[0] == "r":
            outs.append(list(obj.request()))
        elif op[0] == "x":
            obj.reset()
        elif op[0] == "call":
            outs.append(list(obj()))
    return outs


def replay_ct(ctx, rec):
    """Common-type methods of Split and Zip driven along a behaviour of SplitCT.tla."""
    import lena.core
    import lena.flow
    kind, nb, ms, zipped = rec["kind"], rec["nb"], rec["ms"], rec["zip"]
    form, zipf = rec.get("form", "el"), rec.get("zipf", "none")
    fields = {"none": None, "list": ["f%d" % i for i in range(nb)], "str": " ".join("f%d" % i for i in range(nb))}[zipf]
    key = "%s:%s:nb=%d" % ("Zip" if zipped else "Split", kind, nb)
    ctx.case(["ct", kind, nb, ms, zipped, form, zipf, rec["hist"]], nontrivial=len(rec["hist"]) > 1)
    good = True
    for copy_buf in ((True,) if zipped else (True, False)):
        els = ct_elements(kind, nb, ms, form)
        try:
            if zipped:
                obj = lena.flow.Zip(els, name="zz", fields=fields) if fields else lena.flow.Zip(els)
            else:
                obj = lena.core.Split(els, copy_buf=copy_buf)
        except Exception as exc:   # noqa
            ctx.violation("%s.__init__:raised:%s:%s/%s" % ("Zip" if zipped else "Split", exc_name(exc), kind, form),
                          {"scenario": rec, "exception": repr(exc)})
            return False
        try:
            if rec.get("prerun"):
                # the object has been used through run before: run leaves it as it was
                list(itertools.islice(obj.run(iter(range(2))), 100))
                for el in els:
                    el.hreset()
            outs = []
            for op in rec["hist"]:
                if op[0] == "f":
                    obj.fill(op[1])
                elif op[0] == "c":
                    outs.append(list(obj.compute()))
                elif op[0] == "r":
                    outs.append(list(obj.request()))
                elif op[0] == "x":
                    obj.reset()
                elif op[0] == "call":
                    outs.append(list(obj()))
        except Exception as exc:   # noqa
            ctx.violation(key + ":raised:" + exc_name(exc), {"scenario": rec, "exception": repr(exc)})
            return False
        got = []
        for o in outs:
            if zipped:
                got.append({"z": [[sl.untag(x) for x in tup] for tup in o]})
                if fields and not all(type(tup).__name__ == "zz" and tup._fields == tuple("f%d" % i for i in range(nb))
                                      for tup in o):
                    ctx.violation("Zip:fields:not-the-named-tuple", {"scenario": rec, "observed": repr(o)})
                    good = False
                if not fields and not all(type(tup) is tuple for tup in o):
                    ctx.violation("Zip:not-a-tuple", {"scenario": rec, "observed": repr(o)})
                    good = False
            else:
                got.append({"s": [sl.untag(x) for x in o]})
        if got != rec["outs"]:
            ctx.violation(key, {"scenario": rec, "copy_buf": copy_buf, "observed": got})
            return False
        # the same operations with results that look like nothing / like an end marker
        for omode in ("none", "mix"):
            with sl.odd_results(omode):
                try:
                    els3 = ct_elements(kind, nb, ms, form)
                    if zipped:
                        obj = lena.flow.Zip(els3, name="zz", fields=fields) if fields else lena.flow.Zip(els3)
                    else:
                        obj = lena.core.Split(els3, copy_buf=copy_buf)
                    oouts = ct_ops(obj, rec["hist"])
                    if zipped:      # named tuples (fields) are checked above: compare the contents
                        oouts = [[tuple(tup) for tup in o] for o in oouts]
                except Exception as exc:   # noqa
                    oouts = "raised " + exc_name(exc)
                if zipped:
                    want = [[tuple(sl.expected_result(x) for x in tup) for tup in o["z"]] for o in rec["outs"]]
                else:
                    want = [[sl.expected_result(x) for x in o["s"]] for o in rec["outs"]]
            if isinstance(oouts, str) or not sl.same_result(oouts, want):
                ctx.violation(key + ":odd-results", {"scenario": rec, "results": omode, "expected_values": repr(want),
                                                     "observed": repr(oouts)})
                good = False
        # a Zip is itself a fill/compute (fill/request) element: as the branch of a Split it yields its tuples
        if zipped and not fields and rec["hist"] and all(op[0] == "f" for op in rec["hist"][:-1]) \
                and rec["hist"][-1][0] in ("c", "r") and len(rec["hist"]) > 1:
            n = len(rec["hist"]) - 1
            for omode in (None, "none"):
                with sl.odd_results(omode):
                    try:
                        sp = lena.core.Split([lena.flow.Zip(ct_elements(kind, nb, ms, form)), sl.TSeq(9)], bufsize=None)
                        r = list(itertools.islice(sp.run(iter(range(n))), sl.CAP))
                    except Exception as exc:   # noqa
                        r = "raised " + exc_name(exc)
                    want = [tuple(sl.expected_result(x) for x in tup) for tup in rec["outs"][-1]["z"]]
                    want += [sl.tag(9, "m", (v,)) for v in range(n)] + [sl.tag(9, "end", (n,))]
                if isinstance(r, str) or not sl.same_result(r, want):
                    ctx.violation("Split.run:Zip-as-branch:%s" % kind, {"scenario": rec, "results": omode,
                                                                       "expected_values": repr(want), "observed": repr(r)})
                    good = False
        # same meaning as run: fill;...;compute == Split.run on the same flow (one result per branch)
        if kind == "fc" and not zipped and rec["hist"] and rec["hist"][-1][0] == "c":
            n = sum(1 for op in rec["hist"] if op[0] == "f")
            els2 = ct_elements(kind, nb, ms, form)
            r = [sl.untag(x) for x in itertools.islice(lena.core.Split(els2, copy_buf=copy_buf).run(iter(range(n))), sl.CAP)]
            if r != got[-1]["s"]:
                ctx.violation("Split:fill+compute!=run", {"scenario": rec, "run": r, "fill_compute": got[-1]["s"]})
                good = False
    return good


def expect_exc(ctx, key, fn, exc_type):
    try:
        fn()
        ctx.violation(key + ":accepted", {})
    except exc_type:
        pass
    except Exception as exc:   # noqa
        ctx.violation(key + ":" + exc_name(exc), {"exception": repr(exc)})
    ctx.case(["misc", key])


def misc(ctx):
    import lena.core
    import lena.flow
    # the empty Split is the identity on arbitrary objects, for every kind of flow
    objs = [object(), "s", (1, {"a": 1}), None, 3.5, 0, "", {}, [], False, (None, {})]
    for copy_buf in (True, False):
        for fk in ("iter", "list", "tuple", "gen"):
            out = list(lena.core.Split([], copy_buf=copy_buf).run(sl.make_flow(objs, fk)))
            ctx.case(["empty-split", copy_buf, fk])
            if len(out) != len(objs) or any(a is not b for a, b in zip(out, objs)):
                ctx.violation("empty-split-identity", {"copy_buf": copy_buf, "flow": fk})
    # bufsize must be a natural number or None
    for bad in (0, -1, 1.5, -2.5):
        expect_exc(ctx, "bufsize:%r" % (bad,), lambda: lena.core.Split([], bufsize=bad), lena.core.LenaValueError)
        expect_exc(ctx, "bufsize:%r:with-branches" % (bad,), lambda: lena.core.Split([sl.TFC(1), sl.TSeq(2)], bufsize=bad),
                   lena.core.LenaValueError)
    # seqs must be a list; its members sequences or convertible to them
    for name, bad in (("tuple", ()), ("tuple1", (sl.TFC(1),)), ("element", sl.TFC(1)), ("None", None),
                      ("generator", (x for x in [sl.TFC(1)]))):
        expect_exc(ctx, "seqs-not-a-list:" + name, lambda: lena.core.Split(bad), lena.core.LenaTypeError)
    for name, bad in (("int", 5), ("None", None), ("str", "abc"), ("object", object())):
        expect_exc(ctx, "unknown-branch-type:" + name, lambda: lena.core.Split([sl.TFC(1), bad]), lena.core.LenaTypeError)
    # __call__ is offered only when every branch is a Source
    for name, els in (("fc", lambda: [sl.TFC(1)]), ("fr", lambda: [sl.TFR(1)]), ("seq", lambda: [sl.TSeq(1)]),
                      ("empty", lambda: []),
                      ("src+fc", lambda: [lena.core.Source(sl.TSrc(1)), sl.TFC(2)]),
                      ("fc+src", lambda: [sl.TFC(1), lena.core.Source(sl.TSrc(2))]),
                      ("src+seq", lambda: [lena.core.Source(sl.TSrc(1)), sl.TSeq(2)])):
        expect_exc(ctx, "call-on-non-source:" + name, lambda: list(lena.core.Split(els())()), lena.core.LenaAttributeError)
    # the methods of a common type are offered for that type (fill+compute, fill+request, call)
    offered = {
        "fc": (lambda: [sl.TFC(1), (sl.TFC(2),)], ("fill", "compute")),
        "fr": (lambda: [sl.TFR(1), lena.core.FillRequestSeq(sl.TFR(2), reset=False, buffer_input=True)], ("fill", "request")),
    }
    for name, (els, meths) in offered.items():
        ctx.case(["offers", name])
        try:
            s = lena.core.Split(els(), bufsize=3)
            if not all(callable(getattr(s, m, None)) for m in meths):
                ctx.violation("common-type:%s:methods-not-offered" % name, {"methods": meths})
        except Exception as exc:   # noqa
            ctx.violation("common-type:%s:raised:%s" % (name, exc_name(exc)), {"exception": repr(exc)})
    # Zip: fields must match the number of sequences
    expect_exc(ctx, "Zip:fields-length", lambda: lena.flow.Zip([sl.TFC(1), sl.TFC(2)], fields=["a"]), lena.core.LenaTypeError)
    expect_exc(ctx, "Zip:fields-length:3", lambda: lena.flow.Zip([sl.TFC(1)], fields=["a", "b", "c"]), lena.core.LenaTypeError)


FORMS = {"src": ["el", "el", "obj", "sub", "fct"], "fc": ["el", "el", "tup", "obj", "pp", "sl", "sq", "sqpp", "sqin", "run"],
         "fr": ["el", "el", "tup", "obj", "pp", "sl", "sq", "run"], "map": ["el", "tup", "obj", "pp"],
         "filt": ["el", "tup", "obj", "pp", "attr", "attr2"], "seq": ["el", "el", "tup", "obj", "pp", "attr", "attr2"]}


def full_kind(t, stop=NONE, m=NONE, form="el", sub=(), ibs=NONE, eq="id"):
    return {"t": t, "stop": stop, "m": 2 if (t == "src" and m == NONE) else m, "form": form, "sub": list(sub), "ibs": ibs,
            "eq": eq}


def random_kind(rnd, nested_ok=True):
    t = rnd.choice(["src", "fc", "fc", "fr", "fr", "map", "filt", "seq", "nest"])
    if t == "nest":
        if not nested_ok:
            t = "seq"
        else:
            cls = rnd.choice(["fc", "fr", "run", "run"])
            if cls == "fc":
                sub = [full_kind("fc", m=rnd.choice([NONE, NONE, 0, 2])) for _ in range(rnd.randint(1, 3))]
            elif cls == "fr":
                sub = [full_kind("fr", m=rnd.choice([NONE, NONE, 0, 2])) for _ in range(rnd.randint(1, 3))]
            else:
                sub = [rnd.choice([full_kind("src"), full_kind("fr"), full_kind("map"), full_kind("seq"), full_kind("filt")])
                       for _ in range(rnd.randint(0, 3))]
                if sub and all(k["t"] == "fr" for k in sub):
                    sub.append(full_kind("seq"))
            return full_kind("nest", sub=sub, ibs=rnd.choice([NONE, 1, 2, 3]))
    form = rnd.choice(FORMS[t])
    stop, m = NONE, NONE
    if t in ("fc", "fr"):
        # an element inside an explicit Sequence object never stops (what a LenaStopFill does to a Sequence
        # is not part of the statement)
        if form not in sl.SEQ_OBJ_FORMS and (form == "sl" or rnd.random() < 0.6):
            stop = rnd.randint(0, 12)
        if rnd.random() < 0.3 and not (t == "fr" and form == "sq"):
            m = rnd.choice([0, 2, 3])
    if t == "src":
        m = rnd.choice([2, 2, 0, 1, 3])
    # what == says about the element: nothing the schedule may depend on
    eq = rnd.choice(["id", "id", "id", "all", "tot"])
    return full_kind(t, stop, m, form, eq=eq)


def random_cfg(rnd):
    brs = [random_kind(rnd) for _ in range(rnd.randint(0, 5))]
    n = rnd.randint(0, 30)
    bs = rnd.choice([NONE, 1, 2, 3, 4, 5, 7, 10, n, n + 1, 1000])
    if bs == 0:
        bs = 1
    return brs, n, bs


def run(ctx):
    tag = "thorough" if ctx.thorough else "quick"
    ctx.assume("branches are harness elements with tagged outputs; flow values are the integers 0..N-1 "
               "(and, for every scenario without arithmetic branches, arbitrary objects at these positions)")
    branch_actions = ("ReadBlock", "BranchSrcG", "BranchFCG", "BranchFRG", "BranchSeq", "BlockDone", "Final")
    th = "_thorough" if ctx.thorough else ""
    w = ctx.nworkers
    jobs = [tlcpar.mc("Split", "Split_%s.cfg" % tag, ("Identity", "Rerun") + branch_actions, workers=max(2, 3 * w // 4)),
            tlcpar.mc("Split", "Split_audit%s.cfg" % th, ("Identity", "Abort", "Suspend", "Resume") + branch_actions,
                      workers=max(2, 3 * w // 4)),
            tlcpar.mc("SplitCT", "SplitCT%s_mc.cfg" % th, ("FillOne", "Compute", "Request", "ResetZ", "Call"),
                      workers=max(2, w // 4)),
            tlcpar.export("Split", "Split_%s_export.cfg" % tag, 1000),
            tlcpar.export("Split", "Split_audit%s_export.cfg" % th, 1000),
            tlcpar.export("SplitCT", "SplitCT%s_export.cfg" % th, 100)]
    if ctx.thorough:
        # 4 branches over the 7-kind alphabet, exhaustive
        jobs.append(tlcpar.mc("Split", "Split_deep.cfg", (), workers=max(2, w // 2), coverage=False))
    res = tlcpar.run_jobs(ctx, jobs)
    recs, recs2 = res[3] + res[4], res[5]
    # sensitivity guards: a scheduler that looks a finished branch up by == (SpecEqDrop) must be refuted over
    # branch elements that are equal to everything and over elements that compare their totals (lena.math.Sum)
    for cfg in ("Split_eqdrop_all.cfg", "Split_eqdrop_tot.cfg"):
        g = ctx.mc("Split", cfg, expect_violation="report", workers=2)
        if g.violated != "OpEqDen":
            raise core.MachineryError("the Split model is insensitive to ==: %s did not refute OpEqDen" % cfg)
    dims = collections.Counter()
    for rec in recs:
        for k in flat_kinds(rec["brs"]):
            dims["eq:" + k.get("eq", "id")] += 1
            dims["form:" + k.get("form", "el")] += 1
    for d in ("eq:all", "eq:tot", "form:sq", "form:sqpp", "form:sqin", "form:run"):
        if not dims[d]:
            raise core.MachineryError("no exported scenario with a branch of %s" % d)
    seen_modes = collections.Counter()
    for i, rec in enumerate(recs):
        seen_modes[rec["mode"]] += 1
        replay_run(ctx, rec, i)
    for m in ("rerun", "abort", "inter"):
        if not seen_modes[m]:
            raise core.MachineryError("no exported scenario of mode %s" % m)
    ctx.extra["scenarios_by_mode"] = dict(seen_modes)
    ctx.sample({"spec_behaviour": recs[len(recs) // 2]})
    ctx.sample({"spec_behaviour_abandoned_run": next(r for r in recs if r["mode"] == "abort" and r["cut"]["n"] > 0)})
    for rec in recs2:
        replay_ct(ctx, rec)
    ctx.sample({"spec_behaviour_common_type": recs2[len(recs2) // 2]})
    misc(ctx)
    # ---- code -> spec
    rnd = random.Random(ctx.seed)
    trace = []
    for _ in range(4000 if ctx.thorough else 600):
        brs, n, bs = random_cfg(rnd)
        copy_buf, fk = rnd.random() < 0.7, rnd.choice(sl.FLOW_KINDS)
        if sl.WATCHDOG["hit"]:
            fk = "iter"
        try:
            out = sl.run_split(brs, n, bs, copy_buf, flow=fk)
        except Exception as exc:   # noqa
            try:
                sl.make_split(brs, bs, copy_buf)
            except Exception:   # noqa
                make_or_violation(ctx, brs, bs, copy_buf)
                continue
            ctx.violation("random:%s:raised:%s" % (kinds_key(brs), exc_name(exc)), {"brs": brs, "N": n, "bs": bs, "flow": fk})
            continue
        trace.append({"brs": brs, "N": n, "bs": bs, "out": out})
    ctx.trace_check("Trace_Split", "Trace_Split.cfg", trace, lambda r: kinds_key(r["brs"]))
    ctx.binding_demo("Trace_Split", "Trace_Split.cfg", trace,
                     lambda r: dict(r, out=r["out"][:-1]) if r["out"] else None)
    return ctx.finish(
        rule="S2C: every scenario of the bounded Split model (classic: <= 2 branches of 13 kinds; wide: every mix "
             "of the four classes with <= 4 branches; forms: every way of handing a branch to Split, result "
             "multiplicities 0/1/2, Sources with tails, Splits as branches; modes: the same object rerun, "
             "abandoned at every point, two runs interleaved) with copy_buf in {T,F}, flows given as iterator / "
             "list / tuple / range / generator and as odd objects, results that look like nothing (None, 0, \"\", (), [], False, "
             "StopIteration) from Sources, compute and request, and every behaviour of SplitCT (common-type "
             "methods in every legal order, Zip with reset and fields, branches as elements / tuples / sequence "
             "objects); non-trivial = at least one branch and a non-empty flow; C2S: seeded random "
             "configurations (<= 5 branches of all kinds and forms, N <= 30) validated by Trace_Split",
        exhaustive=True)
