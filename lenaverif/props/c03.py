"""C03  Split.run follows its documented block/branch schedule for every branch mix.

spec/Split.tla     operational scheduler (active list + index) = declarative SplitSem (spec/SplitSem.tla)
spec/SplitCT.tla   common-type fill/compute, fill/request, __call__ and Zip
spec/Trace_Split.tla   validation of recorded runs of larger configurations
"""
import random

from .. import core
from .. import splitlib as sl
from ..util import exc_name

NONE = sl.NONE


def kinds_key(brs):
    return "+".join(k["t"] + ("" if k.get("stop", NONE) == NONE else str(k["stop"])) for k in brs) or "empty"


def replay_run(ctx, rec):
    brs, n, bs, exp = rec["brs"], rec["N"], rec["bs"], rec["out"]
    ok = True
    for copy_buf in (True, False):
        try:
            outs = sl.run_split(brs, n, bs, copy_buf, runs=2)
        except Exception as exc:   # noqa
            outs = ["raised " + exc_name(exc)]
        if outs[0] != exp:
            ok = False
            ctx.violation("Split.run:%s:bs=%s:N=%d" % (kinds_key(brs), "None" if bs == NONE else bs, n),
                          {"brs": brs, "N": n, "bs": bs, "copy_buf": copy_buf, "expected": exp, "observed": outs[0]})
        elif outs[1:] != [exp]:
            # Rerun of Split.tla: the same object, all branches active again
            ok = False
            ctx.violation("Split.run:second-run-of-same-object:%s" % kinds_key(brs),
                          {"brs": brs, "N": n, "bs": bs, "copy_buf": copy_buf, "expected": exp, "second_run": outs[1:]})
    ctx.case(["run", brs, n, bs], nontrivial=bool(brs) and n > 0)
    return ok


def replay_ct(ctx, rec):
    """Common-type methods of Split and Zip driven along a behaviour of SplitCT.tla."""
    import lena.core
    import lena.flow
    kind, nb, ms, zipped = rec["kind"], rec["nb"], rec["ms"], rec["zip"]
    if kind == "src":
        els = [lena.core.Source(sl.TSrc(b + 1)) for b in range(nb)]
    elif kind == "fc":
        els = [sl.TFC(b + 1, None, ms[b]) for b in range(nb)]
    else:
        els = [sl.TFR(b + 1, None, ms[b]) for b in range(nb)]
    key = "%s:%s:nb=%d" % ("Zip" if zipped else "Split", kind, nb)
    try:
        obj = lena.flow.Zip(els) if zipped else lena.core.Split(els)
        outs = []
        for op in rec["hist"]:
            if op[0] == "f":
                obj.fill(op[1])
            elif op[0] == "c":
                outs.append(list(obj.compute()))
            elif op[0] == "r":
                outs.append(list(obj.request()))
            elif op[0] == "call":
                outs.append(list(obj()))
    except Exception as exc:   # noqa
        ctx.violation(key + ":raised:" + exc_name(exc), {"scenario": rec, "exception": repr(exc)})
        return False
    got = []
    for o in outs:
        if zipped:
            got.append({"z": [[sl.untag(x) for x in tup] for tup in o]})
        else:
            got.append({"s": [sl.untag(x) for x in o]})
    ctx.case(["ct", kind, nb, ms, zipped, rec["hist"]], nontrivial=len(rec["hist"]) > 1)
    if got != rec["outs"]:
        ctx.violation(key, {"scenario": rec, "observed": got})
        return False
    # same meaning as run: fill;...;compute == Split.run on the same flow (one result per branch)
    if kind == "fc" and not zipped and rec["hist"] and rec["hist"][-1][0] == "c":
        n = sum(1 for op in rec["hist"] if op[0] == "f")
        els2 = [sl.TFC(b + 1, None, ms[b]) for b in range(nb)]
        r = [sl.untag(x) for x in lena.core.Split(els2).run(iter(range(n)))]
        if r != got[-1]["s"]:
            ctx.violation("Split:fill+compute!=run", {"scenario": rec, "run": r, "fill_compute": got[-1]["s"]})
    return True


def misc(ctx):
    import lena.core
    import lena.flow
    # the empty Split is the identity on arbitrary objects
    objs = [object(), "s", (1, {"a": 1}), None, 3.5]
    for copy_buf in (True, False):
        out = list(lena.core.Split([], copy_buf=copy_buf).run(iter(objs)))
        ctx.case(["empty-split", copy_buf])
        if len(out) != len(objs) or any(a is not b for a, b in zip(out, objs)):
            ctx.violation("empty-split-identity", {"copy_buf": copy_buf})
    # bufsize must be a natural number or None; seqs a list
    for bad in (0, -1, 1.5):
        try:
            lena.core.Split([], bufsize=bad)
            ctx.violation("bufsize-accepted:%r" % (bad,), {})
        except lena.core.LenaValueError:
            pass
        except Exception as exc:   # noqa
            ctx.violation("bufsize:%r:%s" % (bad, exc_name(exc)), {})
        ctx.case(["bad-bufsize", bad])
    # __call__ is offered only for Sources
    try:
        list(lena.core.Split([sl.TFC(1)])())
        ctx.violation("call-on-non-source", {})
    except lena.core.LenaAttributeError:
        pass
    except Exception as exc:   # noqa
        ctx.violation("call-on-non-source:" + exc_name(exc), {})


def random_cfg(rnd):
    brs = []
    for _ in range(rnd.randint(0, 5)):
        t = rnd.choice(["src", "fc", "fc", "fr", "fr", "map", "filt", "seq"])
        stop = NONE
        if t in ("fc", "fr") and rnd.random() < 0.6:
            stop = rnd.randint(0, 12)
        brs.append({"t": t, "stop": stop})
    n = rnd.randint(0, 30)
    bs = rnd.choice([NONE, 1, 2, 3, 4, 5, 7, 10, n + 1, 1000])
    return brs, n, bs


def run(ctx):
    tag = "thorough" if ctx.thorough else "quick"
    ctx.assume("branches are harness elements with tagged outputs; flow values are the integers 0..N-1")
    ctx.mc("Split", "Split_%s.cfg" % tag, coverage=True,
           must_cover=("Identity", "ReadBlock", "BranchSrc", "BranchFC", "BranchFR", "BranchSeq", "BlockDone", "Final", "Rerun"))
    ctx.mc("SplitCT", "SplitCT_mc.cfg", coverage=True, must_cover=("FillOne", "Compute", "Request", "Call"))
    if ctx.thorough:
        ctx.mc("Split", "Split_deep.cfg")   # 4 branches over the 7-kind alphabet, exhaustive
    recs = ctx.export("Split", "Split_%s_export.cfg" % tag, min_records=1000)
    for rec in recs:
        replay_run(ctx, rec)
    ctx.sample({"spec_behaviour": recs[len(recs) // 2]})
    recs2 = ctx.export("SplitCT", "SplitCT_export.cfg", min_records=100)
    for rec in recs2:
        replay_ct(ctx, rec)
    ctx.sample({"spec_behaviour_common_type": recs2[len(recs2) // 2]})
    misc(ctx)
    # ---- code -> spec
    rnd = random.Random(ctx.seed)
    trace = []
    for _ in range(4000 if ctx.thorough else 600):
        brs, n, bs = random_cfg(rnd)
        try:
            out = sl.run_split(brs, n, bs, rnd.random() < 0.7)
        except Exception as exc:   # noqa
            ctx.violation("random:%s:raised:%s" % (kinds_key(brs), exc_name(exc)), {"brs": brs, "N": n, "bs": bs})
            continue
        trace.append({"brs": brs, "N": n, "bs": bs, "out": out})
    ctx.trace_check("Trace_Split", "Trace_Split.cfg", trace, lambda r: kinds_key(r["brs"]))
    ctx.binding_demo("Trace_Split", "Trace_Split.cfg", trace,
                     lambda r: dict(r, out=r["out"][:-1]) if r["out"] else None)
    return ctx.finish(
        rule="S2C: every (branch list, N, bufsize) of the bounded Split model with copy_buf in {T,F} and every "
             "behaviour of SplitCT (common-type methods, Zip); non-trivial = at least one branch and a non-empty "
             "flow; C2S: seeded random configurations (<= 5 branches, N <= 30) validated by Trace_Split",
        exhaustive=True)
