"""C04  Context non-interference between Split/Zip branches and freshness of accumulator contexts.

spec/Heap.tla            objects with identity: cells, deep/shallow copy, in-place mutators (heap and pure)
spec/Isolation.tla       Split.run / Split.fill+compute / fill+request / Zip over mutating branches on a heap;
                         Isolated: every branch yields what it yields alone on pure values
spec/IsolationNest.tla   the same for NESTED Splits: a tree of Splits (bare or behind prefix elements in a sequence),
                         every Split copying on its own account; IsolationNestSem.tla: typing, reference per leaf
spec/Alias.tla           producer / accumulator / consumer on a heap: Fresh, MutateIsLocal (frame property)
spec/Trace_Isolation.tla, spec/Trace_IsolationNest.tla, spec/Trace_Alias.tla   validation of recorded executions
spec/IsolationData.tla   the same for flow values whose DATA is a structure with an inside of its own (histogram
                         with numeric / (value, context) / list bins, 1-d and 2-d, graph, nested lists, Context
                         object) and branches that change that inside in place; IsolationDataSem.tla: kinds,
                         mutators, reference; Trace_IsolationData.tla
lenaverif/aliaslib.py    real branches, real accumulators, snapshots, id() logs
lenaverif/isodatalib.py  the structured flow values, the in-place mutators of their inside, the drivers
"""
import copy
import random

from .. import core
from .. import aliaslib as al
from .. import isodatalib as idl
from .. import replaylib as rl
from ..util import exc_name

NONE = al.NONE
DRIVER = {"run": "Split.run", "fill": "Split.fill+compute", "fillreq": "Split.fill+request", "zip": "Zip.fill+compute"}


def _size(sc):
    if "root" in sc:
        return (len(al.leaves_of(sc["root"])), sc["N"], al.tree_size(sc["root"]))
    return (len(sc["brs"]), sc["N"], sum(len(b["muts"]) for b in sc["brs"]))


def check_isolation(sc, exp, found, src_after=None, share=False, nested=False):
    """Run one scenario on the real Split/Zip; exp[b] = pure values branch b yields alone; src_after = the
    flow values as the spec's machine leaves them (the last branch works on the caller's objects).
    share: stateless elements are one object used in every branch, sequences partly nested (a scenario of
    nested Splits: a Split without prefix elements is then wrapped into an explicit sequence, else bare);
    for a tree of Splits the branches are its leaves, numbered depth first."""
    tree = "root" in sc          # a scenario of IsolationNest: sc["root"] = the sequences of the outermost Split
    drv = DRIVER[sc["drv"]] + (":nested-splits" if tree else "")
    nbr = len(al.leaves_of(sc["root"])) if tree else len(sc["brs"])

    def report(kind, extra):
        key = "%s:%s" % (drv, kind)
        cur = found.get(key)
        if cur is None or _size(sc) < _size(cur["scenario"]):
            found[key] = dict(extra, scenario=sc, shared_elements=share, inside_outer_split=nested)

    try:
        if tree:
            per, values = al.run_tree(sc["root"], sc["N"], sc["bs"], sc["drv"], sc["rq"], share=share,
                                      shape=sc.get("shape", "pair"), cls=sc.get("cls", "dict"))
        else:
            per, values = al.run_scenario(sc["brs"], sc["N"], sc["bs"], sc["drv"], sc["rq"], share=share,
                                          shape=sc.get("shape", "pair"), nested=nested, cls=sc.get("cls", "dict"))
    except Exception as exc:      # noqa
        report("raised:" + exc_name(exc), {"exception": repr(exc)[:300]})
        return None
    # the caller's values: untouched, or changed by the one branch that is given the original (documented for
    # the last branch of Split); never by several branches, never by Zip
    if src_after is not None:
        for j, v in enumerate(values):
            now = al.pure(v)
            if now != al.pure(al.flow_value(j + 1, sc.get("shape", "pair"), sc.get("cls", "dict"))) \
                    and now != al.norm_pure(src_after[j]):
                report("callers-value-changed", {"index": j, "now": now, "allowed": al.norm_pure(src_after[j])})
                break
    outs = []
    for b in range(1, nbr + 1):
        want = [al.norm_pure(x) for x in exp[b - 1]]
        got_yield = [p[0] for p in per.get(b, [])]
        got_end = [p[1] for p in per.get(b, [])]
        outs.append(got_yield)
        if got_yield != want:
            report("branch-differs-from-alone", {"branch": b, "alone": want, "in_split": got_yield})
        elif got_end != want:
            report("yielded-value-changed-later", {"branch": b, "alone": want, "at_end": got_end})
    return outs


def iso_actions(recs):
    """How often every action of Isolation.tla is taken in the exported behaviours (a behaviour is determined by
    its scenario)."""
    acts = dict.fromkeys(("ReadBlock", "BranchSrc", "BranchSeq", "BranchFC", "BranchFR", "BlockDone", "Final"), 0)
    for r in recs:
        if not r["brs"]:
            continue
        n, bs = r["N"], r["bs"]
        blocks = 0 if n == 0 else (1 if bs == NONE else -(-n // bs))
        acts["ReadBlock"] += blocks + 1
        acts["BlockDone"] += blocks
        acts["Final"] += 1
        for br in r["brs"]:
            if br["end"] == "src":
                acts["BranchSrc"] += 1 if (r["drv"] == "run" and blocks) else 0
            elif br["end"] == "seq":
                acts["BranchSeq"] += blocks
            elif br["end"] in ("store", "count"):
                acts["BranchFC"] += blocks
            else:
                acts["BranchFR"] += blocks
    return acts


def _iso_worker(rec):
    """one exported scenario of Isolation.tla on the real Split / Zip -> (findings, cases)"""
    found, cases = {}, []
    if not rec["brs"]:
        return found, cases
    sc = {k: rec[k] for k in ("brs", "N", "bs", "drv", "rq", "shape", "cls")}
    check_isolation(sc, rec["exp"], found, rec["src"], share=False)
    cases.append((rl.case_hash(["isolation", sc]), rec["N"] > 0 and len(rec["brs"]) > 1))
    if len(rec["brs"]) > 1 and rec["N"] > 0:
        # the same with stateless elements shared between the branches and nested sequences
        check_isolation(sc, rec["exp"], found, rec["src"], share=True)
        cases.append((rl.case_hash(["isolation-shared-elements", sc]), True))
        if rec["drv"] == "fill":
            # the fill-driven Split filled by an outer Split.run
            check_isolation(sc, rec["exp"], found, rec["src"], share=False, nested=True)
            cases.append((rl.case_hash(["isolation-inside-outer-split", sc]), True))
    return (rl.plain(found) if found else found), cases


def check_data_isolation(sc, exp, src_after, found, share=False, nested=False):
    """One scenario of IsolationData.tla on the real Split / Zip: every branch compared with the branch alone
    (spec), the caller's values with the spec's, and no mutable object of the data shared between branches."""
    drv = DRIVER[sc["drv"]] + ":structured-data"

    def report(kind, extra):
        key = "%s:%s" % (drv, kind)
        cur = found.get(key)
        if cur is None or _size(sc) < _size(cur["scenario"]):
            found[key] = dict(extra, scenario=sc, shared_elements=share, inside_outer_split=nested)
    try:
        per, values, objs = idl.run_scenario(sc["brs"], sc["N"], sc["bs"], sc["drv"], sc["rq"], sc["kind"],
                                             share=share, nested=nested)
    except Exception as exc:      # noqa
        report("raised:" + exc_name(exc), {"exception": repr(exc)[:300]})
        return
    for j, v in enumerate(values):
        now = idl.pure(v, sc["kind"])
        if now != idl.pure(idl.flow_value(j + 1, sc["kind"]), sc["kind"]) and now != idl.norm_pure(src_after[j]):
            report("callers-value-changed", {"index": j, "now": now, "allowed": idl.norm_pure(src_after[j])})
            break
    for b in range(1, len(sc["brs"]) + 1):
        want = [idl.norm_pure(x) for x in exp[b - 1]]
        got_yield = [p[0] for p in per.get(b, [])]
        got_end = [p[1] for p in per.get(b, [])]
        if got_yield != want:
            report("branch-differs-from-alone", {"branch": b, "alone": want, "in_split": got_yield})
        elif got_end != want:
            report("yielded-value-changed-later", {"branch": b, "alone": want, "at_end": got_end})
    sh = idl.shared_objects(objs, sc["kind"])
    if sh:
        report("object-shared-between-branches", {"branches": list(sh)})


def data_actions(recs):
    """How often every action of IsolationData.tla is taken in the exported behaviours, and which kinds of
    data / mutators / drivers occur (a behaviour is determined by its scenario)."""
    acts = dict.fromkeys(("ReadBlock", "BranchStep", "BlockDone", "Final"), 0)
    kinds = {}
    for r in recs:
        if not r["brs"]:
            continue
        n, bs = r["N"], r["bs"]
        blocks = 0 if n == 0 else (1 if bs == NONE else -(-n // bs))
        acts["ReadBlock"] += blocks + 1
        acts["BranchStep"] += blocks * len(r["brs"])
        acts["BlockDone"] += blocks
        acts["Final"] += 1
        for k in ["data:" + r["kind"], "data-driver:" + r["drv"]] + \
                ["data-mutator:" + m["t"] for br in r["brs"] for m in br["muts"]]:
            kinds[k] = kinds.get(k, 0) + 1
    return acts, kinds


def _data_worker(rec):
    """one exported scenario of IsolationData.tla on the real Split / Zip -> (findings, cases)"""
    found, cases = {}, []
    if not rec["brs"]:
        return found, cases
    sc = {k: rec[k] for k in ("brs", "N", "bs", "drv", "rq", "kind")}
    check_data_isolation(sc, rec["exp"], rec["src"], found)
    cases.append((rl.case_hash(["isolation-data", sc]), rec["N"] > 0 and len(rec["brs"]) > 1))
    if len(rec["brs"]) > 1 and rec["N"] > 0:
        check_data_isolation(sc, rec["exp"], rec["src"], found, share=True)
        cases.append((rl.case_hash(["isolation-data-shared-elements", sc]), True))
        if rec["drv"] == "fill":
            check_data_isolation(sc, rec["exp"], rec["src"], found, nested=True)
            cases.append((rl.case_hash(["isolation-data-inside-outer-split", sc]), True))
    return (rl.plain(found) if found else found), cases


def nest_actions(recs):
    """How often every action of IsolationNest.tla is taken in the exported behaviours, and which kinds of
    nesting occur (a behaviour is determined by its scenario)."""
    acts = dict.fromkeys(("ReadBlock", "Child", "BlockDone", "Final"), 0)
    kinds = dict.fromkeys(("nested:sequence", "nested:fc", "nested:fr", "nested:not-last", "nested:last",
                           "nested:with-prefix", "nested:depth>=2", "nested:own-bufsize",
                           "root:run", "root:fill", "root:fillreq", "root:zip"), 0)

    def visit(node, last):
        if not al.is_split(node):
            return
        kinds["nested:" + al.type_of(node)] += 1
        kinds["nested:last" if last else "nested:not-last"] += 1
        kinds["nested:with-prefix"] += 1 if node["muts"] else 0
        kinds["nested:own-bufsize"] += 1 if node["ibs"] != NONE else 0
        for j, c in enumerate(node["sub"]):
            visit(c, j == len(node["sub"]) - 1)
    for r in recs:
        n, bs = r["N"], r["bs"]
        blocks = n if r["drv"] != "run" else (0 if n == 0 else (1 if bs == NONE else -(-n // bs)))
        acts["ReadBlock"] += blocks + 1
        acts["Child"] += blocks * len(r["root"])
        acts["BlockDone"] += blocks
        acts["Final"] += 1
        kinds["root:" + r["drv"]] += 1
        kinds["nested:depth>=2"] += 1 if max(al.depth_of(c) for c in r["root"]) >= 2 else 0
        for j, c in enumerate(r["root"]):
            visit(c, j == len(r["root"]) - 1 and r["drv"] != "zip")
    return acts, kinds


def _nest_worker(rec):
    """one exported scenario of IsolationNest.tla on the real Splits -> (findings, cases)"""
    found, cases = {}, []
    sc = {k: rec[k] for k in ("root", "N", "bs", "drv", "rq", "shape", "cls")}
    check_isolation(sc, rec["exp"], found, rec["src"], share=False)
    cases.append((rl.case_hash(["isolation-nested", sc]), rec["N"] > 0))
    if rec["N"] > 0:
        # stateless elements shared between the leaves, nested Splits wrapped into explicit sequences
        check_isolation(sc, rec["exp"], found, rec["src"], share=True)
        cases.append((rl.case_hash(["isolation-nested-shared-elements", sc]), True))
    return (rl.plain(found) if found else found), cases


_ACCS = None
_ONLY = None        # restriction of the two-result accumulators (thorough tier, longest histories)


def _alias_worker(rec):
    global _ACCS
    if _ACCS is None:
        _ACCS = al.accumulators()
    found, cases, skipped = {}, [], [0]
    replay_alias(rec, _ACCS, found, cases, skipped, _ONLY)
    return (rl.plain(found) if found else found), cases, skipped[0]


def replay_alias(rec, accs, found, cases, skipped, only=None):
    """One behaviour of Alias.tla on every real accumulator of its kind: after every action the contexts
    held by the producer and by the consumer must have the values of the spec."""
    kind, h, cls = rec["kind"], rec["h"], rec.get("cls", "dict")
    for acc in accs:
        if acc.kind != kind["t"] or acc.nres != kind["nres"] or not acc.snapshot:
            continue
        if cls != "dict" and acc.typed:
            continue          # the typed variants repeat an accumulator: once per class is enough
        if only is not None and acc.nres > 1 and acc.name not in only:
            continue

        def report(what, upto, extra):
            key = "%s:%s" % (acc.name, what)
            cur = found.get(key)
            if cur is None or upto < len(cur["history"]):
                found[key] = dict(extra, accumulator=acc.name, context_class=cls,
                                  history=[{"op": o["op"], "arg": o["arg"]} for o in h[:upto]])
        run = al.AliasRun(acc, cls)
        ok = True
        for idx, o in enumerate(h):
            try:
                if o["op"] == "f":
                    run.fill(o["arg"])
                elif o["op"] == "c":
                    got = run.compute()
                    if len(got) > acc.nres:
                        # the number of results is not C04's subject: the history cannot be aligned, skip it
                        skipped[0] += 1
                        ok = False
                        break
                    for _pad in range(acc.nres - len(got)):
                        run.res.append({})       # nothing yielded (pass_on_empty): nothing to share
                elif o["op"] == "m":
                    al.apply_mut(run.res[o["arg"]["j"] - 1], o["arg"]["mu"])
            except Exception as exc:   # noqa
                report("%s:raised:%s" % ({"f": "fill", "c": "compute", "m": "mutate"}[o["op"]], exc_name(exc)),
                       idx + 1, {"exception": repr(exc)[:300]})
                ok = False
                break
            changed = run.config_changed()
            if changed:
                report("element-configuration-changed:after-%s" % {"f": "fill", "c": "compute", "m": "mutating-a-result"}[o["op"]],
                       idx + 1, changed)
                ok = False
                break
            srcs, ress = run.snapshots()
            want_src = [al.drop(al.py_ctx(c), acc.own) for c in o["srcs"]]
            want_res = [al.drop(al.py_ctx(c), acc.own) for c in o["ress"]]
            opname = {"f": "fill", "c": "compute", "m": "mutating-a-result"}[o["op"]]
            if srcs != want_src:
                report("filled-context-changed:after-%s" % opname, idx + 1, {"expected": want_src, "observed": srcs})
                ok = False
                break
            if ress != want_res:
                report("yielded-context-wrong:after-%s" % opname, idx + 1, {"expected": want_res, "observed": ress})
                ok = False
                break
        cases.append((rl.case_hash([acc.name, cls, [[o["op"], o["arg"]] for o in h]]),
                      any(o["op"] == "c" for o in h) and any(o["op"] == "f" for o in h)))


class ConfigChanged(Exception):
    pass


def record_alias(rnd, acc, nops):
    """Seeded random fill/compute history on a real accumulator, logged as object-identity facts."""
    el, cfg = acc.build()
    cfg0 = al.plain_ctx(cfg)
    cls = rnd.choice(["dict", "dict", "Context", "OrderedDict", "defaultdict", "UserDict"])
    keep, number = [], {}

    def ren(ids):
        return [number.setdefault(i, len(number) + 1) for i in ids]
    events = [{"ev": "new", "acc": acc.name}]
    nf = 0
    for _ in range(nops):
        if rnd.random() < 0.55:
            nf += 1
            c = al.rand_ctx(rnd)
            if acc.typed:
                c["variable"] = copy.deepcopy(al.TYPED_VARIABLE)
            v = (acc.data(nf), al.as_class(c, cls))
            keep.append(v)
            ids = al.ctx_ids(v[1], keep)
            el.fill(v)
            events.append({"ev": "f", "ids": ren(ids), "acc": acc.name})
        else:
            outs = []
            for item in getattr(el, acc.method)():
                keep.append(item)
                for c in al.yielded_contexts(item):
                    outs.append(ren(al.ctx_ids(c, keep)))
                    # downstream elements update what they get in place
                    c["touched"] = c.get("touched", 0) + 1
            events.append({"ev": "c", "outs": outs, "acc": acc.name})
        if al.plain_ctx(cfg) != cfg0:
            raise ConfigChanged({"initially": cfg0, "now": al.plain_ctx(cfg)})
    return events


def run(ctx):
    import lena  # noqa
    tag = "thorough" if ctx.thorough else "quick"
    ctx.assume("flow values are created per scenario - ([j], context) pairs, (object, context) pairs, bare user objects "
               "with attributes and (named) tuples of them: no pre-existing aliasing")
    ctx.assume("branch outputs are tagged by a final harness element so they can be attributed to their branch; "
               "fill/request branches are harness elements (FillRequestSeq.fill is not implemented in lena)")
    ctx.assume("object identity is observed with id() while every object is kept alive by the harness")
    ctx.assume("StoreFilled and GroupBy yield the filled values themselves and are exempt by the statement; "
               "NumpyHistogram is not exercised (numpy is not installed)")
    # ---- design level
    cover_a = ("ReadBlock", "BranchSrc", "BranchSeq", "BranchFC", "BranchFR", "BlockDone", "Final")
    cover_b = ("Fill", "Compute", "Mutate")
    # (TLC's own coverage statistics are not collected for Isolation: the cost model of the nested heap operators
    # does not fit into memory; the actions taken are counted from the exported behaviours instead)
    if ctx.thorough:
        ctx.mc("Isolation", "Isolation_thorough.cfg")
        recs_a = ctx.export("Isolation", "Isolation_thorough_export.cfg", min_records=1000)
    else:
        # quick: one TLC run checks the invariants and exports the scenarios
        recs_a = rl.mc_and_export(ctx, "Isolation", "Isolation_quick.cfg", (), min_records=1000, coverage=False,
                                  workers=ctx.nworkers)
    for a, n in iso_actions(recs_a).items():
        ctx.actions[a] = ctx.actions.get(a, 0) + n
    for a in cover_a:
        if ctx.actions.get(a, 0) == 0:
            raise core.MachineryError("vacuous model: action %s of Isolation never taken" % a)
    # sensitivity guards of the models (the quick tier runs one per model: last branch recognised by ==, one
    # copy per call; the others run in the thorough tier)
    guards_a = (("Isolation_nocopy.cfg", "Isolated"), ("Isolation_shallow.cfg", "Isolated"),
                ("Isolation_varshallow.cfg", "Isolated"), ("Isolation_hashable.cfg", "Isolated"),
                ("Isolation_clsshallow.cfg", "Isolated"),
                ("Isolation_eqlast.cfg", "Isolated"))
    guards_b = (("Alias_once.cfg", "Fresh"), ("Alias_nocopy.cfg", "Fresh"), ("Alias_nocopy2.cfg", "MutateIsLocal"),
                ("Alias_clsshallow.cfg", "Fresh"), ("Alias_cfgwrite.cfg", "ConfigIntact"))
    for cfg, prop in (guards_a if ctx.thorough else guards_a[5:]):
        res = ctx.mc("Isolation", cfg, expect_violation="report")
        if res.violated != prop:
            raise core.MachineryError("the isolation model is insensitive: %s did not refute %s" % (cfg, prop))
    # ---- nested Splits (IsolationNest): invariants checked and scenarios exported by one TLC run
    recs_n = rl.mc_and_export(ctx, "IsolationNest", "IsolationNest_%s.cfg" % tag, (), min_records=1000,
                              coverage=False, workers=ctx.nworkers)
    if ctx.thorough:
        # the quick trees once more with contexts of the other classes
        recs_n = recs_n + rl.mc_and_export(ctx, "IsolationNest", "IsolationNest_thorough_cls.cfg", (),
                                           min_records=1000, coverage=False, workers=ctx.nworkers)
    acts_n, kinds_n = nest_actions(recs_n)
    for a, n in list(acts_n.items()) + list(kinds_n.items()):
        if n == 0:
            raise core.MachineryError("vacuous model: %s of IsolationNest never taken / never occurs" % a)
        ctx.actions[a] = ctx.actions.get(a, 0) + n
    guards_n = (("IsolationNest_nestedshare.cfg", "Isolated"), ("IsolationNest_innernone.cfg", "Isolated"),
                ("IsolationNest_nocopy.cfg", "Isolated"))
    for cfg, prop in (guards_n if ctx.thorough else guards_n[:1]):
        res = ctx.mc("IsolationNest", cfg, expect_violation="report")
        if res.violated != prop:
            raise core.MachineryError("the nested isolation model is insensitive: %s did not refute %s" % (cfg, prop))
    # ---- structured data (IsolationData): invariants checked and scenarios exported by one TLC run
    recs_d = rl.mc_and_export(ctx, "IsolationData", "IsolationData_%s.cfg" % tag, (), min_records=1000,
                              coverage=False, workers=ctx.nworkers)
    if ctx.thorough:
        # three branches (the copy handed to a middle branch) over fewer templates and kinds
        recs_d = recs_d + rl.mc_and_export(ctx, "IsolationData", "IsolationData_thorough3.cfg", (),
                                           min_records=1000, coverage=False, workers=ctx.nworkers)
    acts_d, kinds_d = data_actions(recs_d)
    need_d = ["data:" + k for k in (idl.KINDS if ctx.thorough else ("histnum", "histctx", "hist2d", "histlist", "graph"))] + \
             ["data-driver:" + d for d in DRIVER] + ["data-mutator:" + t for t in ("attr", "slot", "val", "bctx", "ctx")]
    for a, n in list(acts_d.items()) + [(k, kinds_d.get(k, 0)) for k in need_d]:
        if n == 0:
            raise core.MachineryError("vacuous model: %s of IsolationData never taken / never occurs" % a)
        ctx.actions[a] = ctx.actions.get(a, 0) + n
    # sensitivity: a copy that carries the contents of the cells over by reference (bin lists copied by slices)
    # is refuted; with numeric contents only it is NOT (a positive lemma: numeric flows cannot see it); a copy of
    # the container object alone is refuted on numeric contents already
    guards_d = (("IsolationData_slice.cfg", "Isolated"), ("IsolationData_top.cfg", "Isolated"),
                ("IsolationData_none.cfg", "Isolated"))
    for cfg, prop in (guards_d if ctx.thorough else guards_d[:1]):
        res = ctx.mc("IsolationData", cfg, expect_violation="report")
        if res.violated != prop:
            raise core.MachineryError("the data isolation model is insensitive: %s did not refute %s" % (cfg, prop))
    if ctx.thorough:
        ctx.mc("IsolationData", "IsolationData_slicenum.cfg")
    if ctx.thorough:
        ctx.mc("Alias", "Alias_thorough.cfg", coverage=True, must_cover=cover_b)
        recs_b = ctx.export("Alias", "Alias_thorough_export.cfg", min_records=500)
    else:
        recs_b = rl.mc_and_export(ctx, "Alias", "Alias_quick.cfg", cover_b, min_records=500)
    for cfg, prop in (guards_b if ctx.thorough else guards_b[:1]):
        res = ctx.mc("Alias", cfg, expect_violation="report")
        if res.violated != prop:
            raise core.MachineryError("the alias model is insensitive: %s did not refute %s" % (cfg, prop))
    ctx.extra["sensitivity"] = ["Isolation with CopyMode none/shallow, the last branch recognised by ==, hashable "
                                "values passed uncopied by the fill-driven Split, or a Variable that copies its "
                                "var_context shallowly: TLC refutes Isolated",
                                "IsolationNest with a Split nested in a sequence that is given a copy anyway not "
                                "copying again (nestedshare), no nested Split copying, or no Split copying: TLC "
                                "refutes Isolated",
                                "Alias with CopyOnCompute = none: TLC refutes Fresh and MutateIsLocal; "
                                "with one copy per call shared by its results: TLC refutes Fresh"]
    # ---- A, spec -> code
    found = {}
    recs = recs_a
    for f, cases in rl.pmap(_iso_worker, recs):
        rl.add_cases(ctx, cases)
        for key, val in f.items():
            if key not in found or _size(val["scenario"]) < _size(found[key]["scenario"]):
                found[key] = val
    ctx.sample({"spec_behaviour_isolation": recs[len(recs) // 2]})
    # ---- A', spec -> code: nested Splits
    for f, cases in rl.pmap(_nest_worker, recs_n):
        rl.add_cases(ctx, cases)
        for key, val in f.items():
            if key not in found or _size(val["scenario"]) < _size(found[key]["scenario"]):
                found[key] = val
    ctx.sample({"spec_behaviour_nested_splits": recs_n[len(recs_n) // 2]})
    # ---- A'', spec -> code: structured data
    for f, cases in rl.pmap(_data_worker, recs_d):
        rl.add_cases(ctx, cases)
        for key, val in f.items():
            if key not in found or _size(val["scenario"]) < _size(found[key]["scenario"]):
                found[key] = val
    ctx.sample({"spec_behaviour_structured_data": recs_d[len(recs_d) // 2]})
    # ---- A, code -> spec
    rnd = random.Random(ctx.seed)
    trace = []
    for _ in range(3000 if ctx.thorough else 500):
        sc = al.rand_scenario(rnd)
        try:
            per, _values = al.run_scenario(sc["brs"], sc["N"], sc["bs"], sc["drv"], sc["rq"],
                                           share=rnd.random() < 0.5, shape=sc["shape"], cls=sc["cls"])
        except Exception as exc:     # noqa
            key = "%s:raised:%s" % (DRIVER[sc["drv"]], exc_name(exc))
            if key not in found or _size(sc) < _size(found[key]["scenario"]):
                found[key] = {"scenario": sc, "exception": repr(exc)[:300]}
            continue
        outs = []
        for b in range(1, len(sc["brs"]) + 1):
            ys = [p[0] for p in per.get(b, [])]
            if ys != [p[1] for p in per.get(b, [])]:
                key = "%s:yielded-value-changed-later" % DRIVER[sc["drv"]]
                if key not in found:
                    found[key] = {"scenario": sc, "branch": b}
            outs.append(ys)
        trace.append(dict(sc, outs=outs))
    # ---- A', code -> spec: random trees of Splits (depth <= 3, <= 3 sequences per Split)
    trace_n = []
    for _ in range(2000 if ctx.thorough else 300):
        sc = al.rand_tree(rnd)
        try:
            per, _values = al.run_tree(sc["root"], sc["N"], sc["bs"], sc["drv"], sc["rq"],
                                       share=rnd.random() < 0.5, shape=sc["shape"], cls=sc["cls"])
        except Exception as exc:     # noqa
            key = "%s:nested-splits:raised:%s" % (DRIVER[sc["drv"]], exc_name(exc))
            if key not in found or _size(sc) < _size(found[key]["scenario"]):
                found[key] = {"scenario": sc, "exception": repr(exc)[:300]}
            continue
        outs = []
        for b in range(1, len(al.leaves_of(sc["root"])) + 1):
            ys = [p[0] for p in per.get(b, [])]
            if ys != [p[1] for p in per.get(b, [])]:
                key = "%s:nested-splits:yielded-value-changed-later" % DRIVER[sc["drv"]]
                if key not in found:
                    found[key] = {"scenario": sc, "branch": b}
            outs.append(ys)
        trace_n.append(dict(sc, outs=outs))
    # ---- A'', code -> spec: random branch lists (<= 5) over random chains of in-place mutators of the data
    trace_d = []
    for _ in range(2000 if ctx.thorough else 300):
        sc = idl.rand_scenario(rnd)
        try:
            per, _values, objs = idl.run_scenario(sc["brs"], sc["N"], sc["bs"], sc["drv"], sc["rq"], sc["kind"],
                                                  share=rnd.random() < 0.5)
        except Exception as exc:     # noqa
            key = "%s:structured-data:raised:%s" % (DRIVER[sc["drv"]], exc_name(exc))
            if key not in found or _size(sc) < _size(found[key]["scenario"]):
                found[key] = {"scenario": sc, "exception": repr(exc)[:300]}
            continue
        outs = []
        for b in range(1, len(sc["brs"]) + 1):
            ys = [p[0] for p in per.get(b, [])]
            if ys != [p[1] for p in per.get(b, [])]:
                key = "%s:structured-data:yielded-value-changed-later" % DRIVER[sc["drv"]]
                if key not in found:
                    found[key] = {"scenario": sc, "branch": b}
            outs.append(ys)
        if idl.shared_objects(objs, sc["kind"]):
            key = "%s:structured-data:object-shared-between-branches" % DRIVER[sc["drv"]]
            if key not in found or _size(sc) < _size(found[key]["scenario"]):
                found[key] = {"scenario": sc}
        trace_d.append(dict(sc, outs=outs))
    for key in sorted(found):
        ctx.violation(key, found[key])
    ctx.trace_check("Trace_Isolation", "Trace_Isolation.cfg", trace,
                    lambda r: "%s:%s" % (DRIVER[r["drv"]], al.brs_key(r["brs"])))
    ctx.trace_check("Trace_IsolationNest", "Trace_IsolationNest.cfg", trace_n,
                    lambda r: "%s:%s" % (DRIVER[r["drv"]], al.tree_key(r["root"])), label="trace_nest")

    def corrupt_iso(r):
        for b, o in enumerate(r["outs"]):
            if o and "hits" in o[0]["c"]:
                r = copy.deepcopy(r)
                r["outs"][b][0]["c"]["hits"] += 1        # as if another branch had incremented it too
                return r
        return None
    ctx.binding_demo("Trace_Isolation", "Trace_Isolation.cfg", trace, corrupt_iso)

    def corrupt_nest(r):
        for b, o in enumerate(r["outs"]):
            if o:
                r = copy.deepcopy(r)
                r["outs"][b][0]["d"].append(99)           # as if another leaf had appended to the same data object
                return r
        return None
    ctx.binding_demo("Trace_IsolationNest", "Trace_IsolationNest.cfg", trace_n, corrupt_nest)
    ctx.trace_check("Trace_IsolationData", "Trace_IsolationData.cfg", trace_d,
                    lambda r: "%s:structured-data:%s:%s" % (DRIVER[r["drv"]], r["kind"], idl.brs_key(r["brs"])),
                    label="trace_data")

    def corrupt_data(r):
        for b, o in enumerate(r["outs"]):
            if o and r["kind"] not in idl.NUMERIC:
                r = copy.deepcopy(r)
                r["outs"][b][0]["s"][0]["m"]["leak"] = 1      # as if another branch had annotated the same bin context
                return r
        return None
    ctx.binding_demo("Trace_IsolationData", "Trace_IsolationData.cfg", trace_d, corrupt_data)
    # ---- B, spec -> code
    global _ONLY
    accs = al.accumulators()
    found_b = {}
    batches = [(recs_b, None)]
    if ctx.thorough:
        # the longest histories on all one-result accumulators and on two of the two-result ones; all
        # two-result accumulators on the histories of the quick bound
        batches = [(recs_b, ("SplitIntoBins(Split(Sum,Count))", "Vectorize(Mean(Split(Sum,Sum)))")),
                   (ctx.export("Alias", "Alias_quick_export.cfg", min_records=500), None)]
    for recs, only in batches:
        _ONLY = only
        for f, cases, skipped in rl.pmap(_alias_worker, recs):
            rl.add_cases(ctx, cases)
            if skipped:
                ctx.extra["alias_histories_skipped"] = ctx.extra.get("alias_histories_skipped", 0) + skipped
            for key, val in f.items():
                if key not in found_b or len(val["history"]) < len(found_b[key]["history"]):
                    found_b[key] = val
    recs = recs_b
    ctx.sample({"spec_behaviour_alias": recs[len(recs) // 2]})
    for key in sorted(found_b):
        ctx.violation(key, found_b[key])
    # ---- B, code -> spec: identity logs
    by_acc = {}
    for acc in accs:
        evs = []
        for _ in range(40 if ctx.thorough else 8):
            try:
                evs.extend(record_alias(rnd, acc, rnd.randint(3, 14)))
            except ConfigChanged as exc:
                ctx.violation("%s:recording:element-configuration-changed" % acc.name, exc.args[0])
            except Exception as exc:    # noqa
                ctx.violation("%s:recording:raised:%s" % (acc.name, exc_name(exc)), {"exception": repr(exc)[:300]})
        by_acc[acc.name] = evs
    pending = [by_acc[name] for name in sorted(by_acc) if by_acc[name]]
    demo = False
    for _round in range(len(pending) + 1):
        evs = [e for part in pending for e in part]
        if not evs:
            break
        if not demo:
            demo = True

            def corrupt_alias(r, state={"src": None}):
                if r["ev"] == "new":
                    state["src"] = None       # ids are numbered per history
                if r["ev"] == "f":
                    state["src"] = r["ids"]
                if r["ev"] == "c" and r["outs"] and state["src"]:
                    r = copy.deepcopy(r)
                    r["outs"][0] = list(state["src"])     # as if compute() had yielded the filled context itself
                    return r
                return None
            ctx.binding_demo("Trace_Alias", "Trace_Alias.cfg", evs, corrupt_alias, limit=60)
            ctx.sample({"recorded_identity_log": evs[:4]})
        acc_n = ctx.validate("Trace_Alias", "Trace_Alias.cfg", evs, label="alias")
        ctx.evaluations += len(evs) if _round == 0 else 0
        if acc_n >= len(evs):
            ctx.traces += sum(1 for e in evs if e["ev"] == "new")
            for part in pending:
                ctx.distinct.add(core.canon(part)[:2000])
            break
        bad = evs[acc_n]
        # the rejected history: from its "new" event to the rejected compute
        start = max(k for k in range(acc_n + 1) if evs[k]["ev"] == "new")
        ctx.violation("Trace_Alias:rejected:%s" % bad["acc"], {"history": evs[start:acc_n + 1]})
        pending = [part for part in pending if part[0]["acc"] != bad["acc"]]
    return ctx.finish(
        rule="A (S2C): every scenario of the bounded Isolation model (branch lists over 13 templates of mutating "
             "branches, incl. repeated structurally equal branches in first/middle/last position, over 6 templates with a "
             "typed Variable (nested var_context) and writes below context.variable, and over 6 data-only templates on "
             "flows of bare hashable-but-mutable objects / tuples of them, x flows x bufsizes x "
             "run/fill/request/Zip driving, each also with stateless elements - the same Variable object - shared "
             "between branches, fill-driven Splits also inside an outer Split.run) executed on the real Split/Zip, every branch "
             "compared with its isolated result when yielded and at the end; (C2S) seeded random configurations "
             "(<= 5 branches, random mutator chains) validated by Trace_Isolation.  A' nested Splits (S2C): every "
             "scenario of the bounded IsolationNest model (trees of Splits: a Split - bare or behind prefix elements in a "
             "Sequence / FillComputeSeq, with its own bufsize - as first / middle / last sequence of a Split or Zip, to "
             "depth 2 (thorough 3), run-, fill/compute- and fill/request-type nested Splits, x flows x bufsizes x "
             "run/fill/request/Zip driving of the root) executed on the real Splits, a second time with shared "
             "stateless elements and the nested Splits wrapped into explicit sequences, every LEAF compared with "
             "what its effective branch yields alone; (C2S) seeded random trees (depth <= 3, <= 3 sequences per "
             "Split, random prefixes and element chains) validated by Trace_IsolationNest.  A'' structured data (S2C): every "
             "scenario of the bounded IsolationData model (flow values whose data is a lena histogram with numeric / "
             "(value, context) / list bins, 1-d and 2-d, a graph, nested lists or a Context object; branches changing an "
             "attribute of the structure, a cell, a cell's content or a cell's context in place; x flows x bufsizes x "
             "run/fill/request/Zip driving) executed on the real Split/Zip, every branch compared with the branch alone, "
             "the caller's values with the model's, no mutable object inside the data shared between branches; (C2S) "
             "seeded random configurations validated by Trace_IsolationData.  B (S2C): every history "
             "fill/compute/mutate of the bounded Alias model replayed on 19 real accumulators (6 of them yielding two results per compute()) with the producer's and the "
             "consumer's contexts compared after every action; (C2S) id()-graphs of random fill/compute histories of "
             "27 accumulators (incl. request-type, Split/Zip of accumulators, multi-result SplitIntoBins/Vectorize/Mean/FillRequest; contexts inside SplitIntoBins bins included) validated by Trace_Alias (Fresh, also between the results of one call). "
             "non-trivial = more than one branch and a non-empty flow / at least one fill and one compute",
        exhaustive=True)
