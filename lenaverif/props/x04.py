"""X04  The graph structure, and the repository's own test-suite as a trace source.

Part 1  spec/GraphStruct.tla (+ Trace_GraphStruct.tla): lena.structures.graph (constructor validation, error field
        naming, dim, iteration / rows, ==, _update_context, +, scale()), hist_to_graph / HistToGraph options
        (make_value, field_names, scale), documented behaviour of the deprecated Graph (points, scale, rows).
Part 2  REPO binding: lenaverif/reporecorder.py records what the 153 tests of the repository push through
        Slice.run / fill_into, histogram.fill, get_bin_on_value_1d and the accumulators; the records are
        converted to the formats of Trace_Slice, Trace_Histogram, Trace_BinSearch (result only) and
        Trace_Accumulators and judged by those specifications.
"""
import concurrent.futures
import json
import os
import random
import subprocess
import sys

from .. import core
from .. import graphxlib as gx
from .. import histlib

ACTIONS = ("Construct", "Iterate", "Equal", "UpdCtx", "AddSame", "GetScale", "H2G", "DGraph")


class Reporter(object):
    def __init__(self, ctx):
        self.ctx = ctx

    def __call__(self, key, detail):
        self.ctx.violation(key, detail)


# --------------------------------------------------------------------------- REPO binding
def run_suite(ctx, out):
    env = dict(os.environ)
    env["PYTHONPATH"] = core.VERIF + os.pathsep + os.path.abspath(ctx.repo)
    env["LENAVERIF_RECORD"] = out
    env["PYTHONHASHSEED"] = "0"
    cmd = [sys.executable, "-m", "pytest", "-q", "-p", "no:cacheprovider", "-p", "lenaverif.reporecorder",
           "--hypothesis-seed=%d" % ctx.seed]
    p = subprocess.run(cmd, cwd=os.path.abspath(ctx.repo), env=env, stdout=subprocess.PIPE, stderr=subprocess.STDOUT,
                       timeout=900)
    tail = p.stdout.decode("utf-8", "replace").strip().splitlines()[-1:]
    if not os.path.exists(out):
        raise core.MachineryError("the recorder produced no file; pytest said: %s" % p.stdout.decode("utf-8", "replace")[-1500:])
    with open(out) as f:
        raw = json.load(f)
    return raw, (tail[0] if tail else "")


def dedupe(recs, cap):
    seen, out = set(), []
    for r in recs:
        k = core.canon(r)
        if k not in seen:
            seen.add(k)
            out.append(r)
        if len(out) >= cap:
            break
    return out


def conv_slice(raw, skipped):
    out = []
    for r in raw:
        r = dict(r)
        r.pop("exhausted", None)
        out.append(r)
    return out


def _dyadic_den(values):
    for k in range(0, 21):
        d = 2 ** k
        if all(float(v) * d == int(float(v) * d) for v in values):
            return d
    return None


def conv_hist(raw, skipped):
    """sessions -> Trace_Histogram records (rank abstraction per axis, integer weights), one list per session"""
    sessions = []
    for s in raw:
        axes, fills = s["axes"], s["fills"][:40]
        try:
            if not all(len(a) >= 2 and all(a[k] < a[k + 1] for k in range(len(a) - 1)) for a in axes):
                raise ValueError("edges")
            dim = len(axes)
            nums = [f["w"] for f in fills] + [f["oor"] for f in fills]
            for f in fills:
                nums.extend(histlib.flat(f["bins"]))
            den = _dyadic_den(nums)
            if den is None:
                raise ValueError("non-dyadic")
            rmaps = [histlib.rank_map(list(axes[d]) + [f["c"][d] for f in fills]) for d in range(dim)]
            redges = [[rmaps[d][x] for x in axes[d]] for d in range(dim)]
            recs = []
            for j, f in enumerate(fills):
                sb = histlib.scale_nested(json.loads(json.dumps(f["bins"])), den)
                if not histlib.shape_ok(sb, [len(a) - 1 for a in axes]):
                    raise ValueError("shape")
                recs.append({"new": j == 0, "kind": "structure", "edges": redges,
                             "c": [rmaps[d][f["c"][d]] for d in range(dim)], "w": int(f["w"] * den),
                             "idx": f["idx"], "bins": histlib._ints(sb), "oor": int(f["oor"] * den),
                             "real": {"edges": repr(axes), "coord": repr(f["c"]), "weight": repr(f["w"])}})
            if any(abs(x) > 2 ** 30 for r in recs for x in histlib.flat(r["bins"]) + [r["oor"], r["w"]]):
                raise ValueError("large")
            sessions.append(recs)
        except Exception as exc:   # noqa
            skipped["hist:convert:%s" % (str(exc)[:20],)] = skipped.get("hist:convert:%s" % (str(exc)[:20],), 0) + 1
    return sessions


def conv_search(raw, skipped):
    out = []
    for r in raw:
        arr, val = r["arr"], r["val"]
        if len(arr) < 2 or not all(arr[k] < arr[k + 1] for k in range(len(arr) - 1)):
            skipped["search:not-increasing"] = skipped.get("search:not-increasing", 0) + 1
            continue
        rm = histlib.rank_map(list(arr) + [val])
        out.append({"arr": [rm[x] for x in arr], "val": rm[val], "steps": [], "res": r["res"],
                    "real": {"arr": repr(arr), "val": repr(val)}})
    return out


def validate_units(ctx, module, cfg, units, label, describe):
    """units: list of record lists (a unit is validated as a whole).  Rejected units are reported and left out."""
    units = [u for u in units if u]
    total = sum(len(u) for u in units)
    rounds = 0
    while units and rounds < 6:
        rounds += 1
        flat, starts = [], []
        for u in units:
            starts.append(len(flat))
            flat.extend(u)
        acc = ctx.validate(module, cfg, flat, label=label)
        if acc >= len(flat):
            ctx.traces += len(units)
            ctx.evaluations += len(flat)
            for u in units:
                ctx.distinct.add(core.hashlib.md5(core.canon(u).encode()).hexdigest())
            return total
        k = max(i for i, st in enumerate(starts) if st <= acc)
        rec = flat[acc]
        ctx.violation("REPO:%s:rejected:%s" % (module, describe(rec)),
                      {"record": rec, "index_in_unit": acc - starts[k], "unit": units[k][:acc - starts[k] + 1][-6:]})
        units = units[:k] + units[k + 1:]
    return total


def repo_binding(ctx, raw, suite_tail):
    skipped = dict(raw.get("skipped", {}))
    cap = 6000 if ctx.thorough else 1500
    sl = dedupe(conv_slice(raw["slice"], skipped), cap)
    hs = conv_hist(raw["hist"], skipped)
    hs = [list(u) for u in {core.canon(u): u for u in hs}.values()][:cap // 4]
    se = dedupe(conv_search(raw["search"], skipped), cap)
    ac = []
    for inst in raw["acc"]:
        ac.append(inst["events"])
    ac = [list(u) for u in {core.canon(u): u for u in ac}.values()]
    # Trace_Accumulators evaluates all invariants of Accumulators.tla in every state (~80 events / s): the quick
    # tier takes a sample that keeps every kind of accumulator, the thorough tier everything
    if not ctx.thorough:
        by_kind = {}
        for u in ac:
            by_kind.setdefault(u[0]["k"], []).append(u)
        ac = [u for k in sorted(by_kind) for u in sorted(by_kind[k], key=lambda x: (-len(x), core.canon(x)))[:8]]
        se = se[:600]
        hs = hs[:160]
    jobs = {
        "slice": ("Trace_Slice", "Trace_Slice.cfg", [[r] for r in sl], "repo_slice", lambda r: "Slice.%s" % r["op"]),
        "histogram_fills": ("Trace_Histogram", "Trace_Histogram.cfg", hs, "repo_hist",
                            lambda r: "histogram.fill:dim=%d" % len(r["edges"])),
        "get_bin_on_value_1d": ("Trace_BinSearch", "Trace_BinSearch_res.cfg", [[r] for r in se], "repo_search",
                                lambda r: "get_bin_on_value_1d"),
        "accumulator_events": ("Trace_Accumulators", "Trace_Accumulators.cfg", ac, "repo_acc",
                               lambda r: "%s:%s" % (r.get("k"), r.get("ev"))),
    }
    n = {}
    with concurrent.futures.ThreadPoolExecutor(max_workers=4) as ex:
        futs = dict((k, ex.submit(validate_units, ctx, *a)) for k, a in jobs.items())
        for k in sorted(futs):
            n[k] = futs[k].result()
    ctx.extra["repo_binding"] = {
        "suite": suite_tail, "validated_records": n,
        "recorded": {"slice": len(raw["slice"]), "histogram_sessions": len(raw["hist"]), "search": len(raw["search"]),
                     "accumulator_instances": len(raw["acc"])},
        "accumulator_kinds": sorted(set(u[0]["k"] for u in ac)),
        "skipped_not_encodable": skipped}
    if sl:
        ctx.sample({"repo_record_Slice": sl[len(sl) // 2]})
    if ac:
        ctx.sample({"repo_history_accumulator": max(ac, key=len)[:5]})
    if sum(n.values()) < 50:
        raise core.MachineryError("the REPO binding recorded almost nothing: %s" % (n,))
    return n


# --------------------------------------------------------------------------- the check
def run(ctx):
    import lena.structures   # noqa
    rnd = random.Random(ctx.seed)
    tag = "thorough" if ctx.thorough else "quick"
    ctx.assume("field names are built from tokens without underscores joined by '_'; graph contents are small integers")
    ctx.assume("the error fields a graph has parsed are read from its private _parsed_error_names (observable "
               "otherwise only through _update_context and scale, which are checked as well)")
    report = Reporter(ctx)
    pool = concurrent.futures.ThreadPoolExecutor(max_workers=1)
    rawfile = os.path.join(ctx.workdir, "repo_raw.json")
    # the repository's suite runs under the recorder, and its records are validated, while part 1 is checked
    f_suite = pool.submit(lambda: repo_binding(ctx, *run_suite(ctx, rawfile)))
    try:
        # ---- design level
        ctx.mc("GraphStruct", "GraphStruct_%s.cfg" % tag, coverage=True, must_cover=ACTIONS)
        # ---- spec -> code
        recs = ctx.export("GraphStruct", "GraphStruct_%s_export.cfg" % tag, min_records=5000)
        for k, rec in enumerate(recs):
            if rec["part"] == "graph":
                gx.replay_graph(ctx, rec, k, report)
            elif rec["part"] == "h2g":
                gx.replay_h2g(ctx, rec, k, report)
            else:
                gx.replay_dg(ctx, rec, report)
            ctx.case([rec["part"], rec["sc"], rec["op"], rec["arg"]],
                     nontrivial=not (rec["part"] == "graph" and not rec["sc"]["names"]))
        for part in ("graph", "h2g", "dgraph"):
            cands = [r for r in recs if r["part"] == part and r["res"].get("ok")]
            if cands:
                ctx.sample({"spec_behaviour": cands[(2 * len(cands)) // 3]})
        # ---- code -> spec
        trace = gx.rand_records(rnd, 6000 if ctx.thorough else 1200)
        clean = [dict((k, v) for k, v in r.items() if k != "what") for r in trace]
        acc = ctx.validate("Trace_GraphStruct", "Trace_GraphStruct.cfg", clean, label="graph")
        rounds = 0
        while acc < len(clean) and rounds < 8:
            rounds += 1
            ctx.traces += acc
            r = trace[acc]
            ctx.violation("Trace_GraphStruct:rejected:%s:%s" % (r["k"], gx.problem_key(r["sc"]) if r["k"] in ("construct", "add", "ctx", "iter") and "names" in r["sc"] else r.get("op", "")),
                          {"record": clean[acc], "what": r["what"]})
            same = lambda x: x["k"] == r["k"] and x.get("op") == r.get("op")      # noqa
            keep = [j for j in range(acc + 1, len(trace)) if not same(trace[j])]
            trace = [trace[j] for j in keep]
            clean = [clean[j] for j in keep]
            acc = ctx.validate("Trace_GraphStruct", "Trace_GraphStruct.cfg", clean, label="graph") if clean else 0
        ctx.traces += acc
        ctx.evaluations += len(clean)
        for r in clean[:acc]:
            ctx.distinct.add(core.hashlib.md5(core.canon(r).encode()).hexdigest())
        ctx.sample({"recorded_trace_record": next((r for r in clean if r["k"] == "construct" and r["res"].get("ok") and r["res"]["errs"]), clean[0] if clean else {})})

        def corrupt(r):
            if r.get("k") == "construct" and r["res"].get("ok"):
                return dict(r, res=dict(r["res"], dim=r["res"]["dim"] + 1))
            if r.get("k") == "iter" and isinstance(r["res"], list) and r["res"]:
                return dict(r, res=r["res"][:-1])       # (used when constructions cannot be observed completely)
            return None
        if clean and acc == len(clean):
            ctx.binding_demo("Trace_GraphStruct", "Trace_GraphStruct.cfg", clean, corrupt, limit=60)
        # ---- REPO
        f_suite.result()
        if gx.NOT_OBSERVABLE:
            # private attributes this version of lena does not have: those comparisons were left out
            ctx.extra["not_observable"] = dict(gx.NOT_OBSERVABLE)
            ctx.assume("reduced coverage: private attributes %s are not present in this version of lena; what is "
                       "read from them was not compared" % sorted(gx.NOT_OBSERVABLE))
    finally:
        pool.shutdown(wait=True)
    return ctx.finish(
        rule="S2C: every terminal state of the bounded GraphStruct model (all tuples of up to %d field names over 19 names "
             "incl. ambiguous, misplaced, orphan and duplicate error fields; coords shapes and container types; "
             "operations on every valid graph; 168 hist_to_graph option combinations through the function and the "
             "element; 144 deprecated-Graph operations) replayed on the real code; C2S: %d random scenarios validated by "
             "Trace_GraphStruct; REPO: every encodable call the repository's test-suite makes to Slice, histogram.fill, "
             "get_bin_on_value_1d and six accumulators validated by the existing trace specifications" % (
                 4 if ctx.thorough else 3, 6000 if ctx.thorough else 1200),
        exhaustive=True)
