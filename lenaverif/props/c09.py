"""C09  Accumulators yield the documented aggregate; reset() equals a fresh element.

spec/Accumulators.tla        Fill / Compute / Reset machine of Count, Sum, DSum, Mean, VarianceMeanCount,
                             Vectorize, StoreFilled, GroupBy, Histogram (and Graph for reset);
                             running state (operational) = Expected (declarative fold of the fills)
spec/Trace_Accumulators.tla  validation of recorded histories of the real elements
lenaverif/acclib.py          kinds/values -> real elements, observation, exact encodings
"""
import copy
import random

from .. import core
from .. import acclib as al
from .. import replaylib as rl


def _strip(obs):
    return [{k: v for k, v in o.items() if k != "repr"} for o in obs]


def replay(ctx, rec, found):
    """One behaviour of the spec on the real element: every compute() against the spec's result and,
    independently of the spec's formulas, the suffix after the last reset on a newly built element."""
    kind, h = rec["kind"], rec["h"]
    lab = al.label(kind)

    def report(what, upto, extra):
        key = "%s:%s" % (lab, what)
        cur = found.get(key)
        if cur is None or upto < len(cur["history"]):
            found[key] = dict(extra, kind=kind, history=h[:upto])

    try:
        obs = al.run_history(kind, h)
    except al.Abort as ab:
        report(ab.what, ab.index + 1, {})
        return
    # the same history with inexact floats, against the float oracle (left-to-right addition where the
    # built-in sum agrees with it)
    try:
        for idx, m in al.float_variant(kind, h):
            report("compute:%s" % m["what"], idx + 1, dict(m, floats="x -> 0.1 * x + 0.7 * (index mod 5)"))
    except Exception as exc:      # noqa
        report("float-variant:raised:" + al.exc_name(exc), len(h), {"exception": repr(exc)[:200]})
    resets = [j for j, o in enumerate(h) if o["op"] == "r"]
    ci = 0
    for j, o in enumerate(h):
        if o["op"] != "c":
            continue
        m = al.result_mismatch(kind, o["x"], obs[ci])
        if m == "data" and al.num_undecided(kind, h, j):
            m = None
        if m:
            after = ":after-reset" if any(r < j for r in resets) else ""
            report("compute:%s%s" % (m, after), j + 1, {"expected": o["x"], "observed": obs[ci]})
        ci += 1
    if resets:
        last = resets[-1]
        suffix = h[last + 1:]
        n_before = sum(1 for o in h[:last] if o["op"] == "c")
        try:
            fresh = al.run_history(al.fresh_kind(kind), suffix)
        except al.Abort as ab:
            report("fresh:" + ab.what, len(h), {})
            return
        # also: what a fresh element yields with no operation at all versus right after reset
        a, b = _strip(obs[n_before:]), _strip(fresh)
        if a != b:
            report("reset-not-fresh", len(h), {"after_reset": a, "fresh_element": b})


def _worker(rec):
    found = {}
    replay(None, rec, found)
    if found:
        found = rl.plain(found)      # observed objects (namedtuples, Decimals, histograms) -> JSON-safe text
    return found, (rl.case_hash([rec["kind"], rec["h"]]), any(o["op"] == "f" for o in rec["h"]))


def _held_worker(rec):
    """One behaviour of AccHeld.tla: the results the consumer holds, after every later operation."""
    kind, h = rec["kind"], rec["h"]
    found = {}
    try:
        bad = al.run_held(kind, h, rec["keep"])
    except Exception as exc:      # noqa  (fill / construction raising is reported by the replay of Accumulators.tla)
        bad = []
    for idx, what, detail in bad:
        key = "%s:%s" % (al.label(kind), what)
        if key not in found:
            found[key] = dict(detail, kind=kind, history=h[:idx + 1])
    if found:
        found = rl.plain(found)
    return found, (rl.case_hash(["held", kind, h]), any(o["op"] == "f" for o in h))


def held_results(ctx, found):
    """spec/AccHeld.tla: TLC checks HeldUnchanged on the model with container identities, refutes the reset that
    empties the containers in place, and exports the behaviours with the keep flags for the real elements."""
    tag = "thorough" if ctx.thorough else "quick"
    recs = rl.mc_and_export(ctx, "AccHeld", "AccHeld_%s.cfg" % tag, ("HFill", "HCompute", "HReset"), min_records=3000)
    g = ctx.mc("AccHeld", "AccHeld_wrong.cfg", expect_violation="report", workers=2)
    if g.exit == 0 or g.violated != "HeldUnchanged":
        raise core.MachineryError("the model of held results is insensitive: a reset that empties the containers in "
                                  "place was not refuted (%s)" % (g.violated,))
    g = ctx.mc("Accumulators", "Accumulators_wrongnum.cfg", expect_violation="report", workers=2)
    if g.exit == 0 or g.violated != "FreshEquiv":
        raise core.MachineryError("the model of numeric kinds is insensitive: a reset that keeps the kind of the total "
                                  "was not refuted (%s)" % (g.violated,))
    for f, case in rl.pmap(_held_worker, recs):
        rl.add_cases(ctx, [case])
        for key, val in f.items():
            if key not in found or len(val["history"]) < len(found[key]["history"]):
                found[key] = val
    ctx.sample({"held_results_behaviour": recs[len(recs) // 2]})


def construction(ctx):
    """Documented construction rules of the accumulators (the element kinds of the model use the valid forms)."""
    import lena.core
    import lena.math
    import lena.structures
    Sum = lena.math.Sum
    cases = [
        ("Vectorize:list-with-dim", lambda: lena.math.Vectorize([Sum(), Sum()], dim=2), "LenaTypeError"),
        ("Vectorize:element-without-dim", lambda: lena.math.Vectorize(Sum()), "LenaTypeError"),
        ("Vectorize:not-fill-compute", lambda: lena.math.Vectorize(lambda x: x, dim=2), "LenaTypeError"),
        ("Histogram:bins-and-make_bins", lambda: lena.structures.Histogram([0, 1, 2], bins=[0, 0], make_bins=lambda: [0, 0]),
         "LenaTypeError"),
        ("Histogram:bins-of-wrong-shape", lambda: lena.structures.Histogram([0, 1, 2], bins=[0, 0, 0]), "LenaValueError"),
    ]
    for name, make, want in cases:
        try:
            make()
            got = "accepted"
        except Exception as exc:      # noqa
            got = al.exc_name(exc)
        ctx.case(["construction", name])
        if got != want:
            ctx.violation("%s:%s" % (name, got), {"expected": want, "observed": got})


def run(ctx):
    import lena  # noqa
    tag = "thorough" if ctx.thorough else "quick"
    ctx.assume("numeric fills are small integers (exact in TLC); floats are dyadics given as limb lists, "
               "full-mantissa doubles in the recorded histories; contexts are fresh objects per fill")
    ctx.assume("inexact floats are judged outside TLC (DESIGN.md section 6): 'Sum yields Python's sum' is read as "
               "left-to-right float addition functools.reduce(operator.add, values, start) and checked only on "
               "sequences where the built-in sum() (compensated since Python 3.12) gives the identical number; the "
               "same for the numerator of Mean and the mean of VarianceMeanCount, its variance up to rounding")
    ctx.assume("Mean and VarianceMeanCount: TLC supplies/checks the exact aggregates (sum, count, variance as a "
               "rational); the harness applies float(sum)/float(count) exactly and compares the variance up to "
               "rounding (1e-9 relative to the mean square)")
    ctx.assume("reset() is compared with a new element of the same structural parameters and default start values "
               "(Count(count=), Sum(total=) are documented to reset to 0)")
    ctx.assume("GroupBy(group_by, merge): the arguments are the empty string, keys, dotted keys of a sub-dictionary, "
               "given as a bare string, a tuple of strings or omitted (lists are not documented); only configurations "
               "that the element accepts; a GroupBy that selects given keys only is filled with contexts that have at "
               "least one of them; where a rule leads into a sub-dictionary every filled context has it")
    ctx.assume("NumpyHistogram is not exercised (numpy is not installed); FillRequest/FillRequestSeq.reset belong to C16")
    cover = ("Fill", "Compute", "Reset")
    quick_recs = None
    if ctx.thorough:
        ctx.mc("Accumulators", "Accumulators_thorough.cfg", coverage=True, must_cover=cover)
    else:
        # quick: one TLC run checks the invariants and exports the behaviours
        quick_recs = rl.mc_and_export(ctx, "Accumulators", "Accumulators_quick.cfg", cover, min_records=5000)
    if ctx.thorough:
        ctx.mc("Accumulators", "Accumulators_wide.cfg", coverage=True, must_cover=cover)
        ctx.mc("Accumulators", "Accumulators_sim.cfg", simulate=15000, depth=15)
    # ---- spec -> code
    found = {}
    cfgs = ["Accumulators_%s_export.cfg" % tag] + (["Accumulators_wide_export.cfg"] if ctx.thorough else [])
    for cfg in cfgs:
        recs = quick_recs if quick_recs is not None else ctx.export("Accumulators", cfg, min_records=5000)
        for f, case in rl.pmap(_worker, recs):
            rl.add_cases(ctx, [case])
            for key, val in f.items():
                if key not in found or len(val["history"]) < len(found[key]["history"]):
                    found[key] = val
        ctx.sample({"spec_behaviour": recs[len(recs) // 3]})
        ctx.sample({"spec_behaviour": recs[(2 * len(recs)) // 3]})
    held_results(ctx, found)
    for key in sorted(found):
        ctx.violation(key, found[key])
    construction(ctx)
    # ---- code -> spec
    rnd = random.Random(ctx.seed)
    histories = []
    for _ in range(4000 if ctx.thorough else 700):
        try:
            kind, events = al.record_history(rnd, max_ops=30 if ctx.thorough else 22)
        except al.Abort as ab:
            ctx.violation("%s:%s" % (al.label(ab.kind), ab.what), {"kind": ab.kind, "events": ab.events})
            continue
        histories.append(events)
    validate_histories(ctx, histories)
    float_oracle(ctx, rnd)
    return ctx.finish(
        rule="S2C: every history over {fill(v), compute, reset} of the bounded Accumulators model (59 element "
             "kinds, 93 in the thorough tier; floats as exact halves, values that look like nothing, deprecated "
             "aliases, sum_seq with contexts, reset that raises; GroupBy over its configuration space (group_by, "
             "merge) as given - empty string, keys, nested keys, include within exclude, bare string / tuple / "
             "omitted, the default arguments; Vectorize over lists of different elements with None padding, dim 3, "
             "construct) replayed on the real element, every compute compared, suffix after the last reset replayed on "
             "a new element; non-trivial = at least one fill; C2S: seeded random histories (<= 22/30 operations, "
             "random ints, full-mantissa floats of mixed magnitude, random contexts/edges) validated step by step "
             "by Trace_Accumulators with all invariants",
        exhaustive=True)


def float_oracle(ctx, rnd):
    """Seeded random float sequences with inexact additions: Sum (also Sum.total, a start value, Vectorize(Sum)),
    Mean's numerator, the mean and variance of VarianceMeanCount against the float oracle of acclib."""
    decided = 0
    for _ in range(6000 if ctx.thorough else 1200):
        kind, xs = al.rand_float_history(rnd)
        ctx.case(["float-oracle", al.label(kind), [repr(x) for x in xs]])
        try:
            bad = al.run_float_history(kind, xs, rnd.random() < 0.5)
        except Exception as exc:      # noqa
            ctx.violation("%s:float-history:raised:%s" % (al.label(kind), al.exc_name(exc)), {"floats": [repr(x) for x in xs]})
            continue
        decided += 1 if al.sums_agree(xs, kind.get("start", 0)) else 0
        for m in bad[:1]:
            ctx.violation("%s:compute:%s" % (al.label(kind), m["what"]), m)
    ctx.extra["float_oracle_sequences_where_both_readings_of_sum_agree"] = decided
    if decided < 100:
        raise core.MachineryError("the float oracle decided only %d sequences" % decided)


def validate_histories(ctx, histories):
    """Trace-validate; a rejected history is reported and removed, the rest is validated again."""
    import hashlib
    pending = list(histories)
    demo_done = False
    for _round in range(12):
        trace = [e for hh in pending for e in hh]
        if not trace:
            break
        acc = ctx.validate("Trace_Accumulators", "Trace_Accumulators.cfg", trace, label="acc")
        ctx.evaluations += len(trace) if _round == 0 else 0
        if not demo_done and acc >= 40:
            demo_done = True
            ctx.sample({"recorded_trace_events": trace[:6]})

            def corrupt(r):
                if r["ev"] == "c" and r["r"]["ok"] and r["r"]["out"]:
                    r = copy.deepcopy(r)
                    r["r"]["out"][-1]["h"] = not r["r"]["out"][-1]["h"]
                    return r
                return None
            ctx.binding_demo("Trace_Accumulators", "Trace_Accumulators.cfg", trace, corrupt)
        if acc >= len(trace):
            ctx.traces += len(pending)
            for hh in pending:
                ctx.distinct.add(hashlib.md5(core.canon(hh).encode()).hexdigest())
            return
        # locate the history that contains the rejected event
        pos, bad = 0, None
        for k, hh in enumerate(pending):
            if pos + len(hh) > acc:
                bad = k
                break
            pos += len(hh)
        hh = pending[bad]
        ev = hh[acc - pos]
        ctx.violation("Trace_Accumulators:rejected:%s:%s" % (ev["k"], ev["ev"]),
                      {"history": hh[:acc - pos + 1], "rejected_event_index": acc - pos})
        ctx.traces += bad
        for good in pending[:bad]:
            ctx.distinct.add(hashlib.md5(core.canon(good).encode()).hexdigest())
        # the other recorded histories of this element kind would be rejected the same way
        pending = [x for x in pending[bad + 1:] if x[0]["kind"]["t"] != hh[0]["kind"]["t"]]
