"""C11  SplitIntoBins runs the analysis per cell on exactly that cell's values; IterateBins, MapBins.

spec/SplitIntoBinsSem.tla   CellOf (half-open cells), SubFlow, InnerSem, SIBSem (zip of per-cell results),
                            IterSem, MapSem - written from the documentation
spec/SplitIntoBins.tla      fill / compute / IterateBins machine with per-cell state; TLC: PerCell, NoCrossTalk,
                            OutsideIgnored, ComputeZip, IterOnceEach, MapShape
spec/Trace_SplitIntoBins.tla   validation of recorded runs with real-valued edges (rank-abstracted)
"""
import concurrent.futures
import copy
import random

from .. import core
from .. import binslib as bl

ACTIONS = ("FillInside", "FillUnderflow", "FillOverflow", "StartCompute", "ComputeNext", "WriteCtx", "ComputeStop",
           "IterNext", "Mutate", "IterEnd")


def lists(x):
    """Nested tuples -> nested lists (TLC sequences come back as lists)."""
    if isinstance(x, (list, tuple)):
        return [lists(y) for y in x]
    return x


def template_of(seq):
    """The accumulator object(s) handed to the constructor (to see that they are only a template)."""
    if isinstance(seq, bl.Collect):
        return [seq]
    return [el for el in getattr(seq, "_seq", []) if isinstance(getattr(el, "_el", el), bl.Collect) or isinstance(el, bl.Collect)]


def consume(gen):
    """The consumer of the specification: takes one histogram, keeps a snapshot of its context as it
    arrived, writes into the context (and into context.variable), then asks for the next one."""
    got = []
    for k, res in enumerate(gen, 1):
        if isinstance(res, tuple) and len(res) == 2 and isinstance(res[1], dict):
            snap = copy.deepcopy(res[1])
            res[1]["touched"] = k
            if isinstance(res[1].get("variable"), dict):
                res[1]["variable"]["touched"] = k
            got.append((res[0], snap, res[1]))
        else:
            got.append((res, None, None))
    return got


def run_sib(rec, variant):
    """The real SplitIntoBins on the scenario, used again as the specification does: compute() after
    rec["cut"] values, once more at once, the rest of the flow, compute().  Variant 2/3 (only when
    compute() is due after the whole flow) drives it through Sequence.run instead."""
    import lena.core
    import lena.structures as ls
    dim = len(rec["edges"])
    edges = bl.in_form(bl.py_edges(rec["edges"], False), rec.get("form", "l"))
    given_edges = copy.deepcopy(edges)
    style = 0 if dim == 1 else (variant + len(rec["flow"]) + rec["cut"]) % 3
    av = bl.arg_var(1) if dim == 1 else bl.arg_var2(style)
    var_before = copy.deepcopy(av.var_context)
    els = bl.elements(rec["kind"])
    bare = bool(variant % 2) and len(els) == 1
    seq = els[0] if bare else lena.core.FillComputeSeq(*els)
    template = [el for el in els if isinstance(el, bl.Collect)]
    sib = ls.SplitIntoBins(seq, av, given_edges)
    values = bl.make_values(rec["flow"], dim, False, pairs=bl.duck_pair if variant % 4 == 1 else None)
    cut = rec["cut"]
    problems = []
    if variant >= 2 and cut == len(values):
        computes = [consume(lena.core.Sequence(sib).run(iter(values)))]
        expected = [rec["computes"][-1]]
    else:
        computes, expected = [], rec["computes"]
        for v in values[:cut]:
            sib.fill(v)
        computes.append(consume(sib.compute()))
        computes.append(consume(sib.compute()))
        if cut < len(values):
            for v in values[cut:]:
                sib.fill(v)
            computes.append(consume(sib.compute()))
    if any(t.ids for t in template):
        problems.append("the analysis object given to the constructor is filled itself")
    if given_edges != edges or type(given_edges) is not type(edges):
        problems.append("SplitIntoBins changes the edges it was given")
    if av.var_context != var_before:
        problems.append("a consumer's write into a yielded context reaches the argument variable's var_context")
    # no two yielded contexts share a mutable object; none shares one with a flow value
    from ..util import reach_ids
    owners = [("flow value %d" % (i + 1), set(reach_ids(v[1]))) for i, v in enumerate(values)
              if isinstance(v, tuple) and len(v) == 2 and isinstance(v[1], dict)]
    owners.append(("the argument variable", set(reach_ids(av.var_context))))
    for c, comp in enumerate(computes):
        for k, (hist, snap, live) in enumerate(comp):
            if live is None:
                continue
            mine = set(reach_ids(live))
            for name, other in owners:
                if mine & other:
                    problems.append("the context of a yielded histogram shares a mutable object with %s"
                                    % ("another yielded context" if name.startswith("histogram") else name.rstrip(" 0123456789")))
                    break
            owners.append(("histogram %d.%d" % (c, k), mine))
    return computes, expected, av, edges, dim, values, problems, style


def ctx_dict(c):
    """Harness context for a specification record [src, mut]."""
    d = {}
    if c["src"]:
        d["src"] = c["src"]
    if c["mut"]:
        d["mut"] = c["mut"]
    return d


def check_contexts(rec, exp, comp, av, worst, size, where):
    """Every histogram arrives with the last inside value's context as it arrived + variable of the
    argument variable - nothing an inner element or the consumer of an earlier histogram wrote."""
    base = {"scenario": bl.scen_text(rec), "where": where}
    ok = True
    want = dict(ctx_dict(exp["hctx"]), variable=av.var_context)
    for k, (hist, snap, live) in enumerate(comp):
        if snap != want:
            ok = False
            kind = ("context.variable does not describe the argument variable"
                    if (snap or {}).get("variable") != av.var_context else
                    "histogram context is not the last filled value's context + variable")
            worst.add(kind, size, dict(base, histogram=k, values_filled=exp["n"], expected=repr(want), observed=repr(snap)))
    return ok


def check_flow_contexts(rec, values, worst, size, where):
    """The flow values' own contexts hold nothing SplitIntoBins wrote."""
    base = {"scenario": bl.scen_text(rec), "where": where}
    ok = True
    for i, (v, c) in enumerate(zip(values, rec["vctx"])):
        if not (isinstance(v, tuple) and len(v) == 2 and isinstance(v[1], dict)):
            continue
        if dict(v[1]) != ctx_dict(c):
            ok = False
            worst.add("SplitIntoBins changes the context of a flow value", size,
                      dict(base, position=i + 1, expected=repr(ctx_dict(c)), observed=repr(dict(v[1]))))
    return ok


def check_hists(rec, exp, out, av, edges, dim, worst, size, where):
    import lena.structures as ls
    base = {"scenario": bl.scen_text(rec), "where": where}
    if len(out) != len(exp):
        worst.add("number of histograms", size, dict(base, expected=len(exp), observed=len(out)))
        return False
    ok = True
    for k, res in enumerate(out):
        hist, context = res if isinstance(res, tuple) and len(res) == 2 else (res, None)
        if not isinstance(hist, ls.histogram) or not isinstance(context, dict):
            worst.add("compute() does not yield (histogram, context)", size, dict(base, observed=repr(res)[:200]))
            return False
        if lists(hist.edges) != lists(edges):
            ok = False
            worst.add("histogram edges differ from the given edges", size, dict(base, observed=repr(hist.edges)))
        try:
            got = bl.md_map(bl.enc_result, hist.bins, dim)
        except Exception as exc:   # noqa
            worst.add("bins of another shape", size, dict(base, observed=repr(hist.bins)[:300], exception=repr(exc)))
            return False
        if got != exp[k]:
            ok = False
            ids_exp = bl.md_map(lambda r: r["ids"], exp[k], dim)
            ids_got = bl.md_map(lambda r: r["ids"], got, dim)
            kind = "a cell holds other values" if (ids_exp != ids_got and rec["kind"] != "shift") else "cell results differ"
            worst.add(kind, size, dict(base, histogram=k, expected=exp[k], observed=got))
    return ok


def check_iter(rec, out, edges, dim, worst, size, style):
    import lena.structures as ls
    if not out:
        return
    base = {"scenario": bl.scen_text(rec), "where": "IterateBins"}
    hist, context = copy.deepcopy(out[0])
    marker = ("not a histogram", {"m": 1})
    kw = {"select_bins": (lambda _: True)}
    if dim == 2 and style != 0:
        # one Variable for two coordinates has one name only: edges are rendered by the caller
        kw["create_edges_str"] = lambda cell_edges, var_context=None: repr(cell_edges)
    pristine = copy.deepcopy(context)
    got, npulled = [], 0
    try:
        # the consumer of the specification: pull one cell, write into its context.bins, pull the next
        for x in ls.IterateBins(**kw).run(iter([5, (hist, context), marker])):
            got.append(x)
            if isinstance(x, tuple) and len(x) == 2 and isinstance(x[1], dict) and isinstance(x[1].get("bins"), dict) \
                    and x is not marker:
                npulled += 1
                if x[1]["bins"] != pristine:
                    worst.add("IterateBins: context.bins of a cell is not the histogram's context (a consumer's write "
                              "into an earlier cell shows up)", size, dict(base, position=npulled, expected=repr(pristine),
                                                                        observed=repr(x[1]["bins"])))
                x[1]["bins"]["touched"] = npulled
                x[1]["bins"].setdefault("variable", {})["touched"] = npulled
    except Exception as exc:   # noqa
        worst.add("IterateBins raised %s" % type(exc).__name__, size, dict(base, exception=repr(exc)))
        return
    if context != pristine:
        worst.add("IterateBins: a consumer's write into a cell's context.bins changes the histogram's context", size,
                  dict(base, expected=repr(pristine), observed=repr(context)))
    # no two yielded contexts share a mutable object, none shares one with the histogram's context
    from ..util import reach_ids
    owners = [("histogram context", set(reach_ids(context)))]
    for n, x in enumerate(got):
        if isinstance(x, tuple) and len(x) == 2 and isinstance(x[1], dict) and x is not marker:
            mine = set(reach_ids(x[1]))
            for name, other in owners:
                if mine & other:
                    worst.add("IterateBins: two yielded contexts (or one and the histogram's) share a mutable object", size,
                              dict(base, position=n, shares_with=name))
                    break
            owners.append(("cell %d" % n, mine))
    if not got or got[0] != 5 or got[-1] is not marker:
        worst.add("IterateBins changes values that are not histograms", size, dict(base, observed=repr(got)[:300]))
        return
    cells = got[1:-1]
    exp = rec["iter"]
    if len(cells) != len(exp):
        worst.add("IterateBins: number of cells", size, dict(base, expected=len(exp), observed=len(cells)))
        return
    # the order of enumeration is not fixed by the statement: cells are matched by their edges
    try:
        cells = sorted(cells, key=lambda c: lists(c[1]["bin"]["edges"]))
    except Exception as exc:   # noqa
        worst.add("IterateBins: malformed value", size, dict(base, observed=repr(cells)[:300], exception=repr(exc)))
        return
    for n, (c, e) in enumerate(zip(cells, exp)):
        try:
            data, ctx = c
            content = bl.enc_result(c)
            cell_edges = lists(ctx["bin"]["edges"])
        except Exception as exc:   # noqa
            worst.add("IterateBins: malformed value", size, dict(base, observed=repr(c)[:300], exception=repr(exc)))
            return
        if content != e["content"]:
            worst.add("IterateBins: cell content or context of another cell", size,
                      dict(base, position=n, expected=e["content"], observed=content))
        if cell_edges != e["e"]:
            worst.add("IterateBins: edges of another cell", size, dict(base, position=n, expected=e["e"], observed=cell_edges))


def check_maps(rec, out, edges, dim, worst, size):
    import lena.structures as ls
    if not out:
        return
    for m in ("tag", "dup", "drop", "seen", "src"):
        exp = rec["maps"][m]
        for drop_ctx in (True, False):
            base = {"scenario": bl.scen_text(rec), "where": "MapBins(%s, drop_bins_context=%s)" % (m, drop_ctx)}
            hist, context = copy.deepcopy(out[0])
            try:
                got = list(ls.MapBins(bl.MAPS[m](), drop_bins_context=drop_ctx).run(iter([7, (hist, context)])))
            except Exception as exc:   # noqa
                worst.add("MapBins raised %s" % type(exc).__name__, size, dict(base, exception=repr(exc)))
                continue
            if not got or got[0] != 7:
                worst.add("MapBins changes values that are not histograms", size, dict(base, observed=repr(got)[:300]))
                continue
            got = got[1:]
            if len(got) != len(exp):
                worst.add("MapBins: number of histograms", size, dict(base, expected=len(exp), observed=len(got)))
                continue
            for k, res in enumerate(got):
                try:
                    new_hist, _ = res
                    if drop_ctx:
                        bins = bl.md_map(lambda d: {"t": d[0], "ids": list(d[1])}, new_hist.bins, dim)
                        want = bl.md_map(lambda r: {"t": r["t"], "ids": r["ids"]}, exp[k], dim)
                    else:
                        bins = bl.md_map(bl.enc_result, new_hist.bins, dim)
                        want = exp[k]
                except Exception as exc:   # noqa
                    worst.add("MapBins: histogram of another shape", size, dict(base, observed=repr(res)[:300], exception=repr(exc)))
                    break
                if lists(new_hist.edges) != lists(edges):
                    worst.add("MapBins: edges differ", size, dict(base, observed=repr(new_hist.edges)))
                if bins != want:
                    worst.add("MapBins: a cell is not the mapping of the corresponding cell", size,
                              dict(base, histogram=k, expected=want, observed=bins))


def replay(ctx, rec, n, worst):
    size = (len(rec["flow"]), len(core.canon(rec["edges"])), core.canon([rec["edges"], rec["flow"], rec["kind"], rec["cut"]]))
    if rec["form"] != "l":
        size = (size[0], size[1] + 1, size[2])          # witnesses with plain lists are preferred
    for variant in ((n % 2, 2 + n % 2) if n % 5 == 0 else (n % 4,) if n % 4 < 2 else (n % 2,)):
        where = "run" if variant >= 2 else "fill/compute"
        try:
            computes, expected, av, edges, dim, values, problems, style = run_sib(rec, variant)
        except Exception as exc:   # noqa
            worst.add("raised %s" % type(exc).__name__, size, {"scenario": bl.scen_text(rec), "exception": repr(exc), "where": where})
            continue
        for p in problems:
            worst.add(p, size, {"scenario": bl.scen_text(rec), "where": where})
        ok = True
        for c, (comp, exp) in enumerate(zip(computes, expected)):
            w = "%s, compute() number %d after %d values" % (where, c + 1, exp["n"])
            out = [(h, snap) for h, snap, _ in comp]
            ok = check_hists(rec, exp["hists"], out, av, edges, dim, worst, size, w) and ok
            ok = check_contexts(rec, exp, comp, av, worst, size, w) and ok
        ok = check_flow_contexts(rec, values, worst, size, where) and ok
        out = [(h, snap) for h, snap, _ in computes[-1]]
        if ok and variant < 2:
            check_iter(rec, out, edges, dim, worst, size, style)
            if n % 3 == 0 or len(rec["flow"]) <= 1:
                check_maps(rec, out, edges, dim, worst, size)
    ctx.case(["sib", rec["edges"], rec["form"], rec["flow"], rec["kind"], rec["cut"]], nontrivial=len(rec["flow"]) > 0)


# ------------------------------------------------------------------ second oracle: real analyses
def tag_inner(value):
    """An inner element that writes into the context of the value in place."""
    import lena.flow
    data, context = lena.flow.get_data_context(value)
    context["tagged_by_inner"] = data[0]
    return (data, context)


def real_analyses():
    """Inner analyses built from lena's own elements (fresh elements at every call); most of them have a
    pre-element that changes the context of the value in place."""
    import lena.context
    import lena.flow
    import lena.math
    import lena.output
    import lena.structures
    import lena.variables as lv
    num = lambda **kw: lv.Variable("pos", lambda data: data[0], **kw)
    return {
        "Count": lambda: (lena.flow.Count(),),
        "Variable+Sum": lambda: (num(), lena.math.Sum()),
        "Variable+Mean": lambda: (num(), lena.math.Mean()),
        "Variable+Histogram": lambda: (num(), lena.structures.Histogram([0, 2, 4, 9])),
        "typed Variable+Sum": lambda: (num(type="value", unit="m"), lena.math.Sum()),
        "callable writing into the context+Count": lambda: (tag_inner, lena.flow.Count()),
        "UpdateContext+Count": lambda: (lena.context.UpdateContext("inner.seen", "by_inner_element"), lena.flow.Count()),
        "MakeFilename+Count": lambda: (lena.output.MakeFilename("inner_{{src}}", dirname="cells"), lena.flow.Count()),
    }


def second_oracle(ctx, rec, worst):
    """Routing taken from the specification; per-cell results from a private copy of the real
    analysis run on the sub-flow; compared cell by cell with what SplitIntoBins yields."""
    import lena.core
    import lena.structures as ls
    dim = len(rec["edges"])
    edges = bl.in_form(bl.py_edges(rec["edges"], False), rec.get("form", "l"))
    cells = bl.cell_indices(rec["edges"])
    size = (len(rec["flow"]), len(core.canon(rec["edges"])), core.canon([rec["edges"], rec["flow"]]))
    for name, mk in sorted(real_analyses().items()):
        base = {"scenario": bl.scen_text(dict(rec, kind=name)), "where": "private copy of the real analysis"}
        av = bl.arg_var(1, typed=name.startswith("typed")) if dim == 1 else bl.arg_var2(0)
        values = bl.make_values(rec["flow"], dim, False)
        exp, exp_exc = {}, None
        for idx in cells:
            priv = lena.core.FillComputeSeq(*mk())
            for pos, v in enumerate(bl.make_values(rec["flow"], dim, False)):
                if tuple(c - 1 for c in rec["route"][pos]) == idx:
                    priv.fill(v)
            try:
                exp[idx] = list(priv.compute())
            except Exception as exc:   # noqa
                exp_exc = type(exc).__name__
        try:
            sib = ls.SplitIntoBins(lena.core.FillComputeSeq(*mk()), av, copy.deepcopy(edges))
            for v in values:
                sib.fill(v)
            out = list(sib.compute())
            again = list(sib.compute())          # the same object asked again
            got_exc = None
        except Exception as exc:   # noqa
            out, again, got_exc = [], [], type(exc).__name__
        ctx.case(["sib-real", rec["edges"], rec["flow"], name], nontrivial=len(rec["flow"]) > 0)
        if name.startswith("typed") and dim == 1:
            # values that already carry a typed context.variable: composing it with the argument variable
            # must not write into the argument variable's own var_context (compute() called twice)
            av2 = bl.arg_var(1, typed=True)
            before = copy.deepcopy(av2.var_context)
            try:
                sib2 = ls.SplitIntoBins(lena.core.FillComputeSeq(*mk()), av2, copy.deepcopy(edges))
                for v in bl.make_values(rec["flow"], dim, False):
                    if isinstance(v, tuple) and len(v) == 2 and isinstance(v[1], dict):
                        v[1]["variable"] = {"name": "up", "type": "value", "value": {"name": "up"}}
                    sib2.fill(v)
                list(sib2.compute())
                list(sib2.compute())
            except Exception as exc:   # noqa
                worst.add("raised %s" % type(exc).__name__, size, dict(base, where="flow values with a typed context.variable"))
            if av2.var_context != before:
                worst.add("SplitIntoBins writes into the var_context of its argument variable", size,
                          dict(base, expected=repr(before), observed=repr(av2.var_context)))
        if not got_exc and [c for _, c in again] != [c for _, c in out]:
            kind = ("context.variable does not describe the argument variable"
                    if any(c.get("variable") != av.var_context for _, c in again) else
                    "histogram context is not the last filled value's context + variable")
            worst.add(kind, size, dict(base, where="compute() called a second time", expected=repr([c for _, c in out][:1]),
                                       observed=repr([c for _, c in again][:1])))
        if exp_exc or got_exc:
            # a private copy that cannot compute (Mean of nothing): SplitIntoBins cannot either
            if exp_exc != got_exc:
                worst.add("real analysis: exception differs from the private copy", size,
                          dict(base, expected=exp_exc, observed=got_exc))
            continue
        nexp = min(len(r) for r in exp.values())
        if len(out) != nexp:
            worst.add("real analysis: number of histograms", size, dict(base, expected=nexp, observed=len(out)))
            continue
        # histogram context: the last inside value's context as it arrived + variable of the argument
        # variable - nothing the inner elements wrote (last is the specification's)
        arrived = {"src": rec["last"]} if (rec["last"] and rec["flow"][rec["last"] - 1]["h"]) else {}
        want = dict(arrived, variable=av.var_context)
        for k, (hist, context) in enumerate(out):
            if context != want:
                kind = ("context.variable does not describe the argument variable"
                        if context.get("variable") != av.var_context else
                        "histogram context is not the last filled value's context + variable")
                worst.add(kind, size, dict(base, histogram=k, expected=repr(want), observed=repr(context)))
        # SplitIntoBins itself writes nothing into the flow values (the argument variable's description
        # in particular stays out of them)
        for i, v in enumerate(values):
            if isinstance(v, tuple) and len(v) == 2 and isinstance(v[1], dict):
                vc = v[1]
                want_src = (i + 1) if rec["flow"][i]["h"] else None
                if vc.get("src") != want_src or (vc.get("variable") is not None and vc["variable"].get("name") in ("x", "xy")):
                    worst.add("SplitIntoBins changes the context of a flow value", size,
                              dict(base, position=i + 1, observed=repr(vc)))
        for k, (hist, context) in enumerate(out):
            for idx in cells:
                got = bl.md_get(hist.bins, idx)
                if got != exp[idx][k]:
                    worst.add("real analysis: a cell differs from the private copy on its sub-flow", size,
                              dict(base, cell=list(idx), expected=repr(exp[idx][k])[:300], observed=repr(got)[:300]))
        # cells that hold histograms are what IterateBins selects by default
        if name == "Variable+Histogram" and out and dim == 1:
            hist, context = copy.deepcopy(out[0])
            try:
                cellsout = list(ls.IterateBins().run(iter([(hist, context)])))
            except Exception as exc:   # noqa
                worst.add("IterateBins raised %s" % type(exc).__name__, size, dict(base, exception=repr(exc)))
                continue
            want = sorted(repr(exp[idx][0][0]) for idx in cells)
            if len(cellsout) != len(cells) or sorted(repr(c[0]) for c in cellsout) != want:
                worst.add("IterateBins: cell content or context of another cell", size,
                          dict(base, observed=repr(cellsout)[:300]))


# ------------------------------------------------------------------ C2S
def record_runs(ctx, rnd, n, worst):
    import lena.structures as ls
    trace = []
    while len(trace) < n:
        dim = 1 if rnd.random() < 0.55 else 2
        edges = []
        for _ in range(dim):
            k = rnd.randint(1, 6 if dim == 1 else 4)
            e, x = [], rnd.choice([-3.5, -1.0, 0.0, 0.1, 2.5])
            for _ in range(k + 1):
                e.append(x)
                x = x + rnd.choice([0.1, 0.2, 0.25, 1.0, 1.5, 3.0, 1e-9, 7.0])
            edges.append(e)
        coords = []
        for _ in range(rnd.randint(0, 12)):
            c = []
            for e in edges:
                t = rnd.random()
                if t < 0.35:
                    c.append(rnd.choice(e))                                   # exactly on an edge
                elif t < 0.5:
                    c.append(rnd.choice([e[0] - 0.5, e[-1] + 0.5, e[-1] + 1e-9, e[0] - 1e-9]))
                else:
                    j = rnd.randrange(len(e) - 1)
                    c.append(e[j] + (e[j + 1] - e[j]) * rnd.choice([0.5, 0.25, 0.999999, 1e-6]))
            coords.append(c)
        kind = rnd.choice(bl.KINDS)
        hs = [rnd.random() < 0.7 for _ in coords]
        ps = [h or rnd.random() < 0.4 for h in hs]          # some values are (data, {}) pairs
        redges, rcoords = bl.rank_abstract(edges, coords)
        form = rnd.choice(["l", "l", "t"] if dim == 1 else ["l", "l", "t", "lt", "tl"])
        rec = {"edges": redges, "form": form, "kind": kind,
               "flow": [{"x": c, "h": h, "p": p} for c, h, p in zip(rcoords, hs, ps)]}
        real_edges = bl.in_form(edges[0] if dim == 1 else edges, form)
        av = bl.arg_var(1) if dim == 1 else bl.arg_var2(0)
        values = []
        for i, (c, h, p) in enumerate(zip(coords, hs, ps)):
            data = (i + 1, c[0] if dim == 1 else tuple(c))
            values.append((data, {"src": i + 1}) if h else ((data, {}) if p else data))
        try:
            sib = ls.SplitIntoBins(bl.make_seq(kind), av, copy.deepcopy(real_edges))
            for v in values:
                sib.fill(v)
            out = list(sib.compute())
            rec["hists"] = [bl.md_map(bl.enc_result, h.bins, dim) for h, _ in out]
            hc = out[0][1] if out else {}
            rec["hctx"] = {"src": hc.get("src", 0), "mut": hc.get("mut", 0)}
            rec["vctx"] = [{"src": v[1].get("src", 0), "mut": v[1].get("mut", 0)} if p else {"src": 0, "mut": 0}
                           for v, p in zip(values, ps)]
            if out and hc.get("variable") != av.var_context:
                raise ValueError("context.variable %r" % (hc.get("variable"),))
            rec["iter"] = []
            if out:
                maps = [{x: i for i, x in enumerate(sorted(set(list(e) + [c[d] for c in coords])))}
                        for d, e in enumerate(edges)]
                cells = list(ls.IterateBins(select_bins=lambda _: True).run(iter([copy.deepcopy(out[0])])))
                rec["iter"] = sorted([[maps[d][lo], maps[d][hi]] for d, (lo, hi) in enumerate(c[1]["bin"]["edges"])]
                                     for c in cells)       # order of enumeration not fixed by the statement
        except Exception as exc:   # noqa
            size = (10 ** 6 + len(coords), 0, core.canon(rec))
            worst.add("raised %s" % type(exc).__name__, size, {"scenario": bl.scen_text(rec), "exception": repr(exc),
                                                              "real_edges": repr(real_edges), "where": "random real-valued edges"})
            n -= 1
            continue
        rec["real"] = {"edges": repr(real_edges), "coords": repr(coords)}
        trace.append(rec)
    return trace


def report(ctx, worst):
    for kind, (size, d) in sorted(worst.best.items()):
        ctx.violation("SplitIntoBins:%s:%s" % (kind, d["scenario"]), dict(d, cases_of_this_kind=worst.count[kind]))


def corrupt(r):
    for k, h in enumerate(r["hists"]):
        flat = h if len(r["edges"]) == 1 else [c for row in h for c in row]
        if len(flat) >= 2 and flat[0]["ids"]:
            r2 = copy.deepcopy(r)
            f2 = r2["hists"][k] if len(r["edges"]) == 1 else [c for row in r2["hists"][k] for c in row]
            f2[1]["ids"] = f2[1]["ids"] + [f2[0]["ids"].pop()]        # a value moves to the next cell
            return r2
    return None


def make_demo(recs):
    """Records for the binding demonstration, taken from behaviours of the specification itself."""
    demo = []
    for r in reversed(recs[-5000:]):
        d = {"edges": r["edges"], "form": r["form"], "kind": r["kind"], "flow": r["flow"], "hists": r["hists"],
             "iter": [c["e"] for c in r["iter"]], "hctx": r["hctx"], "vctx": r["vctx"]}
        if corrupt(d) is not None:          # a record in which a value can be moved to the next cell
            demo.append(d)
            if len(demo) == 40:
                break
    return demo


def run(ctx):
    tag = "thorough" if ctx.thorough else "quick"
    rnd = random.Random(ctx.seed)
    ctx.assume("inner analyses are the harness's tagged accumulators with pre/post elements (binslib.KINDS) and, for the "
               "second oracle, lena's Count/Sum/Mean/Histogram behind a Variable; values are (position, coordinate) "
               "pairs; edges and coordinates enter the specification as ranks (only comparisons are used)")
    ctx.assume("2-dimensional argument variables are a Combine of two variables, or one Variable returning a pair "
               "with the caller supplying create_edges_str to IterateBins (one name cannot label two coordinates)")
    # the model-checking run and the export run are independent: side by side
    with concurrent.futures.ThreadPoolExecutor(max_workers=2) as pool:
        f_mc = pool.submit(ctx.mc, "SplitIntoBins", "SplitIntoBins_%s.cfg" % tag, coverage=True, must_cover=ACTIONS)
        f_ex = pool.submit(ctx.export, "SplitIntoBins", "SplitIntoBins_%s_export.cfg" % tag, min_records=1000)
        recs = f_ex.result()
        f_mc.result()
    worst = bl.Worst()
    seen = set()
    for n, rec in enumerate(recs):
        replay(ctx, rec, n, worst)
        key = core.canon([rec["edges"], rec["form"], rec["flow"]])
        if key not in seen and n % (2 if ctx.thorough else 3) == 0:
            seen.add(key)
            second_oracle(ctx, rec, worst)
    ctx.sample({"spec_behaviour": recs[len(recs) // 2]})
    ctx.sample({"spec_behaviour": recs[-1]})
    trace = record_runs(ctx, rnd, 4000 if ctx.thorough else 1200, worst)
    clean = [{k: v for k, v in r.items() if k != "real"} for r in trace]
    demo_pool = concurrent.futures.ThreadPoolExecutor(max_workers=1)
    f_demo = demo_pool.submit(ctx.binding_demo, "Trace_SplitIntoBins", "Trace_SplitIntoBins.cfg", make_demo(recs), corrupt, 80)
    acc = ctx.validate("Trace_SplitIntoBins", "Trace_SplitIntoBins.cfg", clean)
    ctx.traces += acc
    ctx.evaluations += len(clean)
    for r in clean[:acc]:
        ctx.distinct.add(core.canon(r))
    if acc < len(clean):
        r = trace[acc]
        worst.add("recorded run rejected", (10 ** 6 + len(r["flow"]), 0, core.canon(clean[acc])),
                  {"scenario": bl.scen_text(r), "real": r["real"], "observed_histograms": r["hists"],
                   "observed_iter": r["iter"], "where": "Trace_SplitIntoBins", "index": acc})
    ctx.sample({"recorded_trace_record": trace[min(1, len(trace) - 1)]})
    report(ctx, worst)

    f_demo.result()
    demo_pool.shutdown()
    return ctx.finish(
        rule="S2C: every scenario of the bounded model (1-d edges with 1-3 cells, 2-d 2x2 / 2x1 / 1x3, written as lists or "
             "tuples at either level; flows with "
             "coordinates below, on every edge, inside every cell and above; eight inner analyses) on the real "
             "SplitIntoBins (fill/compute and run), IterateBins and MapBins; second oracle: lena's own accumulators "
             "against a private copy on the sub-flows routed by the specification; non-trivial = flow not empty; "
             "C2S: seeded random real-valued edges and flows (rank-abstracted) validated by Trace_SplitIntoBins",
        exhaustive=True)
