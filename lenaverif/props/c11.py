"""C11  SplitIntoBins runs the analysis per cell on exactly that cell's values; IterateBins, MapBins.

spec/SplitIntoBinsSem.tla   CellOf (half-open cells), SubFlow, InnerSem, SIBSem (zip of per-cell results),
                            IterSem, MapSem - written from the documentation
spec/SplitIntoBins.tla      fill / compute / IterateBins machine with per-cell state; TLC: PerCell, NoCrossTalk,
                            OutsideIgnored, ComputeZip, IterOnceEach, MapShape
spec/Trace_SplitIntoBins.tla   validation of recorded runs with real-valued edges (rank-abstracted)

Dimensions beyond the plain flow: values on which the cell's analysis raises (FillRaises / Propagates: the
caller of fill() gets the exception of the private copy, for inside values only); analyses whose compute()
changes their own state (cst / OwnState: a counting post-element, a counter kept in the yielded context
object) - cells that share an object show counts no private copy produces; one IterateBins element given
histograms of two SplitIntoBins (same analysis object, same edges object, different argument variables) and
run twice (IterFlow / OwnDescription: context.bin describes the cell in terms of its own histogram's variable).
"""
import concurrent.futures
import copy
import random

from .. import core
from .. import binslib as bl

ACTIONS = ("FillInside", "FillRaises", "FillUnderflow", "FillOverflow", "StartCompute", "ComputeNext", "WriteCtx", "ComputeStop", "IterHist",
           "IterNext", "Mutate", "IterEnd")


def lists(x):
    """Nested tuples -> nested lists (TLC sequences come back as lists)."""
    if isinstance(x, (list, tuple)):
        return [lists(y) for y in x]
    return x


def template_of(seq):
    """The accumulator object(s) handed to the constructor (to see that they are only a template)."""
    if isinstance(seq, bl.Collect):
        return [seq]
    return [el for el in getattr(seq, "_seq", []) if isinstance(getattr(el, "_el", el), bl.Collect) or isinstance(el, bl.Collect)]


def consume(gen):
    """The consumer of the specification: takes one histogram, keeps a snapshot of its context as it
    arrived, writes into the context (and into context.variable), then asks for the next one."""
    got = []
    for k, res in enumerate(gen, 1):
        if isinstance(res, tuple) and len(res) == 2 and isinstance(res[1], dict):
            snap = copy.deepcopy(res[1])
            # the histogram as it arrived (an analysis may yield its own objects and change them later)
            hist = copy.deepcopy(res[0])
            res[1]["touched"] = k
            if isinstance(res[1].get("variable"), dict):
                res[1]["variable"]["touched"] = k
            got.append((hist, snap, res[1]))
        else:
            got.append((res, None, None))
    return got


def has_failing(rec):
    return any(v.get("f", "none") != "none" for v in rec["flow"])


def run_sib(rec, variant):
    """The real SplitIntoBins on the scenario, used again as the specification does: compute() after
    rec["cut"] values, once more at once, the rest of the flow, compute().  Variant 2/3 (only when
    compute() is due after the whole flow) drives it through Sequence.run instead.
    Next to it a second SplitIntoBins is built from the same analysis object and the same edges object
    with another argument variable (same routing) and driven through the same history, value by value.
    The caller of fill() catches what it raises on the values the analysis cannot digest."""
    import lena.core
    import lena.structures as ls
    dim = len(rec["edges"])
    edges = bl.in_form(bl.py_edges(rec["edges"], False), rec.get("form", "l"))
    given_edges = copy.deepcopy(edges)
    style = 0 if dim == 1 else (variant + len(rec["flow"]) + rec["cut"]) % 3
    av = bl.arg_var(1) if dim == 1 else bl.arg_var2(style)
    av_y = bl.arg_var_y(dim, style)
    var_before = copy.deepcopy(av.var_context)
    els = bl.elements_for(rec["kind"], guard=(variant % 2 == 0 and has_failing(rec)))
    bare = bool(variant % 2) and len(els) == 1
    seq = els[0] if bare else lena.core.FillComputeSeq(*els)
    template = [el for el in els if isinstance(el, bl.Collect)]
    sib = ls.SplitIntoBins(seq, av, given_edges)
    pairs = bl.duck_pair if variant % 4 == 1 else None
    values = bl.make_values(rec["flow"], dim, False, pairs=pairs)
    cut = rec["cut"]
    problems = []
    second = None
    if variant >= 2 and cut == len(values):
        computes = [consume(lena.core.Sequence(sib).run(iter(values)))]
        expected = [rec["computes"][-1]]
        errs = []
    else:
        sib_y = ls.SplitIntoBins(seq, av_y, given_edges)
        values_y = bl.make_values(rec["flow"], dim, False, pairs=pairs)
        computes, computes_y, errs, errs_y, expected = [], [], [], [], rec["computes"]

        def fill(lo, hi):
            for i in range(lo, hi):
                for one, vals, log in ((sib, values, errs), (sib_y, values_y, errs_y)):
                    try:
                        one.fill(vals[i])
                    except Exception as exc:   # noqa
                        if rec["flow"][i].get("f", "none") == "none":
                            raise
                        log.append({"pos": i + 1, "exc": type(exc).__name__})

        def compute():
            computes.append(consume(sib.compute()))
            computes_y.append(consume(sib_y.compute()))

        fill(0, cut)
        compute()
        compute()
        if cut < len(values):
            fill(cut, len(values))
            compute()
        second = (computes_y, errs_y, av_y, values_y)
    if any(t.ids for t in template):
        problems.append("the analysis object given to the constructor is filled itself")
    if given_edges != edges or type(given_edges) is not type(edges):
        problems.append("SplitIntoBins changes the edges it was given")
    if av.var_context != var_before:
        problems.append("a consumer's write into a yielded context reaches the argument variable's var_context")
    # no two yielded contexts share a mutable object; none shares one with a flow value
    from ..util import reach_ids
    owners = [("flow value %d" % (i + 1), set(reach_ids(v[1]))) for i, v in enumerate(values)
              if isinstance(v, tuple) and len(v) == 2 and isinstance(v[1], dict)]
    owners.append(("the argument variable", set(reach_ids(av.var_context))))
    for c, comp in enumerate(computes):
        for k, (hist, snap, live) in enumerate(comp):
            if live is None:
                continue
            mine = set(reach_ids(live))
            for name, other in owners:
                if mine & other:
                    problems.append("the context of a yielded histogram shares a mutable object with %s"
                                    % ("another yielded context" if name.startswith("histogram") else name.rstrip(" 0123456789")))
                    break
            owners.append(("histogram %d.%d" % (c, k), mine))
    return computes, expected, av, edges, dim, values, problems, style, errs, second


def check_errs(rec, errs, worst, size, where):
    """fill() raises what the cell's private copy raises: for the failing values inside the edges, in
    order, with the exception of the analysis - and for no other value."""
    want = rec["errs"]
    if errs == want:
        return True
    base = {"scenario": bl.scen_text(rec), "where": where, "expected": want, "observed": errs}
    got_pos, want_pos = [e["pos"] for e in errs], [e["pos"] for e in want]
    if [p for p in want_pos if p not in got_pos]:
        kind = "a value inside the edges does not reach the caller as the exception of its cell's analysis (silently dropped)"
    elif [p for p in got_pos if p not in want_pos]:
        kind = "a value outside the edges reaches an analysis"
    else:
        kind = "fill() raises another exception than the analysis of the cell"
    worst.add(kind, size, base)
    return False


def check_run_raises(rec, variant, worst, size):
    """Sequence(SplitIntoBins).run on a flow with a value the cell's analysis cannot digest ends with that
    exception (nothing is caught on the way)."""
    import lena.core
    import lena.structures as ls
    dim = len(rec["edges"])
    edges = bl.in_form(bl.py_edges(rec["edges"], False), rec.get("form", "l"))
    av = bl.arg_var(1) if dim == 1 else bl.arg_var2(0)
    sib = ls.SplitIntoBins(bl.make_seq(rec["kind"], guard=bool(variant % 2)), av, edges)
    try:
        list(lena.core.Sequence(sib).run(iter(bl.make_values(rec["flow"], dim, False))))
        got = None
    except Exception as exc:   # noqa
        got = type(exc).__name__
    if got != rec["errs"][0]["exc"]:
        worst.add("a value inside the edges does not reach the caller as the exception of its cell's analysis (silently dropped)"
                  if got is None else "fill() raises another exception than the analysis of the cell", size,
                  {"scenario": bl.scen_text(rec), "where": "run", "expected": rec["errs"][0]["exc"], "observed": got})


def ctx_dict(c):
    """Harness context for a specification record [src, mut]."""
    d = {}
    if c["src"]:
        d["src"] = c["src"]
    if c["mut"]:
        d["mut"] = c["mut"]
    return d


def check_contexts(rec, exp, comp, av, worst, size, where):
    """Every histogram arrives with the last inside value's context as it arrived + variable of the
    argument variable - nothing an inner element or the consumer of an earlier histogram wrote.
    (hctx_any: whether a value on which the analysis raised counts as filled is left open.)"""
    base = {"scenario": bl.scen_text(rec), "where": where}
    ok = True
    want = dict(ctx_dict(exp["hctx"]), variable=av.var_context)
    allowed = [dict(ctx_dict(c), variable=av.var_context) for c in exp.get("hctx_any", [exp["hctx"]])]
    for k, (hist, snap, live) in enumerate(comp):
        if snap not in allowed:
            ok = False
            kind = ("context.variable does not describe the argument variable"
                    if (snap or {}).get("variable") != av.var_context else
                    "histogram context is not the last filled value's context + variable")
            worst.add(kind, size, dict(base, histogram=k, values_filled=exp["n"], expected=repr(want), observed=repr(snap)))
    return ok


def check_flow_contexts(rec, values, worst, size, where):
    """The flow values' own contexts hold nothing SplitIntoBins wrote."""
    base = {"scenario": bl.scen_text(rec), "where": where}
    ok = True
    for i, (v, c) in enumerate(zip(values, rec["vctx"])):
        if not (isinstance(v, tuple) and len(v) == 2 and isinstance(v[1], dict)):
            continue
        if dict(v[1]) != ctx_dict(c):
            ok = False
            worst.add("SplitIntoBins changes the context of a flow value", size,
                      dict(base, position=i + 1, expected=repr(ctx_dict(c)), observed=repr(dict(v[1]))))
    return ok


def check_hists(rec, exp, out, av, edges, dim, worst, size, where):
    import lena.structures as ls
    base = {"scenario": bl.scen_text(rec), "where": where}
    if len(out) != len(exp):
        worst.add("number of histograms", size, dict(base, expected=len(exp), observed=len(out)))
        return False
    ok = True
    for k, res in enumerate(out):
        hist, context = res if isinstance(res, tuple) and len(res) == 2 else (res, None)
        if not isinstance(hist, ls.histogram) or not isinstance(context, dict):
            worst.add("compute() does not yield (histogram, context)", size, dict(base, observed=repr(res)[:200]))
            return False
        if lists(hist.edges) != lists(edges):
            ok = False
            worst.add("histogram edges differ from the given edges", size, dict(base, observed=repr(hist.edges)))
        try:
            got = bl.md_map(bl.enc_result, hist.bins, dim)
        except Exception as exc:   # noqa
            worst.add("bins of another shape", size, dict(base, observed=repr(hist.bins)[:300], exception=repr(exc)))
            return False
        if got != exp[k]:
            ok = False
            ids_exp = bl.md_map(lambda r: r["ids"], exp[k], dim)
            ids_got = bl.md_map(lambda r: r["ids"], got, dim)
            if rec["kind"] == "seen":       # the last number is the count of the stateful element
                ids_exp, ids_got = bl.md_map(lambda i: i[:-1], ids_exp, dim), bl.md_map(lambda i: i[:-1], ids_got, dim)
            kind = "a cell holds other values" if (ids_exp != ids_got and rec["kind"] != "shift") else "cell results differ"
            if kind == "cell results differ" and rec["kind"] in bl.STATEFUL:
                kind = "state of a cell's analysis is not that of a private copy with the same history (shared between cells?)"
            worst.add(kind, size, dict(base, histogram=k, expected=exp[k], observed=got))
    return ok


def named_edges_str(cell_edges, var_context=None):
    """A create_edges_str of the caller's."""
    return "%s:%r" % ((var_context or {}).get("name"), cell_edges)


def check_iter(rec, out, out_y, avs, edges, dim, worst, size, style, variant):
    """ONE IterateBins element on the histograms the specification names (IterFlow): var "x" - of the
    SplitIntoBins under test, var "y" - of the second one; run 1, then the same element run again."""
    import lena.structures as ls
    if not out:
        return
    base = {"scenario": bl.scen_text(rec), "where": "IterateBins"}
    marker = ("not a histogram", {"m": 1})
    kw = {"select_bins": (lambda _: True)}
    if (dim == 2 and style != 0) or variant == 1:
        # one Variable for two coordinates has one name only: edges are rendered by the caller
        kw["create_edges_str"] = named_edges_str
        render = named_edges_str
    else:
        render = ls.cell_to_string
    try:
        element = ls.IterateBins(**kw)
    except Exception as exc:   # noqa
        worst.add("IterateBins raised %s" % type(exc).__name__, size, dict(base, exception=repr(exc)))
        return
    ncells = len(rec["iters"][0]["cells"])
    from ..util import reach_ids
    position = 0
    for run in sorted(set(f["run"] for f in rec["iters"])):
        entries = [f for f in rec["iters"] if f["run"] == run]
        hists = [copy.deepcopy((out if f["var"] == "x" else out_y)[f["k"] - 1]) for f in entries]
        pristine = [copy.deepcopy(h[1]) for h in hists]
        flow = ([5] if run == 1 else []) + hists + [marker]
        got, npulled = [], 0
        try:
            # the consumer of the specification: pull one cell, write into its context.bins (cells of the
            # first histogram), pull the next
            for x in element.run(iter(flow)):
                got.append(x)
                if isinstance(x, tuple) and len(x) == 2 and isinstance(x[1], dict) and isinstance(x[1].get("bins"), dict) \
                        and x is not marker:
                    npulled += 1
                    mine = pristine[min((npulled - 1) // max(ncells, 1), len(pristine) - 1)]
                    if x[1]["bins"] != mine:
                        worst.add("IterateBins: context.bins of a cell is not the histogram's context (a consumer's write "
                                  "into an earlier cell shows up)", size, dict(base, run=run, position=npulled, expected=repr(mine),
                                                                            observed=repr(x[1]["bins"])))
                    if run == 1 and npulled <= ncells:
                        x[1]["bins"]["touched"] = npulled
                        x[1]["bins"].setdefault("variable", {})["touched"] = npulled
        except Exception as exc:   # noqa
            worst.add("IterateBins raised %s" % type(exc).__name__, size, dict(base, run=run, exception=repr(exc)))
            return
        for (hist, context), before in zip(hists, pristine):
            if context != before:
                worst.add("IterateBins: a consumer's write into a cell's context.bins changes the histogram's context", size,
                          dict(base, run=run, expected=repr(before), observed=repr(context)))
        # no two yielded contexts share a mutable object, none shares one with a histogram's context
        owners = [("histogram context", set(reach_ids(h[1]))) for h in hists]
        for n, x in enumerate(got):
            if isinstance(x, tuple) and len(x) == 2 and isinstance(x[1], dict) and x is not marker:
                mine = set(reach_ids(x[1]))
                for name, other in owners:
                    if mine & other:
                        worst.add("IterateBins: two yielded contexts (or one and the histogram's) share a mutable object", size,
                                  dict(base, run=run, position=n, shares_with=name))
                        break
                owners.append(("cell %d" % n, mine))
        if run == 1:
            if not got or got[0] != 5:
                worst.add("IterateBins changes values that are not histograms", size, dict(base, observed=repr(got)[:300]))
                return
            got = got[1:]
        if not got or got[-1] is not marker:
            worst.add("IterateBins changes values that are not histograms", size, dict(base, observed=repr(got)[:300]))
            return
        allcells = got[:-1]
        if len(allcells) != ncells * len(entries):
            worst.add("IterateBins: number of cells", size, dict(base, run=run, expected=ncells * len(entries), observed=len(allcells)))
            return
        for h, f in enumerate(entries):
            position += 1
            where = dict(base, run=run, histogram="number %d of the SplitIntoBins by variable %s" % (f["k"], f["var"]),
                         place_in_flow=position)
            cells = allcells[h * ncells:(h + 1) * ncells]
            exp = f["cells"]
            content_of = rec["hists"][f["k"] - 1]
            var_context = avs[f["var"]].var_context
            # the order of enumeration is not fixed by the statement: cells are matched by their edges
            try:
                cells = sorted(cells, key=lambda c: lists(c[1]["bin"]["edges"]))
            except Exception as exc:   # noqa
                worst.add("IterateBins: malformed value", size, dict(where, observed=repr(cells)[:300], exception=repr(exc)))
                return
            for n, (c, e) in enumerate(zip(cells, exp)):
                try:
                    data, ctx = c
                    content = bl.enc_result(c)
                    cell_edges = lists(ctx["bin"]["edges"])
                    edges_str = ctx["bin"]["edges_str"]
                    own = render(ctx["bin"]["edges"], var_context=copy.deepcopy(var_context))
                except Exception as exc:   # noqa
                    worst.add("IterateBins: malformed value", size, dict(where, observed=repr(c)[:300], exception=repr(exc)))
                    return
                want = bl.md_get(content_of, [i - 1 for i in e["idx"]])
                if content != want:
                    worst.add("IterateBins: cell content or context of another cell", size,
                              dict(where, position=n, expected=want, observed=content))
                if cell_edges != e["bin"]["e"]:
                    worst.add("IterateBins: edges of another cell", size, dict(where, position=n, expected=e["bin"]["e"], observed=cell_edges))
                elif edges_str != own:
                    # bin.var of the specification: the description is in terms of the cell's own histogram's variable
                    worst.add("IterateBins: context.bin does not describe the cell in terms of its own histogram's variable", size,
                              dict(where, position=n, variable=e["bin"]["var"], expected=own, observed=edges_str))


def check_maps(rec, out, edges, dim, worst, size):
    import lena.structures as ls
    if not out:
        return
    for m in ("tag", "dup", "drop", "seen", "src"):
        exp = rec["maps"][m]
        for drop_ctx in (True, False):
            base = {"scenario": bl.scen_text(rec), "where": "MapBins(%s, drop_bins_context=%s)" % (m, drop_ctx)}
            hist, context = copy.deepcopy(out[0])
            try:
                got = list(ls.MapBins(bl.MAPS[m](), drop_bins_context=drop_ctx).run(iter([7, (hist, context)])))
            except Exception as exc:   # noqa
                worst.add("MapBins raised %s" % type(exc).__name__, size, dict(base, exception=repr(exc)))
                continue
            if not got or got[0] != 7:
                worst.add("MapBins changes values that are not histograms", size, dict(base, observed=repr(got)[:300]))
                continue
            got = got[1:]
            if len(got) != len(exp):
                worst.add("MapBins: number of histograms", size, dict(base, expected=len(exp), observed=len(got)))
                continue
            for k, res in enumerate(got):
                try:
                    new_hist, _ = res
                    if drop_ctx:
                        bins = bl.md_map(lambda d: {"t": d[0], "ids": list(d[1])}, new_hist.bins, dim)
                        want = bl.md_map(lambda r: {"t": r["t"], "ids": r["ids"]}, exp[k], dim)
                    else:
                        bins = bl.md_map(bl.enc_result, new_hist.bins, dim)
                        want = exp[k]
                except Exception as exc:   # noqa
                    worst.add("MapBins: histogram of another shape", size, dict(base, observed=repr(res)[:300], exception=repr(exc)))
                    break
                if lists(new_hist.edges) != lists(edges):
                    worst.add("MapBins: edges differ", size, dict(base, observed=repr(new_hist.edges)))
                if bins != want:
                    worst.add("MapBins: a cell is not the mapping of the corresponding cell", size,
                              dict(base, histogram=k, expected=want, observed=bins))


def replay(ctx, rec, n, worst):
    size = (len(rec["flow"]), len(core.canon(rec["edges"])), core.canon([rec["edges"], rec["flow"], rec["kind"], rec["cut"]]))
    if rec["form"] != "l":
        size = (size[0], size[1] + 1, size[2])          # witnesses with plain lists are preferred
    for variant in ((n % 2, 2 + n % 2) if n % 5 == 0 else (n % 4,) if n % 4 < 2 else (n % 2,)):
        if variant >= 2 and rec["errs"]:
            check_run_raises(rec, variant, worst, size)      # the run ends with the exception
            continue
        if variant >= 2 and rec["kind"] in bl.STATEFUL:
            variant = variant % 2       # the computes of the specification are those of one object used again
        where = "run" if variant >= 2 else "fill/compute"
        try:
            computes, expected, av, edges, dim, values, problems, style, errs, second = run_sib(rec, variant)
        except Exception as exc:   # noqa
            worst.add("raised %s" % type(exc).__name__, size, {"scenario": bl.scen_text(rec), "exception": repr(exc), "where": where})
            continue
        for p in problems:
            worst.add(p, size, {"scenario": bl.scen_text(rec), "where": where})
        ok = check_errs(rec, errs, worst, size, where)
        for c, (comp, exp) in enumerate(zip(computes, expected)):
            w = "%s, compute() number %d after %d values" % (where, c + 1, exp["n"])
            out = [(h, snap) for h, snap, _ in comp]
            ok = check_hists(rec, exp["hists"], out, av, edges, dim, worst, size, w) and ok
            ok = check_contexts(rec, exp, comp, av, worst, size, w) and ok
        ok = check_flow_contexts(rec, values, worst, size, where) and ok
        out = [(h, snap) for h, snap, _ in computes[-1]]
        out_y = None
        if second is not None:
            # the second SplitIntoBins (same analysis object, same edges object, another variable): the same
            computes_y, errs_y, av_y, values_y = second
            wy = "second SplitIntoBins built from the same analysis and edges objects"
            ok = check_errs(rec, errs_y, worst, size, wy) and ok
            for c, (comp, exp) in enumerate(zip(computes_y, expected)):
                w = "%s, compute() number %d after %d values" % (wy, c + 1, exp["n"])
                ok = check_hists(rec, exp["hists"], [(h, snap) for h, snap, _ in comp], av_y, edges, dim, worst, size, w) and ok
                ok = check_contexts(rec, exp, comp, av_y, worst, size, w) and ok
            ok = check_flow_contexts(rec, values_y, worst, size, wy) and ok
            out_y = [(h, snap) for h, snap, _ in computes_y[-1]]
        if ok and variant < 2:
            check_iter(rec, out, out_y, {"x": av, "y": av_y}, edges, dim, worst, size, style, variant)
            if n % 3 == 0 or len(rec["flow"]) <= 1:
                check_maps(rec, out, edges, dim, worst, size)
    ctx.case(["sib", rec["edges"], rec["form"], rec["flow"], rec["kind"], rec["cut"]], nontrivial=len(rec["flow"]) > 0)


# ------------------------------------------------------------------ second oracle: real analyses
def tag_inner(value):
    """An inner element that writes into the context of the value in place."""
    import lena.flow
    data, context = lena.flow.get_data_context(value)
    context["tagged_by_inner"] = data[0]
    return (data, context)


def real_analyses():
    """Inner analyses built from lena's own elements (fresh elements at every call); most of them have a
    pre-element that changes the context of the value in place."""
    import lena.context
    import lena.flow
    import lena.math
    import lena.output
    import lena.structures
    import lena.variables as lv
    num = lambda **kw: lv.Variable("pos", lambda data: data[0], **kw)
    return {
        "Count": lambda: (lena.flow.Count(),),
        "Variable+Sum": lambda: (num(), lena.math.Sum()),
        "Variable+Mean": lambda: (num(), lena.math.Mean()),
        "Variable+Histogram": lambda: (num(), lena.structures.Histogram([0, 2, 4, 9])),
        "typed Variable+Sum": lambda: (num(type="value", unit="m"), lena.math.Sum()),
        "callable writing into the context+Count": lambda: (tag_inner, lena.flow.Count()),
        "UpdateContext+Count": lambda: (lena.context.UpdateContext("inner.seen", "by_inner_element"), lena.flow.Count()),
        "MakeFilename+Count": lambda: (lena.output.MakeFilename("inner_{{src}}", dirname="cells"), lena.flow.Count()),
    }


def second_oracle(ctx, rec, worst):
    """Routing taken from the specification; per-cell results from a private copy of the real
    analysis run on the sub-flow; compared cell by cell with what SplitIntoBins yields."""
    import lena.core
    import lena.structures as ls
    dim = len(rec["edges"])
    edges = bl.in_form(bl.py_edges(rec["edges"], False), rec.get("form", "l"))
    cells = bl.cell_indices(rec["edges"])
    size = (len(rec["flow"]), len(core.canon(rec["edges"])), core.canon([rec["edges"], rec["flow"]]))
    for name, mk in sorted(real_analyses().items()):
        base = {"scenario": bl.scen_text(dict(rec, kind=name)), "where": "private copy of the real analysis"}
        av = bl.arg_var(1, typed=name.startswith("typed")) if dim == 1 else bl.arg_var2(0)
        values = bl.make_values(rec["flow"], dim, False)
        exp, exp_exc = {}, None
        for idx in cells:
            priv = lena.core.FillComputeSeq(*mk())
            for pos, v in enumerate(bl.make_values(rec["flow"], dim, False)):
                if tuple(c - 1 for c in rec["route"][pos]) == idx:
                    priv.fill(v)
            try:
                exp[idx] = list(priv.compute())
            except Exception as exc:   # noqa
                exp_exc = type(exc).__name__
        try:
            sib = ls.SplitIntoBins(lena.core.FillComputeSeq(*mk()), av, copy.deepcopy(edges))
            for v in values:
                sib.fill(v)
            out = list(sib.compute())
            again = list(sib.compute())          # the same object asked again
            got_exc = None
        except Exception as exc:   # noqa
            out, again, got_exc = [], [], type(exc).__name__
        ctx.case(["sib-real", rec["edges"], rec["flow"], name], nontrivial=len(rec["flow"]) > 0)
        if name.startswith("typed") and dim == 1:
            # values that already carry a typed context.variable: composing it with the argument variable
            # must not write into the argument variable's own var_context (compute() called twice)
            av2 = bl.arg_var(1, typed=True)
            before = copy.deepcopy(av2.var_context)
            try:
                sib2 = ls.SplitIntoBins(lena.core.FillComputeSeq(*mk()), av2, copy.deepcopy(edges))
                for v in bl.make_values(rec["flow"], dim, False):
                    if isinstance(v, tuple) and len(v) == 2 and isinstance(v[1], dict):
                        v[1]["variable"] = {"name": "up", "type": "value", "value": {"name": "up"}}
                    sib2.fill(v)
                list(sib2.compute())
                list(sib2.compute())
            except Exception as exc:   # noqa
                worst.add("raised %s" % type(exc).__name__, size, dict(base, where="flow values with a typed context.variable"))
            if av2.var_context != before:
                worst.add("SplitIntoBins writes into the var_context of its argument variable", size,
                          dict(base, expected=repr(before), observed=repr(av2.var_context)))
        if not got_exc and [c for _, c in again] != [c for _, c in out]:
            kind = ("context.variable does not describe the argument variable"
                    if any(c.get("variable") != av.var_context for _, c in again) else
                    "histogram context is not the last filled value's context + variable")
            worst.add(kind, size, dict(base, where="compute() called a second time", expected=repr([c for _, c in out][:1]),
                                       observed=repr([c for _, c in again][:1])))
        if exp_exc or got_exc:
            # a private copy that cannot compute (Mean of nothing): SplitIntoBins cannot either
            if exp_exc != got_exc:
                worst.add("real analysis: exception differs from the private copy", size,
                          dict(base, expected=exp_exc, observed=got_exc))
            continue
        nexp = min(len(r) for r in exp.values())
        if len(out) != nexp:
            worst.add("real analysis: number of histograms", size, dict(base, expected=nexp, observed=len(out)))
            continue
        # histogram context: the last inside value's context as it arrived + variable of the argument
        # variable - nothing the inner elements wrote (last is the specification's)
        arrived = {"src": rec["last"]} if (rec["last"] and rec["flow"][rec["last"] - 1]["h"]) else {}
        want = dict(arrived, variable=av.var_context)
        for k, (hist, context) in enumerate(out):
            if context != want:
                kind = ("context.variable does not describe the argument variable"
                        if context.get("variable") != av.var_context else
                        "histogram context is not the last filled value's context + variable")
                worst.add(kind, size, dict(base, histogram=k, expected=repr(want), observed=repr(context)))
        # SplitIntoBins itself writes nothing into the flow values (the argument variable's description
        # in particular stays out of them)
        for i, v in enumerate(values):
            if isinstance(v, tuple) and len(v) == 2 and isinstance(v[1], dict):
                vc = v[1]
                want_src = (i + 1) if rec["flow"][i]["h"] else None
                if vc.get("src") != want_src or (vc.get("variable") is not None and vc["variable"].get("name") in ("x", "xy")):
                    worst.add("SplitIntoBins changes the context of a flow value", size,
                              dict(base, position=i + 1, observed=repr(vc)))
        for k, (hist, context) in enumerate(out):
            for idx in cells:
                got = bl.md_get(hist.bins, idx)
                if got != exp[idx][k]:
                    worst.add("real analysis: a cell differs from the private copy on its sub-flow", size,
                              dict(base, cell=list(idx), expected=repr(exp[idx][k])[:300], observed=repr(got)[:300]))
        # cells that hold histograms are what IterateBins selects by default
        if name == "Variable+Histogram" and out and dim == 1:
            hist, context = copy.deepcopy(out[0])
            try:
                cellsout = list(ls.IterateBins().run(iter([(hist, context)])))
            except Exception as exc:   # noqa
                worst.add("IterateBins raised %s" % type(exc).__name__, size, dict(base, exception=repr(exc)))
                continue
            want = sorted(repr(exp[idx][0][0]) for idx in cells)
            if len(cellsout) != len(cells) or sorted(repr(c[0]) for c in cellsout) != want:
                worst.add("IterateBins: cell content or context of another cell", size,
                          dict(base, observed=repr(cellsout)[:300]))


# ------------------------------------------------------------------ C2S
def record_runs(ctx, rnd, n, worst):
    import lena.structures as ls
    trace = []
    while len(trace) < n:
        dim = 1 if rnd.random() < 0.55 else 2
        edges = []
        for _ in range(dim):
            k = rnd.randint(1, 6 if dim == 1 else 4)
            e, x = [], rnd.choice([-3.5, -1.0, 0.0, 0.1, 2.5])
            if rnd.random() < 0.3:
                # an equidistant mesh of lena.math.mesh: the step is in general not representable,
                # the inner edges are what mesh computed (values exactly on them belong to the cell above)
                import lena.math
                k = rnd.randint(2, 12 if dim == 1 else 4)
                e = [float(t) for t in lena.math.mesh((x, x + rnd.choice([1, 1.0, 0.7, 2, 3.3])), k)]
                edges.append(e)
                continue
            for _ in range(k + 1):
                e.append(x)
                x = x + rnd.choice([0.1, 0.2, 0.25, 1.0, 1.5, 3.0, 1e-9, 7.0])
            edges.append(e)
        coords = []
        for _ in range(rnd.randint(0, 12)):
            c = []
            for e in edges:
                t = rnd.random()
                if t < 0.35:
                    c.append(rnd.choice(e))                                   # exactly on an edge
                elif t < 0.5:
                    c.append(rnd.choice([e[0] - 0.5, e[-1] + 0.5, e[-1] + 1e-9, e[0] - 1e-9]))
                else:
                    j = rnd.randrange(len(e) - 1)
                    c.append(e[j] + (e[j + 1] - e[j]) * rnd.choice([0.5, 0.25, 0.999999, 1e-6]))
            coords.append(c)
        kind = rnd.choice(bl.KINDS)
        hs = [rnd.random() < 0.7 for _ in coords]
        ps = [h or rnd.random() < 0.4 for h in hs]          # some values are (data, {}) pairs
        # in some runs the analysis cannot digest some of the values
        excs = ("IndexError", "LenaIndexError", "KeyError", "TypeError", "ValueError")
        fs = [rnd.choice(excs) if rnd.random() < 0.25 else "none" for _ in coords] if rnd.random() < 0.3 else ["none"] * len(coords)
        redges, rcoords = bl.rank_abstract(edges, coords)
        form = rnd.choice(["l", "l", "t"] if dim == 1 else ["l", "l", "t", "lt", "tl"])
        rec = {"edges": redges, "form": form, "kind": kind,
               "flow": [{"x": c, "h": h, "p": p, "f": f} for c, h, p, f in zip(rcoords, hs, ps, fs)]}
        real_edges = bl.in_form(edges[0] if dim == 1 else edges, form)
        av = bl.arg_var(1) if dim == 1 else bl.arg_var2(0)
        def mkvalues():
            vals = []
            for i, (c, h, p, f) in enumerate(zip(coords, hs, ps, fs)):
                data = (i + 1, c[0] if dim == 1 else tuple(c)) + (() if f == "none" else (f,))
                vals.append((data, {"src": i + 1}) if h else ((data, {}) if p else data))
            return vals
        values = mkvalues()
        try:
            sib = ls.SplitIntoBins(bl.make_seq(kind, guard=rnd.random() < 0.5), av, copy.deepcopy(real_edges))
            rec["errs"] = []
            for i, v in enumerate(values):
                try:
                    sib.fill(v)
                except Exception as exc:   # noqa
                    if fs[i] == "none":
                        raise
                    rec["errs"].append({"pos": i + 1, "exc": type(exc).__name__})     # what the caller of fill() gets
            out = list(sib.compute())
            rec["hists"] = [bl.md_map(bl.enc_result, h.bins, dim) for h, _ in out]
            hc = out[0][1] if out else {}
            rec["hctx"] = {"src": hc.get("src", 0), "mut": hc.get("mut", 0)}
            rec["vctx"] = [{"src": v[1].get("src", 0), "mut": v[1].get("mut", 0)} if p else {"src": 0, "mut": 0}
                           for v, p in zip(values, ps)]
            if out and hc.get("variable") != av.var_context:
                raise ValueError("context.variable %r" % (hc.get("variable"),))
            rec["iter"] = []
            if out:
                maps = [{x: i for i, x in enumerate(sorted(set(list(e) + [c[d] for c in coords])))}
                        for d, e in enumerate(edges)]
                cells = list(ls.IterateBins(select_bins=lambda _: True).run(iter([copy.deepcopy(out[0])])))
                rec["iter"] = sorted([[maps[d][lo], maps[d][hi]] for d, (lo, hi) in enumerate(c[1]["bin"]["edges"])]
                                     for c in cells)       # order of enumeration not fixed by the statement
            # one IterateBins element over this histogram and one of a second SplitIntoBins that splits by
            # another variable over the same edges: which variable does context.bin of every cell name?
            rec["has2"], rec["iter2"] = bool(out) and rnd.random() < 0.4, []
            if rec["has2"]:
                av_y = bl.arg_var_y(dim, 0)
                sib_y = ls.SplitIntoBins(bl.make_seq(kind, guard=True), av_y, copy.deepcopy(real_edges))
                for i, v in enumerate(mkvalues()):
                    try:
                        sib_y.fill(v)
                    except Exception:   # noqa
                        if fs[i] == "none":
                            raise
                out_y = list(sib_y.compute())
                element = ls.IterateBins(create_edges_str=named_edges_str, select_bins=lambda _: True)
                cells = list(element.run(iter([copy.deepcopy(out[0]), copy.deepcopy(out_y[0])])))
                names = {av.var_context["name"]: "x", av_y.var_context["name"]: "y"}
                named = [{"var": names.get(c[1]["bin"]["edges_str"].split(":")[0], "?"),
                          "e": [[maps[d][lo], maps[d][hi]] for d, (lo, hi) in enumerate(c[1]["bin"]["edges"])]} for c in cells]
                half = len(named) // 2
                rec["iter2"] = sorted(named[:half], key=lambda c: c["e"]) + sorted(named[half:], key=lambda c: c["e"])
            # NESTING: the analysis of every cell is itself SplitIntoBins (by "y", same edges) + IterateBins, so the
            # cells the outer IterateBins is given already carry context.bin / context.bins: the chain of
            # descriptions (outermost first) every yielded cell has under context.bin.bin... / context.bins.bins...
            ncell = 1
            for e in edges:
                ncell *= len(e) - 1
            rec["hasn"], rec["nest"] = bool(out) and ncell <= 9 and rnd.random() < 0.35, []
            if rec["hasn"]:
                import lena.core
                av_y = bl.arg_var_y(dim, 0)
                names = {av.var_context["name"]: "x", av_y.var_context["name"]: "y"}
                # (postdup yields one context object twice: the inner IterateBins, which writes into the contexts
                # of its input, would describe that shared object twice - an aliasing of the harness's element)
                nkind = "collect2" if kind == "postdup" else kind
                mk_iter = lambda: ls.IterateBins(create_edges_str=named_edges_str, select_bins=lambda _: True)
                inner = lena.core.FillComputeSeq(
                    ls.SplitIntoBins(bl.make_seq(nkind, guard=True), av_y, copy.deepcopy(real_edges)), mk_iter())
                outer = ls.SplitIntoBins(inner, av, copy.deepcopy(real_edges))
                for i, v in enumerate(mkvalues()):
                    try:
                        outer.fill(v)
                    except Exception:   # noqa
                        if fs[i] == "none":
                            raise
                chains = []
                for c in mk_iter().run(iter(list(outer.compute()))):
                    b, bs, chain, vchain = c[1].get("bin"), c[1].get("bins"), [], []
                    while isinstance(b, dict):
                        chain.append({"var": names.get(str(b.get("edges_str")).split(":")[0], "?"),
                                      "e": [[maps[d][lo], maps[d][hi]] for d, (lo, hi) in enumerate(b["edges"])]})
                        b = b.get("bin")
                    while isinstance(bs, dict):
                        vchain.append(names.get(bs.get("variable", {}).get("name"), "?"))
                        bs = bs.get("bins")
                    item = {"bin": chain, "bins": vchain}
                    if item not in chains:
                        chains.append(item)
                rec["nest"] = chains
        except Exception as exc:   # noqa
            size = (10 ** 6 + len(coords), 0, core.canon(rec))
            worst.add("raised %s" % type(exc).__name__, size, {"scenario": bl.scen_text(rec), "exception": repr(exc),
                                                              "real_edges": repr(real_edges), "where": "random real-valued edges"})
            n -= 1
            continue
        rec["real"] = {"edges": repr(real_edges), "coords": repr(coords)}
        trace.append(rec)
    return trace


def report(ctx, worst):
    for kind, (size, d) in sorted(worst.best.items()):
        ctx.violation("SplitIntoBins:%s:%s" % (kind, d["scenario"]), dict(d, cases_of_this_kind=worst.count[kind]))


def corrupt(r):
    for k, h in enumerate(r["hists"]):
        flat = h if len(r["edges"]) == 1 else [c for row in h for c in row]
        if len(flat) >= 2 and flat[0]["ids"]:
            r2 = copy.deepcopy(r)
            f2 = r2["hists"][k] if len(r["edges"]) == 1 else [c for row in r2["hists"][k] for c in row]
            f2[1]["ids"] = f2[1]["ids"] + [f2[0]["ids"].pop()]        # a value moves to the next cell
            return r2
    return None


def make_demo(recs):
    """Records for the binding demonstration, taken from behaviours of the specification itself."""
    demo = []
    for r in reversed(recs[-5000:]):
        d = {"edges": r["edges"], "form": r["form"], "kind": r["kind"], "flow": r["flow"], "hists": r["hists"],
             "iter": [c["e"] for c in r["iter"]], "hctx": r["hctx"], "vctx": r["vctx"], "errs": r["errs"],
             "hasn": False, "nest": [], "has2": bool(r["iters"]), "iter2": [{"var": f["var"], "e": c["bin"]["e"]} for f in r["iters"][:2] for c in f["cells"]]}
        if r["kind"] in bl.STATEFUL:
            continue            # (the last compute() of the specification's object is not its first)
        if corrupt(d) is not None:          # a record in which a value can be moved to the next cell
            demo.append(d)
            if len(demo) == 40:
                break
    return demo


def run(ctx):
    tag = "thorough" if ctx.thorough else "quick"
    rnd = random.Random(ctx.seed)
    ctx.assume("inner analyses are the harness's tagged accumulators with pre/post elements (binslib.KINDS) and, for the "
               "second oracle, lena's Count/Sum/Mean/Histogram behind a Variable; values are (position, coordinate) "
               "pairs; edges and coordinates enter the specification as ranks (only comparisons are used)")
    ctx.assume("2-dimensional argument variables are a Combine of two variables, or one Variable returning a pair "
               "with the caller supplying create_edges_str to IterateBins (one name cannot label two coordinates)")
    # the model-checking run and the export run are independent: side by side; the replay of the exported
    # behaviours starts as soon as they are there (the model-checking result is collected below)
    pool = concurrent.futures.ThreadPoolExecutor(max_workers=2)
    f_mc = pool.submit(ctx.mc, "SplitIntoBins", "SplitIntoBins_%s.cfg" % tag, coverage=True, must_cover=ACTIONS)
    f_ex = pool.submit(ctx.export, "SplitIntoBins", "SplitIntoBins_%s_export.cfg" % tag, min_records=1000)
    try:
        recs = f_ex.result()
    except Exception:
        f_mc.result()          # (a broken specification: the model checker's message says more)
        raise
    worst = bl.Worst()
    seen = set()
    for n, rec in enumerate(recs):
        replay(ctx, rec, n, worst)
        key = core.canon([rec["edges"], rec["form"], rec["flow"]])
        if key not in seen and n % (2 if ctx.thorough else 3) == 0 and not has_failing(rec):
            seen.add(key)
            second_oracle(ctx, rec, worst)
    ctx.sample({"spec_behaviour": recs[len(recs) // 2]})
    ctx.sample({"spec_behaviour": recs[-1]})
    f_mc.result()              # TLC has checked the properties on every behaviour replayed above
    pool.shutdown()
    trace = record_runs(ctx, rnd, 4000 if ctx.thorough else 1200, worst)
    clean = [{k: v for k, v in r.items() if k != "real"} for r in trace]
    demo_pool = concurrent.futures.ThreadPoolExecutor(max_workers=1)
    f_demo = demo_pool.submit(ctx.binding_demo, "Trace_SplitIntoBins", "Trace_SplitIntoBins.cfg", make_demo(recs), corrupt, 80)
    acc = ctx.validate("Trace_SplitIntoBins", "Trace_SplitIntoBins.cfg", clean)
    ctx.traces += acc
    ctx.evaluations += len(clean)
    for r in clean[:acc]:
        ctx.distinct.add(core.canon(r))
    if acc < len(clean):
        r = trace[acc]
        # (label only: the verdict is Trace_SplitIntoBins's)
        nested = r.get("hasn") and any(len(c["bin"]) != 2 or c["bins"] != ["x", "y"] for c in r["nest"])
        worst.add("recorded run rejected" + (" (nested split: chains under context.bin / context.bins of the cells IterateBins yields)"
                                             if nested else ""), (10 ** 6 + len(r["flow"]), 0, core.canon(clean[acc])),
                  {"scenario": bl.scen_text(r), "real": r["real"], "observed_histograms": r["hists"],
                   "observed_iter": r["iter"], "observed_nested_iter": r.get("nest"), "where": "Trace_SplitIntoBins", "index": acc})
    ctx.sample({"recorded_trace_record": trace[min(1, len(trace) - 1)]})
    report(ctx, worst)

    f_demo.result()
    demo_pool.shutdown()
    return ctx.finish(
        rule="S2C: every scenario of the bounded model (1-d edges with 1-3 cells, 2-d 2x2 / 2x1 / 1x3, written as lists or "
             "tuples at either level; flows with "
             "coordinates below, on every edge, inside every cell and above, with values the cell's analysis raises on; "
             "ten inner analyses, two of them changed by their own compute()) on the real "
             "SplitIntoBins (fill/compute and run; a second one built from the same analysis and edges objects with another "
             "variable next to it), one IterateBins element over histograms of both and run twice, and MapBins; second oracle: lena's own accumulators "
             "against a private copy on the sub-flows routed by the specification; non-trivial = flow not empty; "
             "C2S: seeded random real-valued edges and flows (rank-abstracted) validated by Trace_SplitIntoBins",
        exhaustive=True)
