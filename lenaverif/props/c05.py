"""C05  An analysis gives the same result whether it is driven by run or by fill; adapters accept
and bind as documented.

spec/FillSem.tla       accumulators, ChainSem (declarative, from FlowSem.Sem), fill side of the pre elements
spec/FillSeq.tla       three driver machines over one chain (Sequence.run | FillComputeSeq/FillSeq filled value by
                       value | Split branch with any bufsize); DriversAgree, FillReaches, StopSound, ComputeOnce
spec/AdapterTable.tla  decision tables of Call, SourceEl, Run, FillInto, FillCompute (cascade of the code and the
                       documented Usable/Precedence form), expected effect of a probe
spec/Adapters.tla      machine Construct / Invoke over all capability records; AsDocumented, NamedNeverCasts, ...
spec/Trace_FillSeq.tla, Trace_Adapters.tla   validation of recorded behaviour beyond the bounds

Round 7: values carry the content of context.variable (typed Variables, Compose; results observed as yielded and at
the end); elements with conflicting interfaces behind explicit adapters (Call(..), FillCompute(..)) whose binding by
each driver is derived from AdapterTable.Exposed; adapter objects wrapped into a second adapter (Wrap / InvokeOuter).
Variants rejected by TLC: FillSeq_forward.cfg, FillSeq_perflow.cfg, Adapters_forward.cfg.
"""
import random

from .. import core
from .. import filledge as fe
from .. import filllib as fl
from .. import flowlib
from ..util import exc_name

NONE = fl.NONE


class Minimal(object):
    """Smallest failing scenario per signature."""

    def __init__(self, ctx):
        self.ctx = ctx
        self.fails = {}

    def fail(self, sig, size, key_tail, detail):
        if sig not in self.fails or size < self.fails[sig][0]:
            self.fails[sig] = (size, key_tail, detail)

    def merge(self, fails):
        for sig, v in fails.items():
            if sig not in self.fails or v[0] < self.fails[sig][0]:
                self.fails[sig] = v

    def report(self):
        for sig, (size, tail, detail) in sorted(self.fails.items()):
            self.ctx.violation("%s:%s" % (sig, tail), detail)


# wall-clock backstop for one scenario (a scenario is milliseconds of work): generous enough for a machine that is
# shared with dozens of other checks (a 20 s limit fired on N = 0 chains under a load average of 270 on 16 cores)
WATCHDOG = 300.0


def outcome(fn, project):
    """Results of fn() projected, or "raised <class>", or "nonterminating" (generous wall-clock watchdog)."""
    st, val = fl.timed(lambda: [project(v) for v in fn()], wall=WATCHDOG)
    if st == "ok":
        return val
    if st == "hang":
        return "nonterminating"
    return "raised " + exc_name(val)


def bufsizes(n_values):
    return list(range(1, n_values + 2)) + [1000, NONE]


def bs_str(bs):
    return "None" if bs == NONE else str(bs)


# ------------------------------------------------------------------ chains
def driver_list(n_values, k, reduced=False):
    """(driver, bufsize, branch form, copy_buf, place among sibling branches).

    reduced: flows of pairs with equal contexts lie between bare data and differing contexts, which get the full
    list; they are run through every driver but with two bufsizes only."""
    ds = [("run", None, "tuple", True, "alone"), ("fill_compute_seq", None, "tuple", True, "alone"),
          ("fill_seq", None, "tuple", True, "alone"), ("persist", None, "tuple", True, "alone")]
    sizes = bufsizes(n_values)
    if reduced:
        sizes = [sizes[k % len(sizes)], sizes[(k + 2) % len(sizes)]]
    for j, bs in enumerate(sizes):
        # every bufsize: between two fill chains that stop (LenaStopFill) before the flow ends
        ds.append(("split", bs, "tuple", True, "afterstop"))
        # as the only branch: every third bufsize as a tuple, every third as a FillComputeSeq without copying
        if (j + k) % 3 == 0:
            ds.append(("split", bs, "tuple", True, "alone"))
        if (j + k) % 3 == 1:
            ds.append(("split", bs, "fcseq", False, "alone"))
    # the chain as one branch among others (a context-changing branch before it, an ordinary one after it)
    for j, place in enumerate(("middle", "first", "last")):
        ds.append(("split", sizes[(k + j) % len(sizes)], "tuple" if (k + j) % 2 else "fcseq", True, place))
    return ds


def replay_chain(ctx, mini, rec, k):
    ch, n_values, pairs = rec["ch"], rec["N"], rec["fk"]
    exp = [fl.norm_spec_val3(v) for v in rec["out"]]
    size = (len(ch["pre"]) + len(ch["post"]), n_values, fl.chain_key(ch))
    tail = "%s:N=%d:%s" % (fl.chain_key(ch), n_values, pairs)
    drivers = driver_list(n_values, k, reduced=(pairs == "pairs"))
    if not ch["pre"] and not ch["post"]:
        drivers.append(("split", bufsizes(n_values)[k % (n_values + 3)], "bare", True, "alone"))
    for drv, bs, form, copy_buf, place in drivers:
        snap = []         # every result as it was when it was yielded; out: the results after the driver has finished
        out = outcome(lambda: fl.drive_chain(ch, n_values, pairs, drv, bs, copy_buf=copy_buf, form=form, place=place,
                                             variant=k, snap=snap), fl.project3)
        ctx.case(["chain", drv, bs, form, place, ch, n_values, pairs], nontrivial=n_values > 0)
        name = drv if place == "alone" else "split-with-siblings"
        where = tail + (":bufsize=" + bs_str(bs) if drv == "split" else "") + (":" + place if place != "alone" else "")
        if out != exp:
            kind = out if isinstance(out, str) else "results"
            mini.fail("chain:%s:%s" % (name, kind.replace(" ", ":")), size, where,
                      {"chain": ch, "N": n_values, "flow": pairs, "driver": drv, "bufsize": bs, "form": form,
                       "place": place, "expected": exp, "observed": out})
        elif snap != exp:
            # a result that was right when it was yielded and changed afterwards (or the reverse): values share state
            mini.fail("chain:%s:changed-after-yield" % name, size, where,
                      {"chain": ch, "N": n_values, "flow": pairs, "driver": drv, "bufsize": bs, "form": form,
                       "place": place, "expected": exp, "as_yielded": snap, "at_the_end": out})
    # chains that do not look at the data: the flow values are None, 0, "", {}, [], False, (0, {}), 0.0, ()
    if pairs == "bare" and ch["acc"] in ("store1", "last", "cnt") and \
            all(st["t"] in ("slice", "cfilter") for st in ch["pre"] + ch["post"]):
        want = [repr(x["d"] if ch["acc"] == "cnt" else fl.nothing(x["d"])) for x in rec["out"]]
        for drv, bs in (("run", None), ("fill_compute_seq", None), ("split", bufsizes(n_values)[k % (n_values + 3)])):
            got = outcome(lambda: fl.drive_chain(ch, n_values, pairs, drv, bs, place="afterstop" if drv == "split" else "alone",
                                                 values=fl.nothing), repr)
            ctx.case(["chain-falsy-values", drv, bs, ch, n_values], nontrivial=n_values > 0)
            if got != want:
                mini.fail("chain:falsy-values:%s" % drv, size, tail, {"chain": ch, "N": n_values, "expected": want,
                                                                      "observed": got})
    # what reaches the accumulator
    acc = fl.RecAcc(fl.build_acc(ch["acc"]))
    out = outcome(lambda: fl.drive_chain(ch, n_values, pairs, "fill_compute_seq", acc=acc), fl.project3)
    reached = [fl.project3(v) for v in acc.reached]
    exp_reach = [fl.norm_spec_val3(v) for v in rec["reach"]]
    ctx.case(["reach", ch, n_values, pairs], nontrivial=n_values > 0)
    if reached != exp_reach:
        mini.fail("chain:reach", size, tail, {"chain": ch, "N": n_values, "flow": pairs, "expected": exp_reach,
                                               "observed": reached})


def extra_accumulators():
    import lena.flow
    import lena.math
    import lena.structures
    return [("Mean", lambda: lena.math.Mean()),
            ("StoreFilled", lambda: lena.flow.StoreFilled()),
            ("DSum", lambda: lena.math.DSum()),
            ("VarianceMeanCount", lambda: lena.math.VarianceMeanCount()),
            ("Histogram", lambda: lena.structures.Histogram([0, 2, 4, 8, 40]))]


def same(a, b):
    try:
        if a == b:
            return True
    except Exception:   # noqa
        pass
    return repr(a) == repr(b)


def replay_extra(ctx, mini, rec, k):
    """Framework accumulators the spec does not model: the oracle is the accumulator itself filled with the
    values the spec says reach it (checked on the recording proxy first)."""
    ch, n_values, pairs = rec["ch"], rec["N"], rec["fk"]
    if ch["post"] or ch["acc"] != "store1":
        return
    if any(st["t"] == "nmap" for st in ch["pre"]):
        return        # the numeric accumulators cannot be filled with None / mixed values
    name, make = extra_accumulators()[k % 5]
    size = (len(ch["pre"]), n_values, fl.chain_key(ch))
    tail = "%s:%s:N=%d:%s" % (name, fl.chain_key(ch), n_values, pairs)
    proxy = fl.RecAcc(make())
    outcome(lambda: fl.drive_chain(ch, n_values, pairs, "fill_compute_seq", acc=proxy), lambda v: v)
    if [fl.project3(v) for v in proxy.reached] != [fl.norm_spec_val3(v) for v in rec["reach"]]:
        mini.fail("extra:reach", size, tail, {"chain": ch, "N": n_values, "pairs": pairs})
        return

    def direct():
        a = make()
        for v in proxy.reached:
            a.fill(v)
        return list(a.compute())
    exp = outcome(direct, lambda v: v)
    for drv, bs, form, copy_buf, place in driver_list(n_values, k):
        out = outcome(lambda: fl.drive_chain(ch, n_values, pairs, drv, bs, acc=make(), copy_buf=copy_buf, form=form,
                                             place=place), lambda v: v)
        ctx.case(["extra", name, drv, bs, form, place, ch, n_values, pairs], nontrivial=n_values > 0)
        ok = (out == exp) if isinstance(out, str) or isinstance(exp, str) else \
            (len(out) == len(exp) and all(same(x, y) for x, y in zip(out, exp)))
        if not ok:
            mini.fail("extra:%s:%s" % (name, drv if place == "alone" else "split-with-siblings"), size,
                      tail + (":bufsize=" + bs_str(bs) if drv == "split" else "") + (":" + place if place != "alone" else ""),
                      {"chain": ch, "N": n_values, "pairs": pairs, "driver": drv, "bufsize": bs,
                       "expected": repr(exp), "observed": repr(out)})


# ------------------------------------------------------------------ adapters
def function_probe(log):
    def function(flow):
        vals = tuple(flow)
        log.append(("function", vals))
        return [("function", vals)]
    return function


def construct(adapter, el, arg, function=None):
    import lena.core
    cls = getattr(lena.core, adapter)
    return cls(el, **fl.adapter_kwargs(adapter, arg, function))


def replay_adapter(ctx, mini, rec):
    import lena.core
    adapter, caps, arg, res = rec["adapter"], rec["caps"], rec["arg"], rec["res"]
    sig = fl.caps_sig(caps)
    size = (len(sig.split("+")), sig)
    base = "adapter:%s:%s" % (adapter, arg)
    el = fl.make_synthetic(caps)
    flog = []
    ctx.case(["adapter", adapter, arg, caps])
    try:
        obj = construct(adapter, None if arg == "none" else el, arg, function_probe(flog))
    except lena.core.LenaTypeError:
        if res["ok"]:
            mini.fail(base + ":rejected", size, sig, {"caps": caps, "expected": res})
        return
    except Exception as exc:   # noqa
        mini.fail(base + ":raised:" + exc_name(exc), size, sig, {"caps": caps, "exception": repr(exc)})
        return
    if not res["ok"]:
        mini.fail(base + ":accepted", size, sig, {"caps": caps})
        return
    log = flog if arg == "none" else el.log
    check_probes(mini, base, size, sig, caps, res, adapter, obj, log, rec)


def check_probes(mini, base, size, sig, caps, res, adapter, obj, log, rec):
    """The adapter object obj (of kind adapter) probed twice: calls that reach the element, returns, fills."""
    try:
        ret, sink = fl.probe_adapter(adapter, obj)
        log1 = list(log)
    except Exception as exc:   # noqa
        mini.fail(base + ":probe-raised:" + exc_name(exc), size, sig, {"caps": caps, "bind": res, "exception": repr(exc)})
        return
    exp_log, exp_sink, exp_ret = fl.spec_tokens(rec["log"]), fl.spec_tokens(rec["sink"]), fl.spec_tokens(rec["ret"])
    h, hs = len(exp_log) // 2, len(exp_sink) // 2       # the spec uses the adapter twice
    for what, got, exp in (("calls", log1, exp_log[:h]), ("returns", ret, exp_ret), ("fills", sink, exp_sink[:hs])):
        if got != exp:
            mini.fail(base + ":" + what, size, sig, {"caps": caps, "bind": res, "expected": exp, "observed": got})
            return
    # the same adapter object used again
    try:
        ret2, sink2 = fl.probe_adapter(adapter, obj)
    except Exception as exc:   # noqa
        mini.fail(base + ":second-use-raised:" + exc_name(exc), size, sig, {"caps": caps, "bind": res, "exception": repr(exc)})
        return
    for what, got, exp in (("calls", list(log), exp_log), ("returns", ret2, exp_ret), ("fills", sink + sink2, exp_sink)):
        if got != exp:
            mini.fail(base + ":second-use:" + what, size, sig, {"caps": caps, "bind": res, "expected": exp, "observed": got})
            return


def replay_nested(ctx, mini, rec):
    """An adapter object used as an element: what it exposes, and a second adapter around it."""
    import lena.core
    adapter, caps, arg, outer, res2 = rec["adapter"], rec["caps"], rec["arg"], rec["outer"], rec["res2"]
    sig = fl.caps_sig(caps)
    size = (len(sig.split("+")), sig)
    el = fl.make_synthetic(caps)
    ctx.case(["nested-adapter", outer, adapter, arg, caps])
    try:
        inner = construct(adapter, el, arg)
    except Exception:   # noqa
        return           # reported by replay_adapter
    shown = fl.real_caps(inner)
    if shown != rec["shown"]:
        # one signature per adapter kind: the smallest element on which the adapter object shows more (or less) than
        # its interface, and what it shows
        diff = "+".join(k for k in fl.METHODS + ("call", "iter", "cbf", "truth") if shown.get(k) != rec["shown"].get(k))
        mini.fail("adapter:%s:exposes" % adapter, size + (arg,), "%s:%s:around:%s" % (diff, arg, sig),
                  {"caps": caps, "arg": arg, "expected": rec["shown"], "observed": shown})
    base = "adapter:%s(%s:%s)" % (outer, adapter, arg)
    try:
        obj = construct(outer, inner, "default")
    except lena.core.LenaTypeError:
        if res2["ok"]:
            mini.fail(base + ":rejected", size, sig, {"caps": caps, "expected": res2})
        return
    except Exception as exc:   # noqa
        mini.fail(base + ":raised:" + exc_name(exc), size, sig, {"caps": caps, "exception": repr(exc)})
        return
    if not res2["ok"]:
        mini.fail(base + ":accepted", size, sig, {"caps": caps})
        return
    check_probes(mini, base, size, sig, caps, {"inner": rec["res"], "outer": res2}, outer, obj, el.log, rec)


def plus1(v):
    return v + 1


def pair1(v):
    return (v, 1)


def yes(v):
    return True


def blank(v):
    return ""


def materialise(x):
    """Results that are iterators are compared by what they yield."""
    if hasattr(x, "__next__") or hasattr(x, "next"):
        try:
            return ["iterator"] + [materialise(y) for y in x]
        except Exception as exc:   # noqa
            return "iterator raised " + exc_name(exc)
    if isinstance(x, list):
        return [materialise(y) for y in x]
    return x


def real_kinds():
    import lena.core
    import lena.flow
    import lena.math
    import lena.variables

    class WithCall(object):
        def __call__(self, v):
            return ("called", v)

    class CustomNames(object):
        def m(self, *args):
            return [("m", len(args))]

        def fill(self, v):
            pass

    class WithCallAndRunAttr(WithCall):
        run = "2023A"

    class OnlyRunAttr(object):
        run = "2023A"

    class FalsyWithMethods(object):
        """Every method, truth value False."""
        def __len__(self):
            return 0

        def run(self, flow):
            return [("run", tuple(flow))]

        def fill(self, v):
            self.v = v

        def compute(self):
            return [("compute", getattr(self, "v", None))]

        def m(self, *args):
            return [("m", len(args))]

        def __call__(self, *args):
            return ("called", args)

    class EmptyListWithRun(list):
        def run(self, flow):
            return [("run", tuple(flow))]

    class BoolFalse(WithCall):
        def __bool__(self):
            return False

    def gen():
        yield 1
        yield 2
    return [("function", lambda: pair1), ("builtin-abs", lambda: abs), ("builtin-len", lambda: len),
            ("type-int", lambda: int), ("callable-object", WithCall), ("custom-names", CustomNames),
            ("None", lambda: None), ("int", lambda: 5), ("str", lambda: "ab"), ("list", lambda: [1, 2]),
            ("range", lambda: range(3)), ("tuple", lambda: (1, 2)),
            ("Variable-with-run-attribute", lambda: lena.variables.Variable("x", plus1, run="2023A")),
            ("Variable-with-fill-attribute", lambda: lena.variables.Variable("x", plus1, fill="2023A", compute=3)),
            ("callable-with-run-attribute", WithCallAndRunAttr), ("Sum-with-run-attribute", fl.sum_with_run_attribute),
            ("only-run-attribute", OnlyRunAttr),
            ("falsy-with-methods", FalsyWithMethods), ("empty-list-with-run", EmptyListWithRun),
            ("callable-bool-false", BoolFalse), ("empty-Sequence", lambda: lena.core.Sequence()), ("iterator", lambda: iter([1, 2])), ("generator", gen), ("dict", lambda: {"a": 1}),
            ("object", object),
            ("Sum", lena.math.Sum), ("Mean", lena.math.Mean), ("StoreFilled", lena.flow.StoreFilled),
            ("Count", lena.flow.Count), ("Slice", lambda: lena.flow.Slice(1)),
            ("Filter", lambda: lena.flow.Filter(yes)),
            ("RunIf", lambda: lena.flow.RunIf(yes, plus1)),
            ("Variable", lambda: lena.variables.Variable("x", plus1)),
            ("Sequence", lambda: lena.core.Sequence(plus1)),
            ("Source", lambda: lena.core.Source(lena.flow.CountFrom(0), lena.flow.Slice(2))),
            ("FillComputeSeq", lambda: lena.core.FillComputeSeq(lena.math.Sum())),
            ("FillRequest", lambda: lena.core.FillRequest(lena.math.Sum(), reset=True, buffer_input=True)),
            ("Run-adapter", lambda: lena.core.Run(plus1)), ("Call-adapter", lambda: lena.core.Call(plus1)),
            ("End", lena.flow.End), ("Print", lambda: lena.flow.Print(transform=blank))]


def direct(adapter, bind, res, el):
    """What the documentation says the adapter does, performed directly on the element."""

    def meth(b):
        return getattr(el, b.split(":", 1)[1])
    if adapter == "Call":
        return (el if bind == "call" else meth(bind))(7)
    if adapter == "SourceEl":
        return list(iter(el)) if bind == "iter" else list((el if bind == "call" else meth(bind))())
    if adapter == "Run":
        if bind == "call_per_value":
            return [el(7), el(8)]
        if bind == "fill_then_compute":
            el.fill(7)
            el.fill(8)
            return list(el.compute())
        return list(meth(bind)(iter([7, 8])))
    if adapter == "FillCompute":
        getattr(el, res["f"])(7)
        return list(getattr(el, res["c"])())
    if adapter == "FillInto":
        sink = fl.Sink()
        if bind == "fill_call":
            sink.fill(el(7))
        elif bind == "fill_run":
            for r in el.run([7]):
                sink.fill(r)
        else:
            meth(bind)(sink, 7)
        return sink.filled
    raise ValueError(adapter)


def via_adapter(adapter, obj):
    if adapter == "Call":
        return obj(7)
    if adapter == "SourceEl":
        return list(obj())
    if adapter == "Run":
        return list(obj.run(iter([7, 8])))
    if adapter == "FillCompute":
        obj.fill(7)
        return list(obj.compute())
    sink = fl.Sink()
    obj.fill_into(sink, 7)
    return sink.filled


def record_real_kinds(ctx, mini, table):
    """Adapters around real objects; capability record by introspection; decision looked up in the exported table."""
    import lena.core
    trace = []
    args = {"Call": ["default", "name:m", "name:run"], "SourceEl": ["default", "name:m", "name:run"],
            "Run": ["default", "name:m", "name:fill"], "FillInto": ["default", "name:m", "name:fill"],
            "FillCompute": ["default", "fill:m", "compute:m"]}
    for kind, make in real_kinds():
        caps = fl.real_caps(make())
        for adapter in sorted(args):
            for arg in args[adapter]:
                if adapter == "Run" and kind == "None" and arg != "default":
                    continue      # Run(None, run=<function>) is the form "none" of the table, not a method name
                ctx.case(["real-kind", kind, adapter, arg])
                try:
                    obj = construct(adapter, make(), arg)
                    ok = True
                except lena.core.LenaTypeError:
                    ok = False
                except Exception as exc:   # noqa
                    mini.fail("real:%s:%s:raised:%s" % (adapter, arg, exc_name(exc)), (kind,), kind, {"caps": caps})
                    continue
                # a present but non-callable attribute counts as absent (invariant AttrIsAbsent of Adapters.tla)
                res = table.get((adapter, arg, fl.caps_sig(dict(((k, ("no" if v == "attr" else v)) for k, v in caps.items()),
                                                                truth=True))))
                bind = ""
                if ok and res is not None and res["ok"]:
                    bind = (res["f"] + "+" + res["c"]) if adapter == "FillCompute" else res["bind"]
                    fresh = make()
                    # both the adapter and the element are used twice
                    exp = [outcome(lambda: [materialise(direct(adapter, res["bind"], res, fresh))], lambda v: v)
                           for _ in (1, 2)]
                    got = [outcome(lambda: [materialise(via_adapter(adapter, obj))], lambda v: v) for _ in (1, 2)]
                    if not (got == exp or repr(got) == repr(exp)):
                        mini.fail("real:%s:%s:meaning" % (adapter, arg), (kind,), kind,
                                  {"caps": caps, "bind": res, "expected": repr(exp), "observed": repr(got)})
                trace.append({"adapter": adapter, "caps": caps, "arg": arg, "ok": ok, "bind": bind, "kind": kind})
    return trace


# ------------------------------------------------------------------ random chains (C2S)
def random_stage(rnd, alphabet):
    k = rnd.choice(alphabet)
    if k == "cfilter":
        return {"t": "cfilter", "k": rnd.choice(["odd", "variable", "t", "k", "output"]), "form": rnd.choice(["str", "fn"])}
    if k == "varattr":
        return {"t": "map", "f": "var", "attr": rnd.choice(["run", "fill", "compute", "request", "fill_into", "call", "reset", "all"])}
    if k == "runifdup":
        return {"t": "runifdup", "k": rnd.choice(["odd", "variable", "t"])}
    if k == "sfilter":
        return {"t": "sfilter", "s": rnd.choice(["not_even", "and_even_lt2", "or_even_lt2", "not_or", "and_not", "roe", "not_roe"])}
    if k == "runifseq":
        inner = rnd.choice([[{"t": "slice", "a": 1, "b": NONE, "s": 1}], [{"t": "slice", "a": 0, "b": 1, "s": 1}],
                            [{"t": "reverse"}], [{"t": "lagk", "k": 1}], [{"t": "lastk", "k": 1}],
                            [{"t": "map", "f": "inc"}, {"t": "slice", "a": 0, "b": 2, "s": 1}],
                            [{"t": "reverse"}, {"t": "slice", "a": 0, "b": 1, "s": 1}]])
        return {"t": "runifseq", "p": rnd.choice(["even", "lt2", "all"]), "inner": inner}
    if k == "tvar":
        pool = [{"n": "mm", "ty": "length", "g": "dbl"}, {"n": "sq", "ty": "area", "g": "inc"},
                {"n": "half", "ty": "fraction", "g": "dbl"}, {"n": "ident", "ty": "", "g": "id"},
                {"n": "cm", "ty": "length", "g": "inc"}, {"n": "shift", "ty": "", "g": "add10"},
                {"n": "a2", "ty": "area", "g": "id"}]
        return {"t": "tvar", "vars": [rnd.choice(pool) for _ in range(rnd.choice([1, 1, 2, 2, 3]))]}
    if k == "wmap":
        return {"t": "wmap", "f": rnd.choice(["inc", "dbl", "tag"]), "w": rnd.choice(["call", "m"])}
    if k == "crunif":
        return {"t": "crunif", "k": rnd.choice(["odd", "variable", "t", "k"]), "f": rnd.choice(["inc", "dbl", "drop", "tag"])}
    return flowlib.random_stage(rnd, [k])


def random_chain(rnd):
    pre = [random_stage(rnd, ["map", "map", "filter", "slice", "slice", "runif", "cfilter", "cfilter", "crunif", "varattr", "runifdup", "runifseq", "runifseq", "sfilter", "sfilter", "tvar", "tvar", "tvar", "wmap"])
           for _ in range(rnd.randint(0, 4))]
    pre = [st for st in pre if st.get("f") != "id"]
    post = [random_stage(rnd, ["map", "filter", "slice", "count", "sum", "tvar", "wmap"]) for _ in range(rnd.randint(0, 2))]
    post = [st for st in post if st.get("f") != "id"]
    if rnd.random() < 0.2:
        # a callable returning None (or a bare 0) for some values; after it only elements that take any value
        f = rnd.choice(["none_odd", "none_all", "zero_odd"])
        tail = [flowlib.random_stage(rnd, ["slice"]) for _ in range(rnd.randint(0, 1))]
        if f == "zero_odd":
            return {"pre": pre[:2] + [{"t": "nmap", "f": f}] + tail,
                    "acc": rnd.choice(["sum", "last", "store1", "cnt"]), "post": post}
        return {"pre": pre[:2] + [{"t": "nmap", "f": f}] + tail, "acc": rnd.choice(["last", "store1", "cnt"]),
                "post": [flowlib.random_stage(rnd, ["slice"]) for _ in range(rnd.randint(0, 1))]}
    return {"pre": pre, "acc": rnd.choice(["sum", "sum", "last", "store1", "store1", "cnt", "sumrun", "fc_sum", "fc_count",
                                           "fc_amb", "fc_named"]), "post": post}


def record_random(ctx, mini, rnd, count):
    trace = []
    for _ in range(count):
        ch = random_chain(rnd)
        n_values, pairs = rnd.randint(0, 12), rnd.choice(["bare", "pairs", "ctx", "ctx"])
        drv = rnd.choice(["run", "fill_compute_seq", "fill_seq", "persist", "split", "split", "split"])
        bs = rnd.choice(bufsizes(n_values)) if drv == "split" else NONE
        place = rnd.choice(["alone", "first", "middle", "middle", "last", "afterstop", "afterstop"]) if drv == "split" else "alone"
        copy_buf = place != "alone" or rnd.random() < 0.7
        form = rnd.choice(["tuple", "fcseq"])
        snap = []
        out = outcome(lambda: fl.drive_chain(ch, n_values, pairs, drv, bs, copy_buf=copy_buf, form=form, place=place,
                                             variant=rnd.randint(0, 2), snap=snap), fl.project3)
        if not isinstance(out, str) and snap != out:
            # the trace specification is given the results as they were when they were yielded as well
            trace.append({"e": "out", "ch": ch, "N": n_values, "fk": pairs, "drv": drv + "-as-yielded", "bs": bs,
                          "place": place, "out": snap})
        if isinstance(out, str):
            trace.append({"e": out, "ch": ch, "N": n_values, "fk": pairs, "drv": drv, "bs": bs, "place": place})
        else:
            trace.append({"e": "out", "ch": ch, "N": n_values, "fk": pairs, "drv": drv, "bs": bs, "place": place,
                          "out": out})
        if rnd.random() < 0.3:
            acc = fl.RecAcc(fl.build_acc(ch["acc"]))
            r = outcome(lambda: fl.drive_chain(ch, n_values, pairs, "fill_compute_seq", acc=acc), fl.project3)
            if not isinstance(r, str):
                trace.append({"e": "reach", "ch": ch, "N": n_values, "fk": pairs,
                              "reach": [fl.project3(v) for v in acc.reached]})
    return trace


def mc_and_export(ctx, module, cfg, must_cover, min_records):
    res = core.run_tlc(module, cfg, ctx.workdir, workers=1, coverage=True, timeout=3000)
    ctx._account("mc+export", module, cfg, res)
    if res.exit != 0:
        raise core.MachineryError("TLC %s/%s failed (exit %s, violated %s):\n%s" % (
            module, cfg, res.exit, res.violated, res.out[-3000:]))
    for a in must_cover:
        if res.coverage.get(a, 0) == 0:
            raise core.MachineryError("vacuous model: action %s of %s/%s never taken" % (a, module, cfg))
    if len(res.records) < min_records:
        raise core.MachineryError("TLC export %s/%s produced %d records" % (module, cfg, len(res.records)))
    return res.records


def _replay_chains(items):
    col, mini = fl.Collector(), Minimal(None)
    for k, rec in items:
        replay_chain(col, mini, rec, k)
        replay_extra(col, mini, rec, k)
    return col.counts(), mini.fails


def _replay_edges(items):
    col, mini = fl.Collector(), Minimal(None)
    for k, rec in items:
        fe.replay(col, mini, rec, k)
    return col.counts(), mini.fails


def _replay_adapters(recs):
    col, mini = fl.Collector(), Minimal(None)
    for rec in recs:
        if "outer" in rec:
            replay_nested(col, mini, rec)
        else:
            replay_adapter(col, mini, rec)
    return col.counts(), mini.fails


def run(ctx):
    tag = "thorough" if ctx.thorough else "quick"
    ctx.assume("pre/post elements and accumulators are those of the FlowSem vocabulary (callables, Variable, "
               "UpdateContext, Filter, non-negative Slice, RunIf; Sum, user elements, StoreFilled); other framework "
               "accumulators (Mean, DSum, VarianceMeanCount, StoreFilled group, Histogram) are compared with the "
               "accumulator itself filled with the values the specification says reach it")
    ctx.assume("adapter method names are strings; elements are synthetic classes with one tagged method per capability, "
               "plus real objects whose capability record is extracted by introspection")
    actions = ("RunFeed", "RunEof", "FillValue", "FillCompute", "PersistValue", "PersistCompute", "ComputeAgain",
               "SplitRead", "SplitFill", "SplitEnd")
    # All TLC jobs of the design level and the exports run side by side (each is a subprocess); the replay on the
    # implementation starts when they are done (no thread is alive when the replay workers are forked).
    wide = "wide" if ctx.thorough else ""
    w_big = 8 if ctx.thorough else 3
    guards = (
        # a Split that hands one shared copy of the block to its branches must be rejected (vacuity guard for `place`)
        ("FillSeq", "FillSeq_sharedcopy.cfg", "shared_copy_variant_rejected_by",
         "FillSeq.tla accepts a Split that shares one buffer copy between its branches"),
        # ... and one whose LenaStopFill flag is kept for the later branches of the block
        ("FillSeq", "FillSeq_sharedflag.cfg", "shared_stop_flag_variant_rejected_by",
         "FillSeq.tla accepts a Split whose stop flag is shared by the branches of a block"),
        # an adapter that lets the other methods of the wrapped element through (Sequence would use the element's own
        # run instead of fill ... compute)
        ("FillSeq", "FillSeq_forward.cfg", "forwarding_adapter_variant_rejected_by",
         "FillSeq.tla accepts adapters that show the methods of the wrapped element"),
        # a Variable whose run side shares the nested parts of one description between the values of a flow
        ("FillSeq", "FillSeq_perflow.cfg", "shared_description_variant_rejected_by",
         "FillSeq.tla accepts a Variable that shares one description between the values of a flow"),
        ("Adapters", "Adapters_forward.cfg", "forwarding_adapter_rejected_by",
         "Adapters.tla accepts an adapter object that forwards the methods of the wrapped element"),
        # a fill side that selects only on the object True while the run side goes by the truth value
        ("FillEdge", "FillEdge_identity.cfg", "identity_selection_variant_rejected_by",
         "FillEdge.tla accepts a fill side that treats truthy non-bool selector results as not selected"),
        # a run side on which StopIteration raised by a callable ends the flow silently
        ("FillEdge", "FillEdge_quiet.cfg", "quiet_stop_variant_rejected_by",
         "FillEdge.tla accepts a run driver that takes an element's StopIteration for the end of the flow"))
    from ..ctxlib import Jobs
    with Jobs(ctx, max_workers=6 if ctx.thorough else 5) as jobs:
        futs = [jobs.submit(ctx.mc, "FillSeq", "FillSeq_%s.cfg" % tag, workers=w_big),
                # variables below the top level of the context (typed, composed) and elements with conflicting
                # interfaces behind explicit adapters; all drivers
                jobs.submit(ctx.mc, "FillSeq", "FillSeq_vars%s.cfg" % wide, workers=w_big),
                # per-action census (vacuity guard) on a small configuration
                jobs.submit(fl.census, ctx, "FillSeq", "FillSeq_cover.cfg", actions),
                # round 8: kinds of objects a selector returns; elements that raise in the middle of the flow
                jobs.submit(ctx.mc, "FillEdge", "FillEdge_%s.cfg" % tag, workers=w_big),
                jobs.submit(fl.census, ctx, "FillEdge", "FillEdge_cover.cfg",
                            ("RunFeed", "RunEof", "FillValue", "FillCompute", "SplitRead", "SplitFill", "SplitEnd"))]
        f_edge = jobs.submit(ctx.export, "FillEdge", "FillEdge_%s_export.cfg" % tag, min_records=5000)
        f_recs = [jobs.submit(ctx.export, "FillSeq", "FillSeq_%s_export.cfg" % tag, min_records=1000),
                  jobs.submit(ctx.export, "FillSeq", "FillSeq_vars%s_export.cfg" % wide, min_records=1000)]
        # adapters: one TLC run checks the table and prints it
        f_arecs = jobs.submit(mc_and_export, ctx, "Adapters", "Adapters_%s.cfg" % tag,
                              ("Construct", "Invoke", "Wrap", "InvokeOuter"), 5000)
        f_guards = [jobs.submit(ctx.mc, m, c, workers=1, expect_violation="report") for m, c, _, _ in guards]
        if ctx.thorough:
            futs.append(jobs.submit(ctx.mc, "FillSeq", "FillSeq_wide.cfg", workers=w_big))
            futs.append(jobs.submit(ctx.mc, "FillSeq", "FillSeq_deep.cfg", workers=w_big))       # three pre elements
            f_recs.append(jobs.submit(ctx.export, "FillSeq", "FillSeq_wide_export.cfg", min_records=1000))
    for f in futs:
        f.result()
    for (m, c, label, msg), f in zip(guards, f_guards):
        res = f.result()
        if res.violated is None:
            raise core.MachineryError(msg)
        ctx.extra[label] = res.violated
    mini = Minimal(ctx)
    recs = []
    for f in f_recs:
        recs += f.result()
    arecs = f_arecs.result()
    nproc = fl.nprocs(ctx.thorough)
    for counts, fails in fl.parallel_map(_replay_chains, list(enumerate(recs)), nproc):
        fl.merge_counts(ctx, counts)
        mini.merge(fails)
    ctx.sample({"spec_behaviour_chain": recs[len(recs) // 2]})

    # ---- selector result kinds and abnormal endings (FillEdge.tla)
    erecs = f_edge.result()
    if not any(r["st"] == "raised" for r in erecs) or not any(fe.nonbool(r["ch"]) for r in erecs):
        raise core.MachineryError("FillEdge.tla exported no failing chain / no non-bool selector result")
    for counts, fails in fl.parallel_map(_replay_edges, list(enumerate(erecs)), nproc):
        fl.merge_counts(ctx, counts)
        mini.merge(fails)
    ctx.sample({"spec_behaviour_edge": next(r for r in erecs if r["st"] == "raised" and r["N"] >= 2)})
    ecol = fl.Collector()
    etrace = fe.record_random(ecol, random.Random(ctx.seed + 77), 3000 if ctx.thorough else 600)
    fl.merge_counts(ctx, ecol.counts())
    ctx.trace_check("Trace_FillEdge", "Trace_FillEdge.cfg", etrace,
                    lambda r: "%s:%s:%s:%s" % (r["drv"], r["st"], r["exc"], fe.chain_key(r["ch"])))
    ctx.binding_demo("Trace_FillEdge", "Trace_FillEdge.cfg", etrace,
                     lambda r: dict(r, st="ok", exc="") if r["st"] == "raised" else None)

    # ---- adapters
    table = {}
    for rec in arecs:
        if "outer" not in rec:
            table[(rec["adapter"], rec["arg"], fl.caps_sig(rec["caps"]))] = rec["res"]
    for counts, fails in fl.parallel_map(_replay_adapters, arecs, nproc):
        fl.merge_counts(ctx, counts)
        mini.merge(fails)
    ctx.sample({"spec_behaviour_adapter": arecs[len(arecs) // 3]})
    nested = [r for r in arecs if "outer" in r and r["res2"]["ok"]]
    if len(nested) < 500:
        raise core.MachineryError("Adapters.tla exported %d accepted adapter-in-adapter behaviours" % len(nested))
    ctx.sample({"spec_behaviour_nested_adapter": nested[len(nested) // 2]})

    # ---- code -> spec
    real = record_real_kinds(ctx, mini, table)
    ctx.trace_check("Trace_Adapters", "Trace_Adapters.cfg", real,
                    lambda r: "%s:%s:%s" % (r["adapter"], r["arg"], r["kind"]))
    ctx.binding_demo("Trace_Adapters", "Trace_Adapters.cfg", real,
                     lambda r: dict(r, ok=not r["ok"]) if r["adapter"] == "Run" else None)
    rnd = random.Random(ctx.seed)
    trace = record_random(ctx, mini, rnd, 2500 if ctx.thorough else 500)
    ctx.trace_check("Trace_FillSeq", "Trace_FillSeq.cfg", trace,
                    lambda r: "%s:%s:%s" % (r["e"].replace(" ", ":"), r.get("drv", "reach"), fl.chain_key(r["ch"])))
    ctx.binding_demo("Trace_FillSeq", "Trace_FillSeq.cfg", trace,
                     lambda r: dict(r, out=r["out"][:-1]) if r.get("e") == "out" and r["out"] else None)
    mini.report()
    return ctx.finish(
        rule="S2C: every chain pre* acc post* of the bounded model x flow length x {pairs, bare} run through "
             "Sequence.run, FillComputeSeq, FillSeq and Split (tuple and FillComputeSeq branch) with every bufsize in "
             "1..N+1, 1000, None, plus the values reaching the accumulator; framework accumulators outside the model "
             "with the accumulator itself as oracle; every (adapter, capability record, argument) of the Adapters "
             "table on a synthetic class (accept/reject, calls made, values returned and filled) and every adapter-in-"
             "adapter row (capabilities the adapter object exposes, accept/reject, calls reaching the element); results "
             "compared including the content of context.variable, as yielded and after the driver has finished; non-trivial = "
             "non-empty flow; C2S: real objects of 30 kinds through every adapter (Trace_Adapters) and seeded random "
             "chains (pre <= 4, post <= 2, N <= 12) validated by Trace_FillSeq",
        exhaustive=True)
