"""X08  A binned analysis, end to end (SplitIntoBins inside a full pipeline with an output chain, run repeatedly).

spec/BinnedSem.tla     branches (arg_var x / y / Combine(x, y); per-cell Histogram, Sum, Count), what every cell computes
                       (CellRef: the analysis of exactly the events of the half-open cell), the structures IterateBins /
                       MapBins yield with their contexts, the files a run leaves and writes
spec/Binned.tla        the machine: blocks of bufsize events, every event routed by the code's index walk, computes in
                       branch order, every cell pulled through MakeFilename / ToCSV / Write (content comparison);
                       PerCell, OnePerStructure, FilesRef, NoRedo, RedoRef, Independent, RunIsSem (machine = declarative run)
spec/Trace_Binned.tla  validation of runs recorded from the real pipeline on random binned analyses
"""
import json
import multiprocessing
import os
import random
import shutil
import tempfile

from .. import core
from .. import binnedlib as bl

ACTIONS = ("StartRun", "ReadBlock", "FillBranch", "Compute", "Emit", "EndRun")


def _guard(ctx, cfg, inv):
    res = ctx.mc("Binned", cfg, expect_violation="report")
    if res.exit == 0 or inv not in (res.violated or ""):
        raise core.MachineryError("sensitivity guard: %s must violate %s (got exit %s, %s)" % (cfg, inv, res.exit, res.violated))


def run(ctx):
    tag = "thorough" if ctx.thorough else "quick"
    rnd = random.Random(ctx.seed)
    ctx.assume("the structures of one analysis have pairwise different names (every branch appends its own suffix); "
               "event coordinates and edges are integers (only comparisons and sums are used)")
    ctx.assume("not compared, because the documentation leaves it open: the analysis' own context (variable, source) of a "
               "cell that received no value, context.value beyond the mapped variable's name, the events' context when no "
               "event lay inside the edges; no file is deleted or edited between runs (that is C19)")
    # ---- design level
    ctx.mc("Binned", "Binned_%s.cfg" % tag, coverage=True, must_cover=ACTIONS)
    # sensitivity guards: a Write that does not compare contents must be refuted by NoRedo,
    # cells closed at the last edge must be refuted by PerCell
    _guard(ctx, "Binned_writealways.cfg", "NoRedo")
    _guard(ctx, "Binned_closedlast.cfg", "PerCell")
    recs = ctx.export("Binned", "Binned_export.cfg", min_records=300)
    recs = recs + ctx.export("Binned", "Binned_export3.cfg", min_records=150)
    if ctx.thorough:
        recs = recs + ctx.export("Binned", "Binned_export_wide.cfg", min_records=500)

    # ---- spec -> code: every exported history on the real pipeline (sharded: real files)
    scratch = tempfile.mkdtemp(prefix="x08_", dir=os.path.dirname(ctx.workdir.rstrip("/")) or None)
    nsh = max(1, min(ctx.nworkers, 8))
    shards = [[] for _ in range(nsh)]
    for k, rec in enumerate(recs):
        shards[k % nsh].append((k, rec))
    try:
        jobs = [(sh, os.path.join(scratch, "s%d" % i)) for i, sh in enumerate(shards)]
        mp = multiprocessing.get_context("fork")
        pool = mp.Pool(nsh)
        try:
            outs = pool.map(bl._job, jobs)
        finally:
            pool.close()
            pool.join()
        found = {}
        for bad, n in outs:
            ctx.evaluations += n
            for k, key, detail in bad:
                size = len(json.dumps(detail, default=repr))
                if key not in found or size < found[key][0]:
                    found[key] = (size, detail)
        for key in sorted(found):
            ctx.violation(key, found[key][1])
        for rec in recs:
            ctx.case(["history", rec["brs"], rec["bs"], rec["ed"], [r["src"] for r in rec["runs"]]], nontrivial=True, traces=1)
        ctx.sample({"spec_history": recs[len(recs) // 2]})

        # ---- code -> spec: seeded random binned analyses recorded on the real pipeline
        trace = []
        for k in range(150 if ctx.thorough else 40):
            hist = bl.record_history(rnd, os.path.join(scratch, "r%d" % k))
            if hist and "raised" in hist[-1]:
                ctx.violation("Binned:random:raised:%s" % hist[-1]["raised"], hist[-1])
                hist = hist[:-1]
            trace.extend(hist)
    finally:
        shutil.rmtree(scratch, ignore_errors=True)
    ctx.trace_check("Trace_Binned", "Trace_Binned.cfg", trace,
                    lambda r: "%s:%s" % ("first-run" if r["first"] else "rerun", bl.shape(r["brs"], r["bs"])))

    def corrupt(r):
        if not r["wrote"]:
            return None
        r2 = dict(r)
        r2["wrote"] = r["wrote"][1:]
        return r2
    ctx.binding_demo("Trace_Binned", "Trace_Binned.cfg", trace, corrupt)

    def corrupt2(r):
        # one event more in the first cell's file than the analysis of that cell's events gives
        for j, o in enumerate(r["out"]):
            if o["kind"] == "cell" and o["rows"]:
                r2 = dict(r)
                rows = [list(x) for x in o["rows"]]
                rows[0][-1] += 1
                r2["out"] = r["out"][:j] + [dict(o, rows=rows)] + r["out"][j + 1:]
                return r2
        return None
    ctx.binding_demo("Trace_Binned", "Trace_Binned.cfg", trace, corrupt2)
    return ctx.finish(
        rule="S2C: every history of the bounded model (branch lists of 1..4 binned analyses out of arg x / y / Combine(x, y) "
             "x per-cell Histogram / Sum / Count, without a Split and with bufsize 1, 2, larger than the flow, two runs and "
             "three runs over 3-4 data sets with events below, on and above the edges, two edge layouts) executed on the real "
             "Source(reader, Split([(SplitIntoBins, IterateBins | MapBins, MakeFilename(suffix))...]), MakeFilename, "
             "MakeFilename, ToCSV, Write) in a scratch directory: yielded structures in order with their names, csv rows, "
             "context.bin / bins / variable / histogram, files present and their decoded contents, files written and events "
             "read compared after every run; C2S: seeded random binned analyses (1..4 branches, random edges, 0..11 events, "
             "2..4 runs) validated run by run by Trace_Binned.tla",
        exhaustive=True)
