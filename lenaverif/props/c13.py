"""C13  Static context seen by an element depends only on what encloses and precedes it.

spec/StaticSem.tla            context algebra + the declarative fold (document order, Split copy +
                              intersection rule, first unresolved key, run-time meaning of
                              UpdateContextFromStatic / MakeFilename)
spec/StaticContext.tla        operational machine: one action per constructor call in Python's
                              evaluation order, passes transcribed from LenaSequence / LenaSplit /
                              SetContext / consumers; invariants SeenIsExpected (at every step, per
                              completed component), Causal, PrefixOnly, SiblingIndependent,
                              RootExpected (UnresolvedSurfaces), NoLeakToRuntime
spec/Trace_StaticContext.tla  validation of observations recorded on random larger trees

S2C: every finished tree of the bounded machine is built from the real lena classes and every
observable is compared with the expectation TLC printed for it.  C2S: seeded random trees (more
tokens, larger alphabet) are built, observed and validated by TLC.

Three more dimensions of the quantifier (families F8, F9, F10; c2s draws them at random):
  * a key that the prefix sets to a plain value and a formatting field uses as a dictionary
    ("kd.ke" after SetContext("kd", 1)) is as unresolved as a missing key;
  * the values that are run through the pipeline may carry static keys in their run-time context
    (nested ones too): what MakeFilename / UpdateContextFromStatic hold is the same after every
    value (operational run OpRoot in the machine, defect switch MFRunCopies);
  * the program is executed a second time (action Again: all objects constructed anew) while the
    cache files of the first execution exist (variable disk; Split.__init__ asks alter_sequence,
    defect switch AlterApplied): every observable is the same as in the first execution.

The statement leaves open how a Split branch that is a bare fill/compute element (no static
context of its own) counts; the specification enumerates the three readings (Policies) and a tree is
accepted when one of them explains everything observed on it.
"""
import collections
import json
import os
import random
import shutil
import tempfile
import threading

from .. import core
from .. import staticlib as sl
from ..util import exc_name

ACTIONS = ("Open", "Place", "Close", "UseRoot")


def _clean_cwd():
    for f in os.listdir("."):
        try:
            if os.path.isdir(f):
                shutil.rmtree(f, ignore_errors=True)
            else:
                os.remove(f)
        except OSError:
            pass


def has_tuple_variant(els):
    """The tree has an alternative spelling (tuple / bare branch of a Split, Source whose callable
    follows leading SetContext / StoreContext elements)."""
    par = sl.parents(els)
    return any((e["k"] == "seq" and n in par and els[par[n] - 1]["k"] == "split"
                and not any(els[c - 1]["k"] == "split" for c in e["ch"]))
               or (e["k"] == "src" and e["ch"] and els[e["ch"][0] - 1]["k"] in ("set", "store"))
               for n, e in enumerate(els, 1))


def replay(ctx, recs, stats):
    """Build every exported tree with the real classes and compare all observables."""
    groups = collections.OrderedDict()
    for r in recs:
        groups.setdefault(core.canon([r["els"], r.get("peek", 0), r.get("vin"), r.get("gens", 1)]), []).append(r)
    for alts in groups.values():
        els = alts[0]["els"]
        peek = alts[0].get("peek", 0)
        vin = sl.vin_of(alts[0])
        gens = alts[0].get("gens", 1)
        variants = (False, True) if has_tuple_variant(els) else (False,)
        if alts[0].get("share"):
            # object sharing: a tuple branch would become a new Sequence object per position
            variants = (False,)
            occ = collections.Counter(c for e in els for c in e["ch"])
            stats["shared_objects"] += sum(1 for c in occ.values() if c > 1)
        for tuples in variants:
            # gens = 2: the program is executed a second time (all objects constructed anew) while
            # the files the first execution wrote are there; the expectation is the same
            for g in range(1, gens + 1):
                sfx = "" if g == 1 else ":second-execution"
                # the files the model's first execution leaves (disk) are there
                files = ["".join(f) for f in alts[0].get("files", ())]
                if g == 2 and files and all(os.path.isfile(f) for f in files):
                    stats["warm_executions"] += 1
                try:
                    objs = sl.build(els, tuples, peek, vin)
                except sl.ConstructFailed as cf:      # only what a lena constructor raised
                    ctx.violation("construct:raised:%s%s" % (exc_name(cf.exc), sfx),
                                  {"tree": sl.sig(els), "tuples": tuples, "exception": repr(cf.exc)})
                    break
                obs, rt, changed = sl.observe(els, objs, vin=vin)
                par = sl.parents(els)
                for (i, before, after) in changed:
                    pk = els[par[i] - 1]["k"] if i in par else "root"
                    ctx.violation("%s:changed-by-run:in-%s%s" % (els[i - 1]["k"], pk, sfx),
                                  {"tree": sl.sig(els), "element": i, "before_run": before, "after_run": after,
                                   "runtime_contexts_sent": vin})
                results = [sl.compare(els, a, obs, rt) for a in alts]
                ctx.case(["tree", els, tuples, peek, vin, g], nontrivial=len(els) > 1)
                stats["observations"] += sum(1 for o in obs if o and not o.get("skip")) + 1
                good = [j for j, (bad, _) in enumerate(results) if not bad]
                if good:
                    if len(alts) > 1:
                        stats["policy_trees"] += 1
                        pols = sorted(alts[j]["pol"] for j in good)
                        stats["policies_matched"][",".join(pols)] += 1
                    stats["other_key_named"] += results[good[0]][1]
                    continue
                for (k, what, pk, i, want, got) in results[0][0]:
                    ctx.violation("%s:%s:in-%s%s" % (k, what, pk, sfx),
                                  {"tree": sl.sig(els), "element": i, "branches_as_tuples": tuples,
                                   "context_requested_after_building_node": peek,
                                   "runtime_contexts_sent": vin, "execution": g,
                                   "expected": want, "observed": got,
                                   "policy": alts[0]["pol"]})
            _clean_cwd()
    return len(groups)


# ---------------------------------------------------------------------------- C2S
KEYS = (["ka"], ["kb"], ["kc"], ["kd", "ke"], ["kd", "kf"], ["output", "kx"], ["rt"], ["kd"])
# run-time contexts of the two incoming values: by default no static key; values that carry a
# nested static key (same leaf / a sibling leaf), a plain static key, in the first or in both
VINS = (
    [{"rt": 0}, {"rt": 1}],
    [{"rt": 0, "kd": {"ke": 5}}, {"rt": 1}],
    [{"rt": 0, "kd": {"kf": 5}}, {"rt": 1}],
    [{"rt": 0, "ka": 5}, {"rt": 1}],
    [{"rt": 0, "kd": {"ke": 5}, "kb": 5}, {"rt": 1, "kd": {"kf": 5}}],
    [{"rt": 0, "output": {"kx": 5}}, {"rt": 1, "kc": 5}],
)
# (not drawn: a run-time plain value under a key that is a static dictionary - if the static
# dictionary is an empty one left by the intersection, UpdateContextFromStatic replaces the value
# by it: the statement does not say whether empty nested dictionaries are kept)


def _lit(ch):
    return {"f": False, "p": [], "l": ch}


def _fld(p):
    return {"f": True, "p": list(p), "l": ""}


def _fmt(*toks):
    return {"t": "fmt", "toks": list(toks)}


NOTPL = {"t": "str", "toks": []}
FMT_VALUES = [
    (["kc"], _fmt(_fld(["ka"]))),
    (["kc"], _fmt(_lit("x"), _fld(["kc"]))),
    (["kb"], _fmt(_fld(["kd", "ke"]))),
    (["kc"], _fmt(_fld(["ka"]), _lit("_"), _fld(["kb"]))),
    (["ka"], _fmt(_fld(["ka"]), _fld(["ka"]))),
    (["kd", "ke"], _fmt(_fld(["kb"]), _lit("y"))),
]
CONSUMERS = [
    ("mf", _fmt(_fld(["ka"]), _lit("_"), _fld(["kb"]))),
    ("mf", _fmt(_fld(["kc"]))),
    ("mf", _fmt(_fld(["kd", "ke"]), _lit("x"))),
    ("mf", _fmt(_fld(["output", "kx"]))),
    ("mf", _fmt(_fld(["rt"]))),
    ("mfd", _fmt(_fld(["ka"]))),
    ("mfe", _fmt(_fld(["kb"]), _lit("x"))),
    ("write", _fmt(_lit("d"))),
    ("write", _fmt(_fld(["ka"]))),
    ("write", _fmt(_fld(["kb"]), _lit("_"), _fld(["kd", "ke"]))),
    ("cache", _fmt(_fld(["kc"]), _lit(".pkl"))),
    ("cache", _fmt(_fld(["ka"]), _lit(".pkl"))),
]


def random_leaf(rnd, keys=KEYS):
    r = rnd.random()
    if r < 0.30:
        p = rnd.choice(keys)
        q = rnd.random()
        if q < 0.10:
            return {"k": "set", "p": ["ka"], "v": {"t": "str", "toks": [_lit("1")]}, "ch": []}
        if q < 0.14:      # values that look like nothing
            return {"k": "set", "p": list(p), "v": {"t": "int", "toks": [_lit("0")]}, "ch": []}
        if q < 0.18:
            return {"k": "set", "p": list(p), "v": {"t": "str", "toks": []}, "ch": []}
        if q < 0.22:
            return {"k": "set", "p": list(p), "v": {"t": "none", "toks": [_lit(ch) for ch in "None"]}, "ch": []}
        return {"k": "set", "p": list(p), "v": {"t": "int", "toks": [_lit(rnd.choice("12"))]}, "ch": []}
    if r < 0.42:
        p, v = rnd.choice(FMT_VALUES)
        return {"k": "set", "p": list(p), "v": v, "ch": []}
    if r < 0.55:
        return {"k": "store", "p": [], "v": NOTPL, "ch": []}
    if r < 0.67:
        return {"k": "ucfs", "p": [], "v": NOTPL, "ch": []}
    if r < 0.92:
        k, v = rnd.choice(CONSUMERS)
        return {"k": k, "p": [], "v": v, "ch": []}
    return {"k": "data", "p": [], "v": NOTPL, "ch": []}


def random_tree(rnd, max_tok, max_depth=3):
    els = []
    budget = [rnd.randint(3, max_tok)]
    # few keys per tree, so that branches of a Split often set the same key
    keys = rnd.sample(KEYS, rnd.choice([2, 3, 6]))

    def add(e):
        els.append(e)
        return len(els)

    def node(kind, depth):
        ch = []
        if kind == "split":
            for _ in range(rnd.randint(1, 3)):
                if budget[0] <= 0:
                    break
                budget[0] -= 1
                bk = rnd.choice(["seq", "seq", "seq", "src", "acc"]) if depth < max_depth else "acc"
                if bk == "acc":
                    ch.append(add({"k": "acc", "p": [], "v": NOTPL, "ch": []}))
                else:
                    ch.append(node(bk, depth + 1))
            if not ch:
                ch.append(add({"k": "acc", "p": [], "v": NOTPL, "ch": []}))
        else:
            for _ in range(rnd.randint(0, 6)):
                if budget[0] <= 0:
                    break
                budget[0] -= 1
                r = rnd.random()
                if r < 0.28 and depth < max_depth:
                    ch.append(node(rnd.choice(["seq", "split", "split"]), depth + 1))
                else:
                    ch.append(add(random_leaf(rnd, keys)))
        return add({"k": kind, "p": [], "v": NOTPL, "ch": ch})

    node(rnd.choice(["seq", "seq", "src", "src", "split"]), 1)
    return els


def split_tree(rnd):
    """Seq/Src(sets, Split[branch, branch(, Sum)], consumers): branches that agree on some keys
    and disagree on others, over few keys (exercises the recursive intersection)."""
    els = []
    keys = rnd.sample(KEYS, 2) if rnd.random() < 0.5 else [["kd", "ke"], ["kd", "kf"]]

    def add(e):
        els.append(e)
        return len(els)

    def aset():
        return add({"k": "set", "p": list(rnd.choice(keys)),
                    "v": {"t": "int", "toks": [_lit(rnd.choice("12"))]}, "ch": []})

    top = [aset() for _ in range(rnd.randint(0, 2))]
    brs = []
    for _ in range(rnd.randint(2, 3)):
        ch = [aset() for _ in range(rnd.randint(0, 2))]
        if rnd.random() < 0.4:
            ch.insert(rnd.randint(0, len(ch)), add({"k": "store", "p": [], "v": NOTPL, "ch": []}))
        brs.append(add({"k": rnd.choice(["seq", "seq", "src"]), "p": [], "v": NOTPL, "ch": ch}))
    if rnd.random() < 0.25:
        brs.append(add({"k": "acc", "p": [], "v": NOTPL, "ch": []}))
    top.append(add({"k": "split", "p": [], "v": NOTPL, "ch": brs}))
    for _ in range(rnd.randint(0, 2)):
        top.append(add(random_leaf(rnd, keys)))
    add({"k": rnd.choice(["seq", "src"]), "p": [], "v": NOTPL, "ch": top})
    return els


def pattern_trees():
    """Enumerated (not random) trees: a Split whose first branch has an unresolved formatting key -
    directly or inside a nested sequence (depth 4) - next to a sibling branch with one consumer.
    The sibling is not enclosed by the failing branch: it must still receive the outer context."""
    out = []
    consumers = [None, ("store", NOTPL), ("ucfs", NOTPL), ("mfd", _fmt(_fld(["ka"]))),
                 ("write", _fmt(_fld(["ka"]))), ("cache", _fmt(_fld(["ka"]), _lit(".pkl")))]
    for outer in ("seq", "src"):
        for b1kind in ("seq", "src"):
            for nested in (False, True):
                for cons in consumers:
                    for b2kind in ("seq", "src"):
                        els = []

                        def add(k, ch=(), p=(), v=NOTPL):
                            els.append({"k": k, "p": list(p), "v": v, "ch": list(ch)})
                            return len(els)
                        first = add("set", p=["ka"], v={"t": "int", "toks": [_lit("1")]})
                        f = add("set", p=["kb"], v=_fmt(_fld(["kd", "ke"])))
                        inner = add("seq", [f]) if nested else f
                        b1 = add(b1kind, [inner])
                        ch2 = [add(cons[0], v=cons[1])] if cons else []
                        b2 = add(b2kind, ch2)
                        sp = add("split", [b1, b2])
                        add(outer, [first, sp])
                        out.append(els)
    # a Split inside a nested sequence under a non-empty outer prefix, with a consumer after it
    # (the Split's context is requested by the inner constructor before the outer context arrives)
    for outer in ("seq", "src"):
        for bkind in ("seq", "src"):
            for cons in consumers:
                els = []

                def add(k, ch=(), p=(), v=NOTPL):
                    els.append({"k": k, "p": list(p), "v": v, "ch": list(ch)})
                    return len(els)
                first = add("set", p=["ka"], v={"t": "int", "toks": [_lit("1")]})
                b = add(bkind, [])
                sp = add("split", [b])
                ch = [sp] + ([add(cons[0], v=cons[1])] if cons else [])
                inner = add("seq", ch)
                add(outer, [first, inner])
                out.append(els)
    # a Sequence branch of a Split with SetContext before a Cache and a consumer after it, under a
    # non-empty outer prefix: executed twice by c2s (the second execution finds the cache file)
    for outer in ("seq", "src"):
        for fname in (_fmt(_lit("c"), _lit(".pkl")), _fmt(_fld(["kb"]), _lit(".pkl"))):
            for cons in consumers:
                for sibling in (False, True):
                    els = []

                    def add(k, ch=(), p=(), v=NOTPL):
                        els.append({"k": k, "p": list(p), "v": v, "ch": list(ch)})
                        return len(els)
                    first = add("set", p=["ka"], v={"t": "int", "toks": [_lit("1")]})
                    ch = [add("set", p=["kb"], v={"t": "int", "toks": [_lit("2")]}), add("cache", v=fname)]
                    if cons:
                        ch.append(add(cons[0], v=cons[1]))
                    if cons and cons[0] == "cache":
                        continue
                    brs = [add("seq", ch)]
                    if sibling:
                        brs.append(add("seq", [add("set", p=["kb"], v={"t": "int", "toks": [_lit("2")]})]))
                    sp = add("split", brs)
                    add(outer, [first, sp, add("store")])
                    out.append(els)
    # a Source whose first element (a Source, or a Split of Sources) exports static context
    for gen in ("src", "split"):
        for lead in (False, True):
            for cons in consumers:
                els = []

                def add(k, ch=(), p=(), v=NOTPL):
                    els.append({"k": k, "p": list(p), "v": v, "ch": list(ch)})
                    return len(els)
                ch = [add("set", p=["kb"], v={"t": "int", "toks": [_lit("2")]})] if lead else []
                a = add("set", p=["ka"], v={"t": "int", "toks": [_lit("1")]})
                g = add("src", [a])
                if gen == "split":
                    g = add("split", [g])
                ch.append(g)
                if cons:
                    ch.append(add(cons[0], v=cons[1]))
                add("srcf", ch)
                out.append(els)
    return out


def c2s(ctx, n, max_tok, stats):
    rnd = random.Random(ctx.seed * 7919 + 13)
    trace = []
    patterns = pattern_trees()
    for j in range(n + len(patterns)):
        if j >= n:
            els = patterns[j - n]
        else:
            els = split_tree(rnd) if j % 3 == 2 else random_tree(rnd, max_tok)
        tuples = bool(rnd.getrandbits(1))
        # _get_context() of one node is requested right after it is built (must change nothing)
        nodes = [i for i, e in enumerate(els, 1) if e["k"] in sl.NODE_KINDS]
        peek = rnd.choice(nodes) if nodes and rnd.random() < 0.5 else 0
        if j >= n:
            peek = nodes[(j - n) % len(nodes)]
        vin = VINS[0] if rnd.random() < 0.4 else rnd.choice(VINS)
        # a pipeline with a Cache is executed twice: the second execution (new objects) finds the
        # file of the first
        gens = 2 if sum(1 for e in els if e["k"] == "cache") == 1 else 1
        for g in range(1, gens + 1):
            sfx = "" if g == 1 else ":second-execution"
            try:
                objs = sl.build(els, tuples, peek, vin)
            except sl.ConstructFailed as cf:          # only what a lena constructor raised
                ctx.violation("construct:raised:%s%s" % (exc_name(cf.exc), sfx),
                              {"tree": sl.sig(els), "tuples": tuples, "exception": repr(cf.exc)})
                break
            obs, rt, changed = sl.observe(els, objs, vin=vin)
            raised = [(i, o) for i, o in enumerate(obs, 1) if o and o.get("raised")]
            if raised:
                i, o = raised[0]
                ctx.violation("c2s:%s:observation-raised-%s%s" % (els[i - 1]["k"], o["raised"], sfx),
                              {"tree": sl.sig(els), "element": i, "message": o.get("msg")})
                break
            trace.append(sl.record(els, obs, rt, stable=not changed, vin=vin, gen=g))
        _clean_cwd()
    # validate; a rejected record is localised (which observation) and validation goes on
    # behind it (at most 3 / 8 times, each rejection is a violation)
    accepted = []
    rest = trace
    for _ in range(8 if ctx.thorough else 3):
        if not rest:
            break
        acc = ctx.validate("Trace_StaticContext", "Trace_StaticContext.cfg", rest, label="trace")
        ctx.traces += acc
        ctx.evaluations += min(len(rest), acc + 1)
        for r in rest[:acc]:
            ctx.distinct.add(core.canon(r["els"]))
        accepted.extend(rest[:acc])
        if acc >= len(rest):
            rest = []
            break
        bad = rest[acc]
        els = bad["els"]
        singles = [dict(bad, only=i) for i in range(1, len(els) + 1)] + [dict(bad, only=len(els) + 1)]
        a2 = ctx.validate("Trace_StaticContext", "Trace_StaticContext.cfg", singles, label="localise")
        par = sl.parents(els)
        if a2 < len(els):
            i = a2 + 1
            pk = els[par[i] - 1]["k"] if i in par else "root"
            key = "c2s:%s:rejected:in-%s%s" % (els[i - 1]["k"], pk, "" if bad.get("gen", 1) == 1 else ":second-execution")
            detail = {"tree": sl.sig(els), "element": i, "observed": bad["obs"][i - 1]}
        else:
            key = "c2s:runtime:rejected:%s" % els[-1]["k"]
            detail = {"tree": sl.sig(els), "observed_runtime": bad["rt"], "ran": bad["ran"]}
        ctx.violation(key, detail)
        stats["c2s_rejected"] += 1
        rest = rest[acc + 1:]
    stats["c2s_unvalidated"] = len(rest)
    if accepted:
        ctx.sample({"recorded_trace_record": accepted[min(3, len(accepted) - 1)]})
    return accepted


def corrupt(r):
    """Corrupt one recorded observation: a StoreContext that saw one more key (in a tree without
    formatting values, so that the fold fixes what every element sees)."""
    if any(e["k"] == "set" and e["v"]["t"] == "fmt" for e in r["els"]):
        return None
    for j, (e, o) in enumerate(zip(r["els"], r["obs"])):
        if e["k"] == "store" and o["has"]:
            obs = [dict(x) for x in r["obs"]]
            c = json.loads(json.dumps(o["ctx"]))
            c["m"]["zz"] = sl.enc(1)
            obs[j]["ctx"] = c
            return dict(r, obs=obs)
    return None


def demo_defect_models(ctx):
    """The invariants are not vacuous: the machine with a consumer that keeps the reference
    (StoreByCopy = FALSE) or a Source whose tail Sequence is built from its data elements only
    (TailKeepsSets = FALSE) violates SeenIsExpected."""
    for cfg, what in (("StaticContext_alias.cfg", "StoreByCopy=FALSE"),
                      ("StaticContext_tail.cfg", "TailKeepsSets=FALSE")):
        res = ctx.mc("StaticContext", cfg, expect_violation="report")
        if res.exit == 0 or res.violated != "SeenIsExpected":
            raise core.MachineryError("defect model %s (%s) does not violate SeenIsExpected (exit %s, %s)"
                                      % (cfg, what, res.exit, res.violated))
        ctx.extra.setdefault("design_level_counterexamples", []).append(
            "%s: TLC violates SeenIsExpected after %d states" % (what, res.distinct))


def demo_switch(ctx, cfg, what, expected=("SeenIsExpected", "PeekIsPure")):
    res = ctx.mc("StaticContext", cfg, expect_violation="report")
    if res.exit == 0 or res.violated not in expected:
        raise core.MachineryError("defect model %s does not violate %s (exit %s, %s)" % (
            cfg, "/".join(expected), res.exit, res.violated))
    ctx.extra.setdefault("design_level_counterexamples", []).append(
        "%s: TLC violates %s after %d states" % (what, res.violated, res.distinct))


def demo_abort(ctx):
    """SplitContinues = FALSE (LenaSplit._set_context is left when a branch raises): the sibling
    branches after it miss the outer context - SeenIsExpected is violated at depth 4."""
    res = ctx.mc("StaticContext", "StaticContext_abort.cfg", expect_violation="report")
    if res.exit == 0 or res.violated != "SeenIsExpected":
        raise core.MachineryError("defect model StaticContext_abort.cfg does not violate SeenIsExpected")
    ctx.extra.setdefault("design_level_counterexamples", []).append(
        "SplitContinues=FALSE: TLC violates SeenIsExpected after %d states" % res.distinct)


def run(ctx):
    # private scratch directory: a concurrent invocation of the same check must not wipe ours
    # (core.Ctx makes one itself now; only an old shared build/<ID> is replaced)
    if os.path.basename(ctx.workdir) == ctx.pid:
        ctx.workdir = tempfile.mkdtemp(prefix=ctx.pid + "_", dir=core.BUILD)
    try:
        return _run(ctx)
    finally:
        shutil.rmtree(ctx.workdir, ignore_errors=True)


class Background(object):
    """The design-level TLC runs (many workers) go on in a thread while the main thread exports
    (one worker) and replays; a failure there is re-raised by join()."""

    def __init__(self, jobs):
        self.exc = None
        self.thread = threading.Thread(target=self._work, args=(jobs,))
        self.thread.daemon = True
        self.thread.start()

    def _work(self, jobs):
        try:
            for job in jobs:
                job()
        except BaseException as exc:    # noqa  (MachineryError included)
            self.exc = exc

    def join(self):
        self.thread.join()
        if self.exc is not None:
            raise self.exc


def exports_ahead(ctx, cfgs, ahead):
    """Yield (cfg, records) in the order of *cfgs*; up to *ahead* TLC exports are running or waiting
    to be consumed at any time."""
    todo = list(cfgs)
    pending = collections.deque()

    def start():
        if not todo:
            return
        cfg = todo.pop(0)
        box = {}
        pending.append((cfg, box, Background(
            [lambda: box.update(recs=ctx.export("StaticContext", cfg, min_records=1000))])))

    for _ in range(ahead):
        start()
    while pending:
        cfg, box, th = pending.popleft()
        th.join()
        start()
        yield cfg, box.pop("recs")


def _run(ctx):
    tag = "thorough" if ctx.thorough else "quick"
    ctx.assume("keys ka kb kc kd kd.ke kd.kf output.kx rt; values 0, 1, 2, 5, '1', '', None and formatting strings "
               "made of one-character literals; formatting fields never name a dictionary-valued key (they do "
               "name keys below a plain-valued one)")
    ctx.assume("run-time contexts of the incoming values: {rt: 0}, {rt: 1}, optionally with static keys (kd.ke, kd.kf, "
               "ka, kb, kc, output.kx = 5; never a plain value under a static dictionary key); where a nested run-time dictionary meets a nested static one in "
               "MakeFilename, replacing it and merging it recursively are both accepted")
    ctx.assume("second execution: same program text, same input values, working directory left as the first "
               "execution left it; pipelines with two Caches are not run")
    ctx.assume("empty nested dictionaries are removed before contexts are compared")
    ctx.assume("after the first unresolved formatting key (document order) nothing is compared except "
               "that _get_context raises LenaKeyError naming a key that is unresolvable below that node")
    ctx.assume("a Split branch that is a bare fill/compute element: three readings accepted (ignored and "
               "{} if no other branch; ignored and transparent; counts with the copy it was handed)")
    stats = {"observations": 0, "policy_trees": 0, "policies_matched": collections.Counter(),
             "other_key_named": 0, "c2s_rejected": 0, "c2s_unvalidated": 0, "trees_by_family": collections.Counter(),
             "peeked": 0, "warm_executions": 0, "other_inputs": 0, "shared_objects": 0}
    kinds_seen = set()
    # ---- design level (background thread): vacuity guard with -coverage on the 3-token family
    # (coverage slows TLC several times), all families of the tier without it, defect models
    jobs = [
            lambda: ctx.mc("StaticContext", "StaticContext_%s.cfg" % tag),
            lambda: demo_defect_models(ctx),
            # MakeFilename.__call__ merging the run-time context into the dictionaries it holds;
            # alter_sequence really replacing a Split branch that has a filled Cache
            lambda: demo_switch(ctx, "StaticContext_mfshare.cfg", "MFRunCopies=FALSE", ("RunKeepsStatic",)),
            lambda: demo_switch(ctx, "StaticContext_alter.cfg", "AlterApplied=TRUE", ("SeenIsExpected",)),
            # element OBJECT SHARING (action Reuse; F11): one object at several positions, every
            # position's followers see the fold of that position's own prefix; guard: a SetContext
            # that keeps the value it formatted first
            lambda: ctx.mc("StaticContext", "StaticContext_share%s.cfg" % ("_t" if ctx.thorough else "")),
            lambda: demo_switch(ctx, "StaticContext_sharecache.cfg", "SetContext caches its formatted value "
                                "(one object at two positions)", ("SeenIsExpected",))]
    if ctx.thorough:
        jobs.append(lambda: ctx.mc("StaticContext", "StaticContext_sim.cfg", simulate=2000, depth=44))
        jobs.append(lambda: demo_abort(ctx))
        jobs.append(lambda: demo_switch(ctx, "StaticContext_cache.cfg", "SplitCachesExport=TRUE"))
        jobs.append(lambda: demo_switch(ctx, "StaticContext_noskip.cfg", "SkipEmpty=FALSE"))
        jobs.append(lambda: demo_switch(ctx, "StaticContext_noskip2.cfg", "SkipEmpty=FALSE (second execution: the "
                                        "Source alter_sequence builds and drops)", ("SeenIsExpected",)))
        jobs.append(lambda: demo_switch(ctx, "StaticContext_norepass.cfg", "SrcFRepass=FALSE"))
    bg = Background(jobs)
    # ---- spec -> code (main thread)
    cwd = os.getcwd()
    scratch = os.path.join(ctx.workdir, "cwd")
    os.makedirs(scratch)
    os.chdir(scratch)
    try:
        exports = (["StaticContext_thorough_export_%s.cfg" % f for f in ("F1", "F2", "N", "A", "B", "C")] if ctx.thorough
                   else ["StaticContext_quick_export.cfg", "StaticContext_quick_export_B.cfg",
                         "StaticContext_new_export.cfg"])
        exports.append("StaticContext_share%s_export.cfg" % ("_t" if ctx.thorough else ""))
        # TLC exports with one worker (PrintT): several exports run side by side while the
        # records of an earlier one are replayed
        for cfg, recs in exports_ahead(ctx, exports, 2 if ctx.thorough else 3):
            for r in recs:
                stats["other_inputs"] += int(sl.vin_of(r) != [dict(c) for c in sl.DEFAULT_VIN])
                stats["trees_by_family"][r["fam"]] += 1
                stats["peeked"] += int(r.get("peek", 0) != 0)
                for e in r["els"]:
                    kinds_seen.add(e["k"])
            replay(ctx, recs, stats)
            ctx.sample({"spec_behaviour": _brief(recs[len(recs) * 2 // 3])}, limit=3)
            del recs
        # ---- code -> spec
        accepted = c2s(ctx, 4000 if ctx.thorough else 300, 14 if ctx.thorough else 10, stats)
    finally:
        os.chdir(cwd)
    if accepted:
        ctx.binding_demo("Trace_StaticContext", "Trace_StaticContext.cfg", accepted, corrupt, limit=60)
    bg.join()
    # vacuity guard (instead of TLC -coverage, which runs out of memory on this specification):
    # every finished behaviour used Open, Place/Close and UseRoot; every family of the tier, every
    # kind of object and the "context requested before placement" step must occur
    want = set(["set", "store", "ucfs", "mf", "mfd", "mfe", "write", "cache", "data", "acc",
                "seq", "src", "srcf", "split"])
    if (want - kinds_seen or not stats["peeked"] or len(stats["trees_by_family"]) < (16 if ctx.thorough else 14)
            or not stats["warm_executions"] or not stats["other_inputs"] or not stats["shared_objects"]):
        raise core.MachineryError("vacuous model: kinds missing %s, peeked %d, families %s, second executions "
                                  "that found files %d, trees with run-time contexts carrying static keys %d" % (
            sorted(want - kinds_seen), stats["peeked"], sorted(stats["trees_by_family"]),
            stats["warm_executions"], stats["other_inputs"]))
    stats["policies_matched"] = dict(stats["policies_matched"])
    stats["trees_by_family"] = dict(stats["trees_by_family"])
    stats["coverage_downgraded"] = dict(sl.DOWNGRADED)
    ctx.extra["c13"] = stats
    return ctx.finish(
        rule="S2C: every finished tree of every family of the bounded machine (quick: A4 = <= 4 tokens over 11 "
             "leaf kinds and every root kind, B5 = <= 5 tokens over 4 leaf kinds, focused families F1..F7 with "
             "4-6 tokens, F8 = plain value under a key used as a dictionary, F9 = x 3 (4) inputs whose run-time "
             "contexts carry static keys, F10 = program executed twice with the cache files of the first "
             "execution present; thorough: A5, B6, C7 and the focused families one token deeper), built from the "
             "real classes in both spellings (Split branches as Sequence / tuple / bare element, Source callable "
             "first / after leading SetContext), every consumer / sequence observable compared before and after "
             "the values are run through the root, run-time contexts compared; non-trivial = more than one "
             "object; C2S: seeded random trees (<= 10 / 14 tokens, depth <= 3, 31 leaf kinds, 6 inputs, trees "
             "with one Cache executed twice) validated by Trace_StaticContext",
        exhaustive=True)


def _brief(rec):
    return {"tree": sl.sig(rec["els"]), "els": rec["els"], "pol": rec["pol"],
            "expected": [{"free": o["free"], "ok": o["ok"], "ctx": sl.dec(o["ctx"]), "name": "".join(o["s"]),
                          "key": o["key"]} for o in rec["obs"]],
            "runtime": [sl.dec(c) for c in rec["rt"]]}
