"""C14  Variables compose like functions and keep each variable's description.

spec/VarSem.tla           var_context of Variable / Compose / Combine, UpdateCtx (the documented
                          update of context.variable); getters G with the data each can take
                          (Accepts) over the DATA KINDS integer, None, tuple, hit = a pair that
                          itself looks like a (data, context) value; the reference Get (Compose =
                          composition, Combine = tuple of the getters' results, on any data) and the
                          machine CallData (what __call__ does with the data; Variant switches);
                          the DECLARATIVE closed form Described(ctx, chain) for chains with pairwise
                          distinct non-empty types
spec/Variables.tla        machine: ApplyVar (Sequence step), ApplyCompose, ApplyCombine, Repeat;
                          invariants DataEq (every prefix), ComposeEqSeq, CombineTuple,
                          TypedDeclarative (every prefix), NestedFlattens, CarriesName,
                          FrameVariableOnly, VarUnchanged, Repeatable; switches ExtendByCompose /
                          CopyVarContext / Variant = combine-via-call, skip-missing give design-level
                          counterexamples.  Configurations a (plain chains), b (nested Compose /
                          Combine elements), c (data kinds, Combine anywhere in the chain), d (THE
                          ALPHABET OF KEYS: types, names and attribute names that are dotted, prefixes
                          of one another, one character, with spaces, equal to keys the machinery
                          writes - a type is an atomic key, KeyKind; invariant TypesAvailable; defect
                          model PathKeys = carried over with the path-reading context helper; types
                          that are reserved keys are refuted by TLC, Variables_reserved.cfg)
spec/Trace_Variables.tla  validation of runs recorded with random variables / attributes

What is compared on the implementation (only what the statement fixes):
  data of Sequence and Compose = vn.getter(...v1.getter(x)...) (value from TLC); Combine data = tuple;
  context of Compose == context of Sequence (implementation against implementation);
  for plain chains with distinct non-empty types: context.variable contains name, attributes and type
  of the last variable, the attributes of every variable under its type, and compose = the types in
  application order (earlier types of a pre-existing typed context.variable first) - as printed by TLC;
  chains with a nested Compose: compose holds type names only, the chain's types in order;
  every other context key unchanged; var_context of every variable unchanged; repetition equal.
"""
import copy
import os
import random
import shutil
import tempfile
import threading

from .. import core
from .. import varlib as vl
from ..util import exc_name

ACTIONS = ("ApplyVar", "ApplyCompose", "ApplyCombine", "Repeat")


def check_scenario(ctx, chain, start, exp, stats, origin="s2c"):
    """Run one scenario on the real classes and compare with the expectation *exp* of the spec
    (exp = None: only implementation-against-implementation relations)."""
    startc = vl.dec(start["c"])
    sk = vl.start_kind(startc)
    n = len(chain)
    plain = all(e["k"] == "var" for e in chain)
    types = [vl.top_type(e) for e in chain]
    typed = plain and all(types) and len(set(types)) == n
    collides = bool(set(_prev_types(startc)) & set(t for e in chain for t in vl.all_types(e)))
    if collides:
        sk += "+same-type"
    tag = sk if plain else "nested"
    # the alphabet of keys: types that are dotted / one character / with spaces / machinery keys
    tag += vl.alphabet_tag(chain)
    x = vl.dec_data(start["d"])
    # data kinds: None, a tuple, a pair that itself looks like a (data, context) value
    dk = vl.data_kind(x)
    if dk != "int":
        tag += "+data-" + dk
    if exp is not None:
        combok, barable = exp["combok"], exp["barable"]
    else:
        combok = vl.defined(chain, x)[1]
        barable = not startc and not vl.looks_like_value(x)
    stats["data_" + dk] = stats.get("data_" + dk, 0) + 1
    stats["no_combine"] = stats.get("no_combine", 0) + int(not combok)
    detail = {"n": n, "start_kind": sk, "chain": [vl.sig(e) for e in chain], "start": {"d": vl.dec_data(start["d"]), "c": startc}}
    for bare in ((False, True) if barable else (False,)):
        try:
            o = vl.run_scenario(chain, start, bare, combok)
        except Exception as exc:   # noqa
            ctx.violation("%s:raised:%s:%s" % (origin, exc_name(exc), tag), dict(detail, exception=repr(exc)))
            return None
        ctx.case([origin, chain, start, bare], nontrivial=True)
        stats["scenarios"] += 1
        want = x
        ok_data = True
        try:
            for e in chain:
                want = vl.get(e, want)
        except Exception:   # noqa
            ok_data = False
        if exp is not None:
            want = vl.dec_data(exp["seq"]["d"])
            ok_data = True
        if o["seq_len"] != 2:
            ctx.violation("sequence:values:%d" % o["seq_len"], detail)
            return None
        if o["seq2"] != o["seq"]:
            ctx.violation("seq:not-repeatable:same-flow:" + tag, dict(detail, first=o["seq"], second=o["seq2"]))
        # a result does not change after it was produced (later values of the flow, later calls)
        if o["seq_later"] != o["seq_at_yield"]:
            ctx.violation("seq:result-changed-later:" + tag,
                          dict(detail, when_produced=o["seq_at_yield"], later=o["seq_later"]))
        # ---- same data
        if ok_data and (o["seq"][0] != want or o["compose"][0] != want):
            ctx.violation("compose:data:" + tag, dict(detail, expected=want, sequence=o["seq"][0],
                                                      compose=o["compose"][0]))
        # ---- same context (not demanded for a chain with an untyped variable on a value whose
        # context.variable is typed: outside "variables with distinct types", and the documentation
        # warns that an untyped variable loses the earlier descriptions - counted only)
        if vl.loses_types(chain) and _prev_types(startc):
            stats["untyped_after_typed"] += 1
            stats["untyped_after_typed_differs"] += int(o["seq"][1] != o["compose"][1])
        elif o["seq"][1] != o["compose"][1]:
            ctx.violation("compose-vs-sequence:context:" + tag,
                          dict(detail, sequence=o["seq"][1], compose=o["compose"][1]))
        # ---- Combine: tuple of the getters' results; name, dim, combine
        if combok:
            cwant = tuple(vl.get(e, x) for e in chain) if exp is None else vl.dec_data(exp["combine"]["d"])
            if o["combine"][0] != cwant:
                ctx.violation("combine:data:" + tag, dict(detail, expected=cwant, observed=o["combine"][0]))
        cvar = o["combine"][1].get("variable", {})
        if exp is not None and combok:
            ev = vl.dec(exp["combine"]["c"])["variable"]
            req = dict((key, ev[key]) for key in ("name", "dim", "combine"))
            if not vl.contains(cvar, req):
                ctx.violation("combine:context:" + tag, dict(detail, required=req, observed=cvar))
        # ---- description of the resulting variable
        for route in ("seq", "compose"):
            var = o[route][1].get("variable")
            if not isinstance(var, dict):
                ctx.violation("%s:no-variable:%s" % (route, tag), dict(detail, observed=o[route][1]))
                continue
            if var.get("name") != o["names"][-1]:
                ctx.violation("%s:name:%s" % (route, tag), dict(detail, observed=var.get("name")))
            if exp is not None and not vl.contains(var, vl.dec(exp["lastvc"])):
                ctx.violation("%s:description:attrs-of-last:%s" % (route, tag),
                              dict(detail, required=vl.dec(exp["lastvc"]), observed=var))
            if exp is not None and typed:
                ev = vl.dec(exp[route if route == "seq" else "compose"]["c"])["variable"]
                prev = _prev_types(startc)
                kept = [t for t in prev if t not in types]
                req = dict((key, v) for key, v in ev.items() if key not in kept)
                if collides:
                    # a pre-existing type equals a chain member's type: the statement does not fix
                    # the compose list then (only Compose == Sequence, checked above)
                    req.pop("compose", None)
                if not vl.contains(var, req):
                    miss = sorted(key for key in req if key not in var or var[key] != req[key])
                    what = "compose" if miss == ["compose"] else ("type-lost" if any(m in types for m in miss) else "attrs")
                    ctx.violation("%s:description:%s:%s" % (route, what, tag),
                                  dict(detail, required=req, observed=var, differing_keys=miss))
                else:
                    stats["exact"] += int(var == ev)
                    stats["typed_checked"] += 1
            elif not plain and not vl.loses_types(chain):
                # nested Compose in the chain: compose lists type names only, the chain's types in order
                comp = var.get("compose")
                if comp is not None:
                    names = set(t for e in chain for t in vl.all_types(e)) | set(_prev_types(startc))
                    garbage = [t for t in comp if t not in names]
                    order = [t for t in types if t]
                    if garbage or not vl.is_subsequence(order, comp):
                        ctx.violation("%s:description:compose-nested:%s" % (route, tag),
                                      dict(detail, observed=comp, chain_types=types))
        # ---- frame: nothing but context.variable changes
        for route in ("seq", "compose", "combine") if combok else ("seq", "compose"):
            rest = dict((key, v) for key, v in o[route][1].items() if key != "variable")
            rest0 = dict((key, v) for key, v in startc.items() if key != "variable")
            if rest != rest0:
                ctx.violation("%s:frame:%s" % (route, tag), dict(detail, observed=o[route][1]))
        # ---- the variables are unchanged, repetition gives equal results
        if not all(o["unchanged"]):
            ctx.violation("var_context-changed:" + tag, dict(detail, example=o["changed_example"]))
        for route in ("seq", "compose", "combine"):
            if o["r" + route] != o[route]:
                ctx.violation("%s:not-repeatable:%s" % (route, tag),
                              dict(detail, first=o[route], second=o["r" + route]))
    return o


def _prev_types(startc):
    var = startc.get("variable") or {}
    if "type" not in var:
        return []
    return list(var.get("compose", [var["type"]]))


# ---------------------------------------------------------------------------- C2S
ATTR_NAMES = ["unit", "latex", "range", "title", "scale", "label", "bins", "note",
              # names of the element protocol and of Variable's own members
              "run", "fill", "compute", "request", "reset", "fill_into", "var_context"]
TYPE_NAMES = ["particle", "coordinate", "length", "area", "detector", "energy", "time", "angle", "charge"]
# the alphabet of keys: dotted, prefixes of one another, one character, with spaces, machinery keys
# (never name / type / compose as a type; no string is both a type and an attribute name)
TYPE_ALPHABET = ["detector.near", "detector.near.x", "coordinate.x", "coord", "energy.", ".energy", ".", "a",
                 "b", " ", "far side", "dim", "combine", "variable", "latex-name", "data", "particle.e+.fast"]
# (a type with "_" cannot be written in the trace encoding, S splits at "_": S2C has latex_name)
ATTR_ALPHABET = ["unit.si", "range.min", "latex.name", "u", "two words", "detector.gain", "combined", "names",
                 "context", "getter.x", "..", "particle "]
NAME_ALPHABET = ["det.near", "name", "compose", "type", "two words", "a_b", "x.y.z", "_", ".", "dim"]
WORDS = ["mm", "cm", "e+", "MeV", "x", "far", "near", "a_b", "log", "0", "100", ""]


def random_attrs(rnd, alphabet=False):
    out = {}
    for name in rnd.sample(ATTR_NAMES + ATTR_ALPHABET if alphabet else ATTR_NAMES, rnd.choice([0, 0, 1, 1, 2, 3])):
        r = rnd.random()
        if r < 0.5:
            out[name] = vl.enc(rnd.choice(WORDS))
        elif r < 0.7:
            out[name] = vl.enc([rnd.choice(WORDS) for _ in range(rnd.randint(0, 3))])
        elif r < 0.78:
            out[name] = vl.enc(rnd.randint(0, 50))
        elif r < 0.85:
            out[name] = vl.enc(rnd.choice([None, {}, []]))
        else:
            out[name] = vl.enc({"lo": rnd.choice(WORDS), "hi": {"v": rnd.choice(WORDS)}})
    return out


INT_GETTERS = ["inc", "dbl", "tri", "sq", "add5"]
KIND_GETTERS = ["none", "pair", "first", "hit", "len", "layer", "dflt", "isnone"]


def random_scenario(rnd):
    """A random scenario whose getters can take the data they are given (VarSem!DefChain);
    one in three with the data kinds None / tuple / hit."""
    kinds = rnd.random() < 0.35
    for _ in range(200):
        chain, start = _random_scenario(rnd, kinds)
        if vl.defined(chain, vl.dec_data(start["d"]))[0]:
            return chain, start
    return _random_scenario(rnd, False)


def _random_scenario(rnd, kinds):
    n = rnd.randint(1, 5)
    # one scenario in three draws types, names and attribute names from the alphabet of keys as well
    alphabet = rnd.random() < 0.35
    types = rnd.sample(TYPE_NAMES + TYPE_ALPHABET if alphabet else TYPE_NAMES, n + 2)
    if kinds:
        getters = [rnd.choice(KIND_GETTERS) if rnd.random() < 0.7 else rnd.choice(INT_GETTERS) for _ in range(n)]
    else:
        getters = rnd.sample(INT_GETTERS, n)
    names = rnd.sample(["positron", "x", "y", "mm", "sq", "far", "E", "t", "phi", "q"]
                       + (NAME_ALPHABET if alphabet else []), n + 2)

    def var(j):
        return {"k": "var", "ch": [], "v": {"name": vl.enc(names[j])["l"], "type": types[j], "attrs": random_attrs(rnd, alphabet),
                                            "g": getters[j] if j < n else "inc"}}
    plain = [var(j) for j in range(n)]
    if rnd.random() < 0.2:
        plain[rnd.randrange(n)]["v"]["type"] = ""        # one variable without type
    chain = list(plain)
    if n >= 3 and rnd.random() < 0.3:
        j = rnd.randint(0, n - 2)
        chain[j:j + 2] = [{"k": "cmp", "ch": plain[j:j + 2],
                           "v": {"name": [], "type": "", "attrs": {}, "g": ""}}]
    # a Combine of two adjacent variables: in the last position; with data kinds anywhere
    j = rnd.randint(0, len(chain) - 2) if kinds and len(chain) >= 2 else len(chain) - 2
    if len(chain) >= 2 and chain[j]["k"] == "var" and chain[j + 1]["k"] == "var" \
            and rnd.random() < (0.4 if kinds else 0.2):
        kw = {"name": [], "type": "", "attrs": {}, "g": ""}
        if rnd.random() < 0.5:
            kw = {"name": ["K"], "type": "pair", "attrs": random_attrs(rnd), "g": ""}
        chain[j:j + 2] = [{"k": "cmb", "ch": chain[j:j + 2], "v": kw}]
    r = rnd.random()
    if r < 0.25:
        c = {}
    elif r < 0.4:
        c = {"data": {"run": rnd.choice(WORDS)}}
    elif r < 0.48:
        c = {"variable": rnd.choice([{}, None]), "other": rnd.choice(WORDS)}
    elif r < 0.55:
        c = {"variable": {"name": "old", "unit": "u"}, "other": rnd.choice(WORDS)}
    else:
        import lena.variables
        # sometimes the pre-existing variable has the type of a chain member (first/middle/last)
        otype = types[rnd.randrange(n)] if rnd.random() < 0.3 else types[n]
        old = lena.variables.Variable(names[n], lambda x: x, type=otype, **dict(
            (k, vl.dec(v)) for k, v in random_attrs(rnd, alphabet).items()))
        val = old((0, {}))
        if rnd.random() < 0.5:
            older = lena.variables.Variable(names[n + 1], lambda x: x, type=types[n + 1])
            val = old(older((0, {})))
        c = val[1]
        if rnd.random() < 0.3:
            c["data"] = {"run": "r2"}
    x = rnd.randint(0, 3)
    if kinds and rnd.random() < 0.6:
        x = rnd.choice([None, (x, x + 1), ((x, x + 1), {"layer": x}), (x, {"layer": 5})])
    return chain, {"d": vl.enc_data(x), "c": vl.enc(c)}


def nullv():
    return {"d": vl.enc_data(0), "c": vl.enc({})}


def c2s(ctx, n, stats):
    rnd = random.Random(ctx.seed * 104729 + 14)
    trace = []
    for _ in range(n):
        chain, start = random_scenario(rnd)
        o = check_scenario(ctx, chain, start, None, stats, origin="c2s")
        if o is None:
            continue
        rec = {"chain": chain, "start": start}
        for route in ("seq", "compose", "combine", "rseq", "rcompose", "rcombine"):
            rec[route] = {"d": vl.enc_data(o[route][0]), "c": vl.enc(o[route][1])}
        rec["unchanged"] = all(o["unchanged"])
        trace.append(rec)
    return trace


def demo_defect_models(ctx):
    for cfg, what, inv in (("Variables_extend.cfg", "ExtendByCompose=FALSE (list.extend(type string))", "ComposeEqSeq"),
                           ("Variables_nocopy.cfg", "CopyVarContext=FALSE", "VarUnchanged"),
                           ("Variables_viacall.cfg", "Variant=combine-via-call (Combine's getter goes through the "
                            "members' public call: data that looks like a value is split again)", "CombineTuple"),
                           ("Variables_skipnone.cfg", "Variant=skip-missing (__call__ leaves data None untouched, "
                            "the getters of Compose / Combine do not)", "DataEq"),
                           ("Variables_pathkeys.cfg", "PathKeys=TRUE (descriptions of earlier types carried over with "
                            "a helper that reads a key as a dot-separated path: a dotted type is lost)", "TypesAvailable"),
                           ("Variables_reserved.cfg", "a variable whose type is the reserved key 'name' (the statement "
                            "contradicts itself: outside the quantifier)", "TypedDeclarative")):
        res = ctx.mc("Variables", cfg, expect_violation="report")
        if res.exit == 0 or res.violated != inv:
            raise core.MachineryError("defect model %s does not violate %s (exit %s, %s)"
                                      % (cfg, inv, res.exit, res.violated))
        ctx.extra.setdefault("design_level_counterexamples", []).append(
            "%s: TLC violates %s after %d states" % (what, inv, res.distinct))


class Background(object):
    """Design-level TLC runs in a thread while the main thread exports and replays."""

    def __init__(self, jobs):
        self.exc = None
        self.thread = threading.Thread(target=self._work, args=(jobs,))
        self.thread.daemon = True
        self.thread.start()

    def _work(self, jobs):
        try:
            for job in jobs:
                job()
        except BaseException as exc:    # noqa
            self.exc = exc

    def join(self):
        self.thread.join()
        if self.exc is not None:
            raise self.exc


class Exporter(object):
    """ctx.export in a thread of its own (one single-worker TLC per configuration, side by side)."""

    def __init__(self, ctx, cfg):
        self.recs = None
        self.bg = Background([lambda: setattr(self, "recs", ctx.export(
            "Variables", cfg.replace(".cfg", "_export.cfg"), min_records=300))])

    def result(self):
        self.bg.join()
        return self.recs


def run(ctx):
    # private scratch directory: a concurrent invocation of the same check must not wipe ours
    # (core.Ctx makes one itself now; only an old shared build/<ID> is replaced)
    if os.path.basename(ctx.workdir) == ctx.pid:
        ctx.workdir = tempfile.mkdtemp(prefix=ctx.pid + "_", dir=core.BUILD)
    try:
        return _run(ctx)
    finally:
        shutil.rmtree(ctx.workdir, ignore_errors=True)


def _run(ctx):
    tag = "thorough" if ctx.thorough else "quick"
    ctx.assume("variables of a chain have pairwise distinct non-empty types; attribute names differ from "
               "name/type/compose/combine/dim and from type names; no type is one of the keys name / type / compose "
               "(the statement contradicts itself there: TLC refutes the closed form, Variables_reserved.cfg); "
               "any other string may be a type, a name or an attribute name")
    ctx.assume("getters are taken from a fixed table (integer functions; producers of None, pairs and hits; "
               "first / len / layer; default-for-None, is-None); a chain is applied to a starting value when no "
               "getter raises on the way; Combine(chain) when every member can take the starting data")
    ctx.assume("of a pre-existing typed context.variable only its compose/type order is required to persist, "
               "not which other keys survive")
    stats = {"scenarios": 0, "typed_checked": 0, "exact": 0, "untyped_after_typed": 0,
             "untyped_after_typed_differs": 0}
    # a: plain chains, b: nested Compose / Combine elements, c: data kinds (None, tuples, data that looks
    # like a (data, context) pair; Combine anywhere in the chain)
    # d: the alphabet of keys (types / names / attribute names: dotted, prefixes, one character, spaces,
    # machinery keys)
    cfgs = ["Variables_%s_%s.cfg" % (tag, x) for x in "abcd"]
    # design level in background threads; -coverage (slow) on a small configuration
    # quick tier: the export configurations carry the invariants themselves (one exploration per
    # configuration); thorough tier: separate model-checking runs with many workers
    jobs = [lambda: ctx.mc("Variables", "Variables_cov.cfg", coverage=True, must_cover=ACTIONS, workers=2)]
    if ctx.thorough:
        jobs += [(lambda cfg=cfg: ctx.mc("Variables", cfg)) for cfg in cfgs]
    bg = Background(jobs)
    bg2 = Background([lambda: demo_defect_models(ctx)])
    exports = [Exporter(ctx, cfg) for cfg in cfgs]
    for exp in exports:
        recs = exp.result()
        check_key_kinds(recs, stats)
        for r in recs:
            check_scenario(ctx, r["chain"], r["start"], r, stats)
        ctx.sample({"spec_behaviour": _brief(recs[len(recs) // 2])})
    trace = c2s(ctx, 8000 if ctx.thorough else 400, stats)
    ctx.trace_check("Trace_Variables", "Trace_Variables.cfg", trace,
                    lambda r: vl.start_kind(vl.dec(r["start"]["c"]))
                    if all(e["k"] == "var" for e in r["chain"]) else "nested")
    ctx.binding_demo("Trace_Variables", "Trace_Variables.cfg", trace, corrupt)
    bg.join()
    bg2.join()
    ctx.extra["c14"] = stats
    return ctx.finish(
        rule="S2C: every (chain, starting value) of the bounded machine (quick: chains of 1..4 of 4 plain variables, "
             "nested Compose/Combine elements over 3; thorough: 1..5 of 5, nested over 4) x 6 starting contexts x "
             "2 data values, and chains of size 1..3 (1..4) over 6 (8) variables and 4 (13) Combines producing / "
             "taking None, tuples and data that looks like a (data, context) pair x starting data integer / None / "
             "hit (/ tuple), and chains of size 1..3 (1..4) over 7 (9) variables whose types / names / attribute "
             "names come from the alphabet of keys (dotted, prefixes of one another, one character, with spaces, "
             "machinery keys) with 4 nested elements x 3 starting contexts, executed as Sequence, Compose and Combine on the real classes, twice; C2S: seeded "
             "random variables with random attribute dictionaries, chains 1..5, a third with the data kinds, "
             "validated by Trace_Variables",
        exhaustive=True)


def check_key_kinds(recs, stats):
    """Binding of Variables!KeyKind: the class the specification gives to every type / attribute name
    of a scenario is the class of the string the harness hands to lena."""
    for r in recs:
        kk = r.get("keykinds") or {}
        for key, kind in (kk.items() if isinstance(kk, dict) else ()):
            if vl.key_kind(key) != kind:
                raise core.MachineryError("Variables!KeyKind says %r is %s, the string is %s"
                                          % (key, kind, vl.key_kind(key)))
            stats["keys_" + kind] = stats.get("keys_" + kind, 0) + 1


def corrupt(r):
    """A recorded Compose result whose compose list lost its last type."""
    var = r["compose"]["c"]["m"].get("variable")
    if var and "compose" in var["m"] and len(var["m"]["compose"]["l"]) > 1 \
            and all(e["k"] == "var" for e in r["chain"]):
        bad = copy.deepcopy(r)
        bad["compose"]["c"]["m"]["variable"]["m"]["compose"]["l"].pop()
        return bad
    return None


def _brief(rec):
    return {"chain": [vl.sig(e) for e in rec["chain"]], "start": vl.dec(rec["start"]["c"]),
            "x": vl.dec_data(rec["start"]["d"]),
            "expected": {"data": vl.dec_data(rec["seq"]["d"]), "context": vl.dec(rec["seq"]["c"]),
                         "combine_data": vl.dec_data(rec["combine"]["d"])}}
