"""C08  Context addressing, formatting and update elements touch exactly the named item.

spec/CtxOpsRef.tla      documented meaning: GetRef, ContainsRef, Render, Canon, UpdateOutcomes,
                        DeleteOutcomes, FuwOutcomes, FormatOutcome, S2DOutcome, FrameOK
spec/ContextOps.tla     the machine: one call per behaviour, one action per loop body / stage;
                        operational = reference; Frame, UpdateTarget, UpdateMissing, ContainsAgreesWithGet,
                        GetAfterStrToDict, FormatExact, CanonInjective, OnlyDocumentedExceptions, QueriesPure
spec/Trace_ContextOps.tla  validation of recorded calls (seeded random, repository test-suite)

Elements are applied to flows: the same UpdateContext / DeleteContext / SetContext instance (and a second
one built from the same argument objects) runs over three values; spec: ElementStateless, FlowIsFunction.

S2C: every (call, context) of the bounded model is exported with its allowed outcomes and executed on
get_recursively (list / dotted string / both dictionary notations), contains, str_to_dict, str_to_list,
format_context, to_string, UpdateContext, DeleteContext, format_update_with (and SetContext), with the
symbolic leaves instantiated by Python values.
"""
import copy
import itertools
import json
import os
import random
import subprocess
import sys

from .. import core
from .. import ctxlib as cl
from ..util import exc_name, reach_ids

ACTIONS = ("GDNorm", "GWalk", "GLast", "CWalk", "CLast", "S2D", "FParse", "FRender", "TStr",
           "UMake", "UResolve", "UWalk", "USet", "DMake", "DEmpty", "DWalk", "DDel", "WFormat", "WUpdate")
BAD_TEMPLATES = ("{{a}", "{{a}}}")       # unbalanced braces (format_context, format_update_with)
BAD_JINJA = ("{{a}", "{{")    # template syntax errors (UpdateContext)
STRING_CLASSES = [i for i, c in enumerate(cl.PYCLASSES) if c[0] in ("estr", "str")]
JSON_POOL = [i for i, c in enumerate(cl.PYCLASSES) if c[0] != "etuple"]   # () and [] have the same JSON


class Default(object):
    """the default= argument (compared by value after a deep copy)"""

    def __init__(self, tag="dflt"):
        self.tag = tag

    def __eq__(self, other):
        return isinstance(other, Default) and other.tag == self.tag

    def __ne__(self, other):
        return not self == other

    def __hash__(self):
        return hash(self.tag)

    def __repr__(self):
        return "Default()"


def observe(fn):
    try:
        return {"ok": True, "r": fn()}
    except Exception as exc:     # noqa
        return {"ok": False, "exc": exc_name(exc), "msg": repr(exc)[:120]}


def render(rend, pyctx, tpl, fmt):
    """concatenate the tokens of a rendered template; values are taken from the real context"""
    out = []
    for tok, t in zip(rend, tpl):
        if tok["t"] == "lit":
            out.append(tok["s"])
        else:
            found, v = cl.lookup(pyctx, t["p"])
            conv = t.get("cv", "")
            f = repr if conv == "r" else str if conv == "s" else fmt
            out.append(f(v) if found else "")
    return "".join(out)


class Replay(object):
    def __init__(self, ctx, fns, lena, rnd):
        self.ctx, self.fns, self.lena, self.rnd = ctx, fns, lena, rnd
        self.fails = cl.Fails()
        self.ncalls = 0

    def fail(self, vkey, rec, **kw):
        d = {"call": rec["call"], "context": kw.pop("context", None)}
        d.update(kw)
        self.fails.add(vkey, cl.size(rec["ctx"]) + len(rec["call"]["path"]), d)

    # ------------------------------------------------------------ helpers
    def expected_values(self, group, val, special):
        """allowed outcomes, decoded: [{"ok", "r" | "exc", "post"}]"""
        outs = []
        for rec in group:
            o = rec["out"]
            e = {"ok": o["ok"], "post": cl.decode_s(rec["post"], val, special)}
            if o["ok"]:
                r = o.get("r")
                e["r"] = cl.decode_s(r, val, special) if isinstance(r, dict) and "k" in r else r
            else:
                e["exc"] = o["exc"]
            outs.append(e)
        return outs

    # ------------------------------------------------------------ queries
    def rp_get(self, rec, val):
        c = rec["call"]
        dflt = cl.default_object(c["o"]["dv"], Default())
        special = {"$default": dflt}
        exp = self.expected_values([rec], val, special)[0]
        for name, keys in cl.key_notations(c["path"]):
            pyctx = cl.decode_s(rec["ctx"], val, special, self.rnd)
            snap = copy.deepcopy(pyctx)
            if c["dflt"]:
                obs = observe(lambda: self.fns.get_recursively(pyctx, keys, dflt))
                if self.rnd.random() < 0.3:
                    obs = observe(lambda: self.fns.get_recursively(pyctx, keys, default=dflt))
            else:
                obs = observe(lambda: self.fns.get_recursively(pyctx, keys))
            self.ncalls += 1
            if obs["ok"] != exp["ok"]:
                kind = ("raised:" + obs["exc"]) if not obs["ok"] else "found-absent"
                self.fail("get_recursively:%s:%s" % (name, kind), rec, context=snap, keys=keys, observed=obs,
                          expected=exp)
            elif not obs["ok"]:
                if obs["exc"] != exp["exc"]:
                    self.fail("get_recursively:%s:raised:%s" % (name, obs["exc"]), rec, context=snap, keys=keys)
            else:
                found, there = cl.lookup(pyctx, c["path"])
                if not found and (type(obs["r"]) is not type(dflt) or obs["r"] != dflt):
                    self.fail("get_recursively:%s:default-not-returned" % name, rec, context=snap, keys=keys,
                              observed=repr(obs["r"]), default=repr(dflt))
                elif obs["r"] != exp["r"] or (found and obs["r"] is not there):
                    self.fail("get_recursively:%s:wrong-value" % name, rec, context=snap, keys=keys,
                              observed=obs["r"], expected=exp["r"])
            if pyctx != snap:
                self.fail("get_recursively:context-changed", rec, context=snap, after=pyctx)

    def key_dicts(self, c):
        """dictionaries for the key notation described by the call: [(description, dictionary)]"""
        path, uk, lvl = c["path"], c["uk"], c["lvl"]
        if uk == "kt-tuple":
            return [("tuple", tuple(path))]
        if uk == "kt-list-nonstr":
            return [("list with None", list(path) + [None]), ("list with 0", [0] + list(path)),
                    ("list with a tuple", list(path) + [("a",)])]
        if uk == "kt-none":
            return [("None", None)]
        if uk == "kt-int":
            return [("0", 0), ("5.5", 5.5), ("a set", set(path))]
        out = []
        for extra_first in ((False, True) if lvl else (False,)):
            for extra_val in (("x", {"y": "z"}) if lvl else (None,)):
                if uk == "kd-str":
                    cur, keys = path[-1], path[:-1]
                elif uk == "kd-nonstr":
                    cur, keys = 5, path
                else:
                    cur, keys = {}, path
                for depth in range(len(keys), 0, -1):
                    k = keys[depth - 1]
                    if depth == lvl:
                        cur = {"zz": extra_val, k: cur} if extra_first else {k: cur, "zz": extra_val}
                    else:
                        cur = {k: cur}
                out.append(("extra key %s at level %d" % ("first" if extra_first else "last", lvl) if lvl else uk, cur))
        return out

    def rp_getd(self, group, val):
        rec = group[0]
        c = rec["call"]
        dflt = cl.default_object(c["o"]["dv"], Default())
        special = {"$default": dflt}
        allowed = []
        for r in group:
            o = r["out"]
            if o["ok"]:
                allowed.append(("ok", cl.decode_s(o["r"], val, special)))
            else:
                allowed.append(("exc", o["exc"]))
        for what, kd in self.key_dicts(c):
            pyctx = cl.decode_s(rec["ctx"], val, special, self.rnd)
            snap = copy.deepcopy(pyctx)
            kd_snap = copy.deepcopy(kd)
            if c["dflt"]:
                obs = observe(lambda: self.fns.get_recursively(pyctx, kd, dflt))
            else:
                obs = observe(lambda: self.fns.get_recursively(pyctx, kd))
            self.ncalls += 1
            if obs["ok"]:
                good = any(k == "ok" and v == obs["r"] for k, v in allowed)
                if good and not cl.lookup(snap, c["path"])[0]:
                    good = type(obs["r"]) is type(dflt)         # the default itself (0 is not False)
                kind = "accepted" if not any(k == "ok" for k, _ in allowed) else "wrong-value"
            else:
                good = ("exc", obs["exc"]) in allowed
                kind = "raised:" + obs["exc"]
            if not good:
                level = ("two-keys-at-level-%d" % c["lvl"]) if c["lvl"] else c["uk"]
                if c["uk"].startswith("kt-"):
                    level = "wrong-type:" + what
                self.fail("get_recursively:key-dictionary:%s:%s" % (level, kind), rec, context=snap, keys=repr(kd),
                          observed=repr(obs)[:120], allowed=repr(allowed)[:200])
            if pyctx != snap or kd != kd_snap:
                self.fail("get_recursively:key-dictionary:argument-changed", rec, context=snap, keys=repr(kd_snap))

    def rp_contains(self, rec, val):
        c = rec["call"]
        pyctx = cl.decode_s(rec["ctx"], val, {}, self.rnd)
        snap = copy.deepcopy(pyctx)
        s = ".".join(c["path"])
        obs = observe(lambda: self.fns.contains(pyctx, s))
        self.ncalls += 1
        if not obs["ok"]:
            self.fail("contains:raised:%s" % obs["exc"], rec, context=snap, s=s, observed=obs,
                      expected=rec["out"]["r"])
        elif bool(obs["r"]) != rec["out"]["r"] or not isinstance(obs["r"], bool):
            self.fail("contains:%s" % ("true-for-absent" if obs["r"] else "false-for-present"), rec,
                      context=snap, s=s, expected=rec["out"]["r"])
        if pyctx != snap:
            self.fail("contains:context-changed", rec, context=snap, after=pyctx)

    def rp_s2d(self, rec, val):
        c, out = rec["call"], rec["out"]
        path = c["path"]
        s = ".".join(path)
        f = self.fns
        for v in (0, None, "", [1], {"q": {}}, "v", Default()):
            special = {"$value": v}
            obs = observe(lambda: f.str_to_dict(s, v))
            self.ncalls += 1
            exp = out["withval"]
            if not exp["ok"]:
                if obs["ok"] or obs["exc"] != exp["exc"]:
                    self.fail("str_to_dict:value:%s" % (obs.get("exc") or "accepted"), rec, s=s, observed=obs)
                continue
            if not obs["ok"]:
                self.fail("str_to_dict:value:raised:%s" % obs["exc"], rec, s=s, observed=obs)
                continue
            want = cl.decode_s(exp["r"], val, special)
            if obs["r"] != want:
                self.fail("str_to_dict:value:wrong-dict", rec, s=s, observed=obs["r"], expected=want)
                continue
            # get_recursively(str_to_dict(s, v), s) is v, in every notation
            for name, keys in cl.key_notations(path):
                got = observe(lambda: f.get_recursively(obs["r"], keys))
                if not got["ok"] or got["r"] is not v:
                    self.fail("get_after_str_to_dict:%s" % name, rec, s=s, keys=keys, observed=got)
        obs = observe(lambda: f.str_to_dict(s))
        exp = out["noval"]
        if exp["ok"]:
            want = cl.decode_s(exp["r"], val, {})
            if not obs["ok"] or obs["r"] != want:
                self.fail("str_to_dict:no-value:wrong", rec, s=s, observed=obs, expected=want)
        elif obs["ok"] or obs["exc"] != exp["exc"]:
            self.fail("str_to_dict:no-value:%s" % (obs.get("exc") or "accepted"), rec, s=s, observed=obs)
        obs = observe(lambda: f.str_to_list(s))
        if not obs["ok"] or obs["r"] != list(out["list"]):
            self.fail("str_to_list:wrong", rec, s=s, observed=obs)
        self.ncalls += 2

    def rp_format(self, rec, val):
        c, out = rec["call"], rec["out"]
        if c["uk"] == "bad":
            texts = list(BAD_TEMPLATES) + ["{a}"]
        elif c["uk"] == "simple":
            texts = [5, None, ["{{a}}"]]
        else:
            texts = [cl.template_text(c["tpl"])]
        for text in texts:
            pyctx = cl.decode_s(rec["ctx"], val, {}, self.rnd)
            snap = copy.deepcopy(pyctx)
            made = observe(lambda: self.fns.format_context(text))
            obs = made if not made["ok"] else observe(lambda: made["r"](pyctx))
            self.ncalls += 1
            if not out["ok"]:
                if obs["ok"] or obs["exc"] != out["exc"]:
                    self.fail("format_context:%s:%s" % (c["uk"], obs.get("exc") or "accepted"), rec, context=snap,
                              template=text, observed=obs, expected=out)
                continue
            want = render(out["r"], pyctx, c["tpl"], lambda v: "{}".format(v))
            # the values TLC names are the ones in the context
            for tok, t in zip(out["r"], c["tpl"]):
                if tok["t"] == "val" and cl.lookup(pyctx, t["p"])[1] != cl.decode_s(tok["v"], val, {}):
                    raise core.MachineryError("format: harness and spec disagree on %r" % (t,))
            if not obs["ok"]:
                self.fail("format_context:raised:%s" % obs["exc"], rec, context=snap, template=text, observed=obs)
            elif obs["r"] != want:
                self.fail("format_context:wrong-string", rec, context=snap, template=text, observed=obs["r"],
                          expected=want)
            if pyctx != snap:
                self.fail("format_context:context-changed", rec, context=snap, after=pyctx)

    def rp_tostr(self, rec, val):
        out = rec["out"]

        def text(toks):
            parts = []
            for t in toks:
                if t["t"] == "sym":
                    parts.append(t["s"])
                elif t["t"] == "key":
                    parts.append(json.dumps(t["s"]))
                else:
                    leaf = {"k": "L", "v": t["s"], "s": t["s"] if t["s"] != "kb" else None}
                    if t["s"] == "kb":
                        leaf["s"] = self.kb
                    parts.append(json.dumps(cl.decode_s(leaf, val, {}), separators=(",", ":")))
            return "".join(parts)
        strings = []
        for enc, toks in ((rec["ctx"], out["r"]), (rec["ctx2"], out["r2"])):
            want = text(toks)
            seen = set()
            for _ in range(2):
                pyctx = cl.decode_s(enc, val, {}, self.rnd, reps=False)   # another key insertion order each time
                obs = observe(lambda: self.fns.to_string(pyctx))
                self.ncalls += 1
                if not obs["ok"]:
                    self.fail("to_string:raised:%s" % obs["exc"], rec, context=pyctx, observed=obs)
                    return
                seen.add(obs["r"])
            if len(seen) != 1:
                self.fail("to_string:depends-on-key-order", rec, context=pyctx, observed=sorted(seen))
            elif want not in seen:
                self.fail("to_string:wrong-string", rec, context=pyctx, observed=sorted(seen), expected=want)
            strings.append(sorted(seen)[0])
        if (strings[0] == strings[1]) != out["same"]:
            self.fail("to_string:%s" % ("different-dicts-same-string" if not out["same"] else "equal-dicts-differ"),
                      rec, strings=strings)

    # ------------------------------------------------------------ updating elements
    @staticmethod
    def outcome_matches(e, obs, pyctx):
        """is the observed outcome (+ context afterwards) the allowed outcome e ?"""
        if e["ok"] != obs["ok"]:
            return False
        if not e["ok"]:
            return e["exc"] == obs["exc"] and pyctx == e["post"]
        return pyctx == e["post"]

    def modes_explaining(self, recs, val, obs, pyctx, j=None):
        """DeleteContext with an empty key: the policies (mode of the specification) under which the
        element does what was observed (j: number of the value in a flow)"""
        modes = set()
        for r in recs:
            x = r if j is None else r["results"][j]
            e = {"ok": x["out"]["ok"], "post": cl.decode_s(x["post"], val, {})}
            if not e["ok"]:
                e["exc"] = x["out"]["exc"]
            if self.outcome_matches(e, obs, pyctx):
                modes.add(r["mode"])
        return modes

    def judge(self, name, group, val, special, obs, pyctx, snap, data=None, data_out=None, **kw):
        """compare an observed outcome (+ context afterwards) with the allowed ones"""
        rec = group[0]
        exps = kw.pop("exps", None) or self.expected_values(group, val, special)
        if cl.has_cycle(pyctx):
            self.fail("%s:context-contains-itself" % name, rec, context=snap, **kw)
            return False
        if any(self.outcome_matches(e, obs, pyctx) for e in exps):
            return True
        e = exps[0]
        if not obs["ok"] and (e["ok"] or obs["exc"] != e.get("exc")):
            key = "%s:raised:%s" % (name, obs["exc"])
        elif obs["ok"] and not e["ok"]:
            key = "%s:no-%s" % (name, e["exc"])
        else:
            mm = cl.mismatches(e["post"], pyctx)
            key = "%s:context-after:%s" % (name, mm[0][1] if mm else "differs")
        self.fail(key, rec, context=snap, observed=obs if not obs["ok"] else "returned", after=pyctx,
                  expected=[dict((k, v) for k, v in x.items() if k != "r") for x in exps], **kw)
        return False

    def update_args(self, c, val, special):
        o = c["o"]
        if c["uk"] == "simple":
            update = cl.decode_s(c["uv"], val, special, self.rnd)
        elif c["uk"] == "bad":
            update = self.rnd.choice(BAD_JINJA)
        else:
            update = cl.template_text(c["tpl"])
        kwargs = {}
        if o["value"]:
            kwargs["value"] = True
        if o["def"]:
            kwargs["default"] = cl.default_object(o["dv"], special["$default"])
        if o["skip"]:
            kwargs["skip_on_missing"] = True
        if o["raise"]:
            kwargs["raise_on_missing"] = True
        if not o["rec"]:
            kwargs["recursively"] = False
        return update, kwargs

    def rp_update(self, group, val):
        rec = group[0]
        c = rec["call"]
        path = c["path"]
        dflt = Default()
        for rep in range(2):
            pyctx = cl.decode_s(rec["ctx"], val, {}, self.rnd)
            snap = copy.deepcopy(pyctx)
            special = {"$default": dflt,
                       "$rendered": render(rec["rend"], pyctx, c["tpl"], str)}
            update, kwargs = self.update_args(c, val, special)
            if rep == 0:
                made = observe(lambda: self.fns.UpdateContext(".".join(path), update, **kwargs))
                el = made.get("r")
            data = ["data", rep]
            bare = not pyctx and self.rnd.random() < 0.5      # a value without context
            value = data if bare else (data, pyctx)
            if made["ok"]:
                obs = observe(lambda: el(value))
            else:
                obs = made
            self.ncalls += 1
            after = pyctx
            if obs["ok"]:
                r = obs["r"]
                if not (isinstance(r, tuple) and len(r) == 2 and isinstance(r[1], dict)):
                    if r is value and bare:
                        after = {}          # skipped: the value came back as it was
                    else:
                        self.fail("UpdateContext:result-not-a-pair", rec, context=snap, observed=repr(r)[:80])
                        return
                else:
                    after = r[1]
                    if r[0] is not data or data != ["data", rep]:
                        self.fail("UpdateContext:data-touched", rec, context=snap, observed=repr(r[0])[:80])
                    if not bare and r[1] is not pyctx and not cl.has_cycle(r[1]) and r[1] != pyctx:
                        self.fail("UpdateContext:context-of-the-value-not-updated", rec, context=snap)
            if not self.judge("UpdateContext" if rep == 0 else "UpdateContext(called again)", group, val, special,
                              obs, after, snap, update=repr(update)[:60], options=kwargs):
                return
            if obs["ok"] and after != snap:
                # the element is used again below: what happens to this result afterwards must not
                # change the value the element was given
                found, stored = cl.lookup(after, path)
                if rep == 0 and found and c["uk"] == "simple":
                    if isinstance(stored, dict):
                        stored["changed-later"] = 1
                    elif isinstance(stored, list):
                        stored.append("changed-later")
                # a context item used as the update is deeply copied
                if c["uk"] == "str" and c["o"]["value"]:
                    src = c["tpl"][0]["p"]
                    if not (src[:len(path)] == path or path[:len(src)] == src):
                        fs, s_obj = cl.lookup(after, src)
                        ft, t_obj = cl.lookup(after, path)
                        if fs and ft and set(reach_ids(s_obj)) & set(reach_ids(t_obj)):
                            self.fail("UpdateContext:context-value-not-copied", rec, context=snap)
            if not made["ok"]:
                return

    def rp_delete(self, group, val):
        rec = group[0]
        path = rec["call"]["path"]
        # the specification says in which notations the path can be written; its records differ in the
        # notation only where the documentation leaves the behaviour open (an empty key)
        by_nt = {}
        for r in group:
            by_nt.setdefault(r["nt"], []).append(r)
        forms = [("list", list(path)), ("tuple", tuple(path)), ("str", ".".join(path))]
        if ("str" in by_nt) != cl.dotted_ok(path):
            raise core.MachineryError("delete: harness and spec disagree on the string notation of %r" % (path,))
        possible, all_ok, seen = None, True, []
        for name, key in forms:
            if name not in by_nt:
                continue
            sub = by_nt[name]
            pyctx = cl.decode_s(rec["ctx"], val, {}, self.rnd)
            snap = copy.deepcopy(pyctx)
            data = self.rnd.choice([["data"], ["data"], 0, None, "", (), False])     # data of every truth value
            data_snap = copy.deepcopy(data)
            # a value without context (for an empty key only in one notation: the others are compared)
            bare = not pyctx and not isinstance(data, tuple) and self.rnd.random() < 0.5 and (path or name == "tuple")
            value = data if bare else (data, pyctx)
            made = observe(lambda: self.fns.DeleteContext(key))
            obs = made if not made["ok"] else observe(lambda: made["r"](value))
            self.ncalls += 1
            if obs["ok"] and bare:
                r = obs["r"]
                if not (r is data or (isinstance(r, tuple) and len(r) == 2 and r[0] is data and r[1] == {})):
                    self.fail("DeleteContext:value-without-context-changed", rec, observed=repr(r)[:80])
                continue
            if obs["ok"]:
                r = obs["r"]
                if not (isinstance(r, tuple) and len(r) == 2 and r[0] is data and data == data_snap):
                    self.fail("DeleteContext:data-touched", rec, context=snap, observed=repr(r)[:80])
                    all_ok = False
                    continue
                if r[1] is not pyctx:
                    pyctx = r[1]
            tag = "DeleteContext" if path else "DeleteContext(empty key)"
            if not self.judge(tag, sub, val, {}, obs, pyctx, snap, key_arg=repr(key)):
                all_ok = False
            elif not path:
                modes = self.modes_explaining(sub, val, obs, pyctx)
                possible = modes if possible is None else possible & modes
                seen.append((repr(key), sorted(modes)))
        # the notations address the same item: one policy of the element explains what it did in all of them
        if not path and all_ok and possible is not None and not possible:
            self.fail("DeleteContext(empty key):notations-disagree", rec, context=cl.decode_s(rec["ctx"], val, {}),
                      behaviour_by_notation=seen)

    def rp_fuw(self, group, val):
        rec = group[0]
        c = rec["call"]
        path = c["path"]
        key = ".".join(path)
        routes = ["format_update_with"]
        if hasattr(self.lena.meta, "SetContext"):
            routes.append("SetContext")
        for route in routes:
            pyctx = cl.decode_s(rec["ctx"], val, {}, self.rnd)
            snap = copy.deepcopy(pyctx)
            special = {"$rendered": render(rec["rend"], pyctx, c["tpl"], lambda v: "{}".format(v))}
            if c["uk"] == "simple":
                value = cl.decode_s(c["uv"], val, special, self.rnd)
            elif c["uk"] == "bad":
                value = self.rnd.choice(BAD_TEMPLATES)
            else:
                value = cl.template_text(c["tpl"])
            if route == "format_update_with":
                obs = observe(lambda: self.fns.format_update_with(key, value, pyctx))
                after = pyctx
            else:
                def via_set_context():
                    el = self.lena.meta.SetContext(key, value)
                    el._set_context(pyctx)
                    return el._get_context()
                obs = observe(via_set_context)
                if obs["ok"] and not isinstance(obs["r"], dict):
                    continue
                after = obs["r"] if obs["ok"] else pyctx
            self.ncalls += 1
            self.judge(route, group, val, special, obs, after, snap, key_arg=key, value=repr(value)[:60])


    # ------------------------------------------------------------ one element over a flow of values
    def flow_expected(self, group, j, val, special):
        """allowed [out, post] of value j of the flow (over the alternative behaviours of the spec)"""
        outs = []
        for r in group:
            if j < len(r["results"]):
                x = r["results"][j]
                e = {"ok": x["out"]["ok"], "post": cl.decode_s(x["post"], val, special)}
                if not e["ok"]:
                    e["exc"] = x["out"]["exc"]
                if e not in outs:
                    outs.append(e)
        return outs

    def args_changed(self, name, rec, now, snap, what):
        try:
            same = now == snap
        except RecursionError:
            same = False
        if not same:
            self.fail("%s:constructor-argument-changed" % name, rec, argument=what, before=repr(snap)[:120],
                      after=repr(now)[:120])

    def rp_flow(self, group, val):
        """The same element instance (and a second one built from the same argument objects) is applied
        to every value of the flow; every result must be the single-call result for that value, and the
        argument objects given to the constructor stay as they were."""
        rec = group[0]
        c, flow, path = rec["call"], rec["flow"], rec["call"]["path"]
        op = c["op"]
        pristine_default = ["dflt"]

        def special_for(j, pyctx, fmt):
            return {"$default": copy.deepcopy(pristine_default),
                    "$rendered": render(rec["rends"][j], pyctx, c["tpl"], fmt)}

        def disturb(after):
            # what happens to a result afterwards must not reach the element or later results
            found, stored = cl.lookup(after, path)
            if found and isinstance(stored, dict):
                stored["changed-later"] = 1
            elif found and isinstance(stored, list):
                stored.append("changed-later")

        if op == "format":
            text = cl.template_text(c["tpl"])
            made = observe(lambda: self.fns.format_context(text))
            if not made["ok"]:
                self.fail("format_context:raised:%s" % made["exc"], rec, template=text)
                return
            fmt = made["r"]
            for j in range(len(flow)):
                pyctx = cl.decode_s(flow[j], val, {}, self.rnd)
                snap = copy.deepcopy(pyctx)
                obs = observe(lambda: fmt(pyctx))
                self.ncalls += 1
                exp = rec["results"][j]["out"]
                if not exp["ok"]:
                    if obs["ok"] or obs["exc"] != exp["exc"]:
                        self.fail("format_context(formatter reused):%s" % (obs.get("exc") or "no-" + exp["exc"]), rec,
                                  context=snap, template=text, value_number=j, flow=flow, observed=repr(obs)[:120])
                        return
                else:
                    want = render(exp["r"], pyctx, c["tpl"], lambda v: "{}".format(v))
                    if not obs["ok"] or obs["r"] != want:
                        self.fail("format_context(formatter reused):wrong-string", rec, context=snap, template=text,
                                  value_number=j, flow=flow, observed=repr(obs)[:120], expected=want)
                        return
                if pyctx != snap:
                    self.fail("format_context:context-changed", rec, context=snap, after=pyctx)
            return
        if op == "update":
            pristine_default = cl.default_object(c["o"]["dv"], ["dflt"])
            dflt = copy.deepcopy(pristine_default)
            update, kwargs = self.update_args(c, val, {"$default": dflt})
            subctx = ".".join(path)
            snap_args = copy.deepcopy((update, kwargs))
            made = [observe(lambda: self.fns.UpdateContext(subctx, update, **kwargs)) for _ in range(2)]
            self.args_changed("UpdateContext", rec, (update, kwargs), snap_args, "update / default")
            if not (made[0]["ok"] and made[1]["ok"]):
                pyctx = cl.decode_s(flow[0], val, {})
                bad = made[0] if not made[0]["ok"] else made[1]
                self.judge("UpdateContext", group, val, {}, bad, pyctx, copy.deepcopy(pyctx),
                           exps=self.flow_expected(group, 0, val, {"$default": dflt, "$rendered": ""}))
                return
            for j in range(len(flow)):
                for which, m in enumerate(made):
                    pyctx = cl.decode_s(flow[j], val, {}, self.rnd)
                    snap = copy.deepcopy(pyctx)
                    special = special_for(j, pyctx, str)
                    data = ["data", j]
                    obs = observe(lambda: m["r"]((data, pyctx)))
                    self.ncalls += 1
                    after = pyctx
                    if obs["ok"]:
                        r = obs["r"]
                        if not (isinstance(r, tuple) and len(r) == 2 and isinstance(r[1], dict)
                                and r[0] is data and data == ["data", j]):
                            self.fail("UpdateContext(reused):data-touched", rec, context=snap, value_number=j)
                            return
                        after = r[1]
                    name = "UpdateContext(reused)" if which == 0 else "UpdateContext(second element, same arguments)"
                    if not self.judge(name, group, val, special, obs, after, snap, value_number=j, flow=flow,
                                      exps=self.flow_expected(group, j, val, special)):
                        return
                    if obs["ok"] and (c["uk"] == "simple" or c["o"]["def"]):
                        disturb(after)
            self.args_changed("UpdateContext", rec, (update, kwargs), snap_args, "update / default")
        elif op == "delete":
            by_nt = {}
            for r in group:
                by_nt.setdefault(r["nt"], []).append(r)
            forms = [("list", list(path)), ("tuple", tuple(path)), ("str", ".".join(path))]
            if ("str" in by_nt) != cl.dotted_ok(path):
                raise core.MachineryError("delete: harness and spec disagree on the string notation of %r" % (path,))
            possible, all_ok = {}, True        # value number -> policies explaining every notation
            for fname, key in forms:
                if fname not in by_nt:
                    continue
                sub = by_nt[fname]
                snap_key = copy.deepcopy(key)
                made = [observe(lambda: self.fns.DeleteContext(key)) for _ in range(2)]
                if not (made[0]["ok"] and made[1]["ok"]):
                    pyctx = cl.decode_s(flow[0], val, {})
                    bad = made[0] if not made[0]["ok"] else made[1]
                    if not self.judge("DeleteContext" if path else "DeleteContext(empty key)", sub, val, {}, bad, pyctx,
                                      copy.deepcopy(pyctx), exps=self.flow_expected(sub, 0, val, {})):
                        all_ok = False
                    elif not path:
                        modes = self.modes_explaining(sub, val, bad, pyctx, 0)
                        possible[0] = possible.get(0, modes) & modes
                    continue
                stop = False
                for j in range(len(flow)):
                    for which, m in enumerate(made):
                        pyctx = cl.decode_s(flow[j], val, {}, self.rnd)
                        snap = copy.deepcopy(pyctx)
                        data = ["data"]
                        obs = observe(lambda: m["r"]((data, pyctx)))
                        self.ncalls += 1
                        after = pyctx
                        if obs["ok"] and isinstance(obs["r"], tuple) and len(obs["r"]) == 2 \
                                and isinstance(obs["r"][1], dict):
                            after = obs["r"][1]
                        name = "DeleteContext(reused)" if which == 0 else "DeleteContext(second element, same arguments)"
                        if not path:
                            name = "DeleteContext(empty key)"
                        if not self.judge(name, sub, val, {}, obs, after, snap, value_number=j, flow=flow,
                                          key_arg=repr(key), exps=self.flow_expected(sub, j, val, {})):
                            stop = True
                            all_ok = False
                            break
                        if not path:
                            modes = self.modes_explaining(sub, val, obs, after, j)
                            possible[j] = possible.get(j, modes) & modes
                    if stop:
                        break
                self.args_changed("DeleteContext", rec, key, snap_key, "key (%s)" % fname)
            if not path and all_ok:
                for j in sorted(possible):
                    if not possible[j]:
                        self.fail("DeleteContext(empty key):notations-disagree", rec,
                                  context=cl.decode_s(flow[j], val, {}), value_number=j, flow=flow)
                        break
        elif op == "fuw":
            key = ".".join(path)
            if c["uk"] == "simple":
                value = cl.decode_s(c["uv"], val, {}, self.rnd)
            elif c["uk"] == "bad":
                value = self.rnd.choice(BAD_TEMPLATES)
            else:
                value = cl.template_text(c["tpl"])
            snap_value = copy.deepcopy(value)
            fmt = lambda v: "{}".format(v)
            for j in range(len(flow)):
                pyctx = cl.decode_s(flow[j], val, {}, self.rnd)
                snap = copy.deepcopy(pyctx)
                special = special_for(j, pyctx, fmt)
                obs = observe(lambda: self.fns.format_update_with(key, value, pyctx))
                self.ncalls += 1
                self.args_changed("format_update_with", rec, value, snap_value, "value")
                if not self.judge("format_update_with(repeated)", group, val, special, obs, pyctx, snap,
                                  value_number=j, flow=flow, exps=self.flow_expected(group, j, val, special)):
                    break
            if hasattr(self.lena.meta, "SetContext"):
                made = observe(lambda: self.lena.meta.SetContext(key, value))
                for j in range(len(flow)):
                    pyctx = cl.decode_s(flow[j], val, {}, self.rnd)
                    snap = copy.deepcopy(pyctx)
                    special = special_for(j, pyctx, fmt)

                    def via(el=made.get("r")):
                        el._set_context(pyctx)
                        return el._get_context()
                    obs = made if not made["ok"] else observe(via)
                    self.ncalls += 1
                    if obs["ok"] and not isinstance(obs["r"], dict):
                        break
                    after = obs["r"] if obs["ok"] else pyctx
                    if not self.judge("SetContext(reused)", group, val, special, obs, after, snap, value_number=j,
                                      flow=flow, exps=self.flow_expected(group, j, val, special)):
                        break
                self.args_changed("SetContext", rec, value, snap_value, "value")

    # ------------------------------------------------------------ dispatch
    def run_group(self, group, nval):
        rec = group[0]
        op = rec["call"]["op"]
        syms = cl.symbols_s([rec["flow"], rec["ctx2"], rec["call"]["uv"]])
        self.kb = None
        pool_json = op == "tostr"
        small = cl.size(rec["ctx"]) <= 2 and len(syms) <= 1 and op != "tostr" and len(rec["flow"]) == 1
        vals = cl.valuations(syms, self.rnd, nval, systematic=small)
        uvsyms = cl.symbols_s([rec["call"]["uv"]]) if op == "update" else ()
        for val in vals:
            for sym in uvsyms:      # "a simple value (not a string)"
                while val[sym] in STRING_CLASSES or list(val.values()).count(val[sym]) > 1:
                    val[sym] = self.rnd.randrange(len(cl.PYCLASSES))
            if pool_json:
                val = dict(zip(sorted(val), self.rnd.sample(JSON_POOL, len(val))))
            if len(rec["flow"]) > 1:
                self.rp_flow(group, val)
            elif op == "get":
                self.rp_get(rec, val)
            elif op == "getd":
                self.rp_getd(group, val)
            elif op == "contains":
                self.rp_contains(rec, val)
            elif op == "s2d":
                self.rp_s2d(rec, val)
            elif op == "format":
                self.rp_format(rec, val)
            elif op == "tostr":
                self.kb = "b"
                self.rp_tostr(rec, val)
            elif op == "update":
                self.rp_update(group, val)
            elif op == "delete":
                self.rp_delete(group, val)
            elif op == "fuw":
                self.rp_fuw(group, val)
            else:
                raise core.MachineryError("unknown op %r" % (op,))


def group_records(recs):
    groups = {}
    order = []
    for rec in recs:
        k = core.canon([rec["call"], rec["flow"], rec["ctx2"]])
        if k not in groups:
            groups[k] = []
            order.append(k)
        groups[k].append(rec)
    return [groups[k] for k in order]


# ---------------------------------------------------------------- malformed arguments outside the model
def misc(ctx, fns, fails):
    def expect(name, fn, exc):
        obs = observe(fn)
        ctx.case(["misc", name])
        if obs["ok"] or obs["exc"] != exc:
            fails.add("%s:%s" % (name, obs.get("exc") or "accepted"), 0, {"expected": exc, "observed": obs})
    expect("UpdateContext(non-string subcontext)", lambda: fns.UpdateContext(["a"], 1), "LenaTypeError")
    expect("UpdateContext(non-string subcontext)", lambda: fns.UpdateContext(None, 1), "LenaTypeError")
    expect("to_string(unserializable)", lambda: fns.to_string({"a": set([1])}), "LenaValueError")
    expect("get_recursively(not a dict)", lambda: fns.get_recursively([1], "a"), "LenaTypeError")
    expect("get_recursively(bad keys)", lambda: fns.get_recursively({"a": 1}, 5), "LenaTypeError")
    expect("get_recursively(bad keys)", lambda: fns.get_recursively({"a": 1}, ["a", 1]), "LenaTypeError")
    expect("get_recursively(two keys at a level)", lambda: fns.get_recursively({"a": 1}, {"a": 1, "b": 2}),
           "LenaValueError")


# ---------------------------------------------------------------- C2S: seeded random calls
def random_trace(ctx, fns, lena, fails, n):
    rnd = random.Random(ctx.seed + 11)
    keys = ["a", "b", "c", "d"]
    leaves = []
    for _, _, ctors in cl.PYCLASSES:
        leaves.extend(ctors)
    leaves.extend([lambda: "b", lambda: "c", lambda: "y", lambda: 3, lambda: [2]])
    noopts = {"value": False, "def": False, "skip": False, "raise": False, "rec": True, "dv": "obj"}
    trace = []

    def rpath(d, lo=0, hi=4):
        """a path: mostly following the context, sometimes leaving it"""
        p = []
        cur = d
        for _ in range(rnd.randint(lo, hi)):
            if isinstance(cur, dict) and cur and rnd.random() < 0.75:
                k = rnd.choice(sorted(cur))
            else:
                k = rnd.choice(keys)
            p.append(k)
            cur = cur.get(k) if isinstance(cur, dict) else None
        return p

    def rtpl(d):
        toks = []
        for _ in range(rnd.randint(0, 3)):
            if rnd.random() < 0.35:
                toks.append({"t": "lit", "s": rnd.choice(["_", "x", "-", ":", "!"]), "p": [], "cv": ""})
            else:
                toks.append({"t": "fld", "s": "", "p": rpath(d, 1, 3), "cv": ""})
        return toks

    for _ in range(n):
        d = cl.random_dict(rnd, keys, 3, leaves, p_nest=0.4)
        snap = copy.deepcopy(d)
        dflt = Default()
        enc = cl.EncoderS([(dflt, cl.DEFAULT_LEAF)], by_eq=True)
        call = {"op": "", "path": [], "dflt": False, "tpl": [], "uk": "none", "uv": cl.EMPTY, "o": dict(noopts), "lvl": 0}
        x = rnd.random()
        rs = cl.EMPTY
        reuse = None        # (element, pristine copy of a simple update value)
        try:
            if x < 0.06:
                # a key dictionary, possibly with two keys at some level or ending in a non-string
                call["op"], call["path"], call["dflt"] = "getd", rpath(d, 1, 4), rnd.random() < 0.4
                call["uk"] = rnd.choice(["kd-empty", "kd-nonstr"] + (["kd-str"] if len(call["path"]) >= 2 else []))
                nlev = len(call["path"]) - (1 if call["uk"] == "kd-str" else 0)
                call["lvl"] = rnd.randint(0, nlev) if rnd.random() < 0.6 else 0
                what, k = rnd.choice(Replay.key_dicts(None, call))
                before = enc.enc(snap)
                obs = observe(lambda: fns.get_recursively(d, k, dflt) if call["dflt"] else fns.get_recursively(d, k))
            elif x < 0.12:
                # one formatter, several contexts
                call["op"], call["uk"], call["tpl"] = "format", "str", rtpl(d)
                for t in call["tpl"]:
                    if t["t"] == "fld" and rnd.random() < 0.3:
                        t["cv"] = rnd.choice(["r", "s"])
                text = cl.template_text(call["tpl"])
                fmt = fns.format_context(text)
                toks = [{"t": "lit", "s": t["s"]} if t["t"] == "lit" else {"t": "val"} for t in call["tpl"]]
                for again in range(3):
                    d2 = copy.deepcopy(snap)
                    if again:
                        for k in rnd.sample(keys, 2):
                            if rnd.random() < 0.5:
                                d2.pop(k, None)
                            else:
                                d2[k] = rnd.choice(leaves)() if rnd.random() < 0.5 else cl.random_dict(rnd, keys, 2, leaves)
                    snap2 = copy.deepcopy(d2)
                    enc2 = cl.EncoderS()
                    before2 = enc2.enc(snap2)
                    o2 = observe(lambda: fmt(d2))
                    out2 = {"ok": True, "r": enc2.enc(o2["r"])} if o2["ok"] else {"ok": False, "exc": o2["exc"]}
                    rs2 = enc2.enc(render(toks, snap2, call["tpl"], lambda v: "{}".format(v)))
                    trace.append({"call": copy.deepcopy(call), "ctx": before2, "out": out2, "post": enc2.enc(d2),
                                  "rs": rs2})
                continue
            elif x < 0.2:
                call["op"], call["path"], call["dflt"] = "get", rpath(d), rnd.random() < 0.4
                name, k = rnd.choice(cl.key_notations(call["path"]))
                before = enc.enc(snap)
                obs = observe(lambda: fns.get_recursively(d, k, dflt) if call["dflt"] else fns.get_recursively(d, k))
            elif x < 0.35:
                call["op"], call["path"] = "contains", rpath(d, 1, 4)
                before = enc.enc(snap)
                obs = observe(lambda: fns.contains(d, ".".join(call["path"])))
            elif x < 0.65:
                call["op"], call["path"] = "update", rpath(d, 1, 4)
                o = call["o"]
                o["rec"] = rnd.random() < 0.6
                kind = rnd.random()
                kwargs = {} if o["rec"] else {"recursively": False}
                if kind < 0.3:
                    call["uk"] = "simple"
                    upd = rnd.choice(leaves)() if rnd.random() < 0.5 else cl.random_dict(rnd, keys, 2, leaves)
                    if isinstance(upd, str):
                        upd = 7
                else:
                    call["uk"] = "str"
                    if kind < 0.65:
                        call["tpl"] = [{"t": "fld", "s": "", "p": rpath(d, 1, 3), "cv": ""}]
                        o["value"] = True
                        kwargs["value"] = True
                        opt = rnd.choice(["def", "skip", "none", "none"])
                    else:
                        call["tpl"] = rtpl(d)
                        opt = rnd.choice(["skip", "raise", "none", "none"])
                    if opt == "def":
                        o["def"] = True
                        kwargs["default"] = dflt
                    elif opt == "skip":
                        o["skip"] = True
                        kwargs["skip_on_missing"] = True
                    elif opt == "raise":
                        o["raise"] = True
                        kwargs["raise_on_missing"] = True
                    upd = cl.template_text(call["tpl"])
                    rs_py = render([{"t": "lit", "s": t["s"]} if t["t"] == "lit" else {"t": "val"} for t in call["tpl"]],
                                   snap, call["tpl"], str)
                before = enc.enc(snap)
                if call["uk"] == "simple":
                    call["uv"] = enc.enc(copy.deepcopy(upd))
                else:
                    rs = enc.enc(rs_py)
                made = observe(lambda: fns.UpdateContext(".".join(call["path"]), upd, **kwargs))
                obs = made if not made["ok"] else observe(lambda: made["r"]((["data"], d)))
                if made["ok"]:
                    reuse = (made["r"], copy.deepcopy(upd))
                if obs["ok"]:
                    obs["r"] = obs["r"][1]
            elif x < 0.82:
                call["op"], call["path"] = "delete", rpath(d, 1, 4)
                key = rnd.choice([list(call["path"]), tuple(call["path"]), ".".join(call["path"])])
                before = enc.enc(snap)
                made = observe(lambda: fns.DeleteContext(key))
                obs = made if not made["ok"] else observe(lambda: made["r"]((["data"], d)))
                if made["ok"]:
                    reuse = (made["r"], None)
                if obs["ok"]:
                    obs["r"] = obs["r"][1]
            else:
                call["op"], call["path"] = "fuw", rpath(d, 0 if rnd.random() < 0.05 else 1, 4)
                if rnd.random() < 0.5:
                    call["uk"] = "simple"
                    upd = rnd.choice(leaves)() if rnd.random() < 0.5 else cl.random_dict(rnd, keys, 2, leaves)
                    if isinstance(upd, str) and "{" in upd:
                        upd = 7
                    before = enc.enc(snap)
                    call["uv"] = enc.enc(copy.deepcopy(upd))
                else:
                    call["uk"] = "str"
                    call["tpl"] = rtpl(d)
                    upd = cl.template_text(call["tpl"])
                    rs_py = render([{"t": "lit", "s": t["s"]} if t["t"] == "lit" else {"t": "val"} for t in call["tpl"]],
                                   snap, call["tpl"], lambda v: "{}".format(v))
                    before = enc.enc(snap)
                    rs = enc.enc(rs_py)

                def do_fuw():
                    fns.format_update_with(".".join(call["path"]), upd, d)
                    return d
                obs = observe(do_fuw)
        except Exception as exc:     # noqa
            raise core.MachineryError("random trace driver failed: %r" % (exc,))
        if cl.has_cycle(d) or (obs["ok"] and cl.has_cycle(obs["r"])):
            fails.add("%s:context-contains-itself" % trace_key({"call": call, "out": {"ok": True}}).split(":")[0],
                      10 ** 6, {"call": call, "context": snap})
            continue
        if obs["ok"]:
            r = obs["r"]
            out = {"ok": True, "r": bool(r) if call["op"] == "contains" else enc.enc(r)}
        else:
            out = {"ok": False, "exc": obs["exc"]}
        trace.append({"call": call, "ctx": before, "out": out, "post": enc.enc(d), "rs": rs})
        # the same element instance on further values (an equal one, a changed one)
        for again in range(2 if reuse else 0):
            el, pristine = reuse
            d2 = copy.deepcopy(snap)
            if again == 1 or rnd.random() < 0.5:
                for k in rnd.sample(keys, 2):
                    if rnd.random() < 0.5:
                        d2.pop(k, None)
                    else:
                        d2[k] = rnd.choice(leaves)() if rnd.random() < 0.5 else cl.random_dict(rnd, keys, 2, leaves)
            snap2 = copy.deepcopy(d2)
            enc2 = cl.EncoderS([(dflt, cl.DEFAULT_LEAF)], by_eq=True)
            before2 = enc2.enc(snap2)
            call2 = copy.deepcopy(call)
            rs2 = cl.EMPTY
            if call["op"] == "update" and call["uk"] == "simple":
                call2["uv"] = enc2.enc(pristine)
            elif call["op"] == "update":
                rs2 = enc2.enc(render([{"t": "lit", "s": t["s"]} if t["t"] == "lit" else {"t": "val"}
                                       for t in call["tpl"]], snap2, call["tpl"], str))
            obs2 = observe(lambda: el((["data"], d2)))
            if cl.has_cycle(d2):
                fails.add("%s:context-contains-itself" % trace_key({"call": call, "out": {"ok": True}}).split(":")[0],
                          10 ** 6, {"call": call, "context": snap2})
                break
            out2 = {"ok": True, "r": enc2.enc(obs2["r"][1])} if obs2["ok"] else {"ok": False, "exc": obs2["exc"]}
            trace.append({"call": call2, "ctx": before2, "out": out2, "post": enc2.enc(d2), "rs": rs2})
    return trace


def corrupt(r):
    """put a recorded result under another key"""
    if r["call"]["op"] in ("update", "fuw") and r["out"]["ok"] and r["post"]["m"] and r["post"] != r["ctx"]:
        m = dict(r["post"]["m"])
        k = sorted(m)[0]
        m["zz"] = m.pop(k)
        post = {"k": "D", "m": m}
        return dict(r, post=post, out={"ok": True, "r": post})
    return None


def repo_trace(ctx):
    """run the repository's tests under the recorder plugin; return the recorded calls"""
    out = os.path.join(ctx.workdir, "repo_calls.json")
    env = dict(os.environ)
    env["LENAVERIF_RECORD"] = out
    env["LENAVERIF_RECORD_SET"] = "c08"
    env["PYTHONPATH"] = core.VERIF + os.pathsep + ctx.repo + os.pathsep + env.get("PYTHONPATH", "")
    cmd = [sys.executable, "-m", "pytest", "-q", "-p", "no:cacheprovider", "-p", "lenaverif.ctxrecorder",
           "--no-header", "-o", "addopts=", os.path.join(ctx.repo, "tests")]
    try:
        subprocess.run(cmd, cwd=ctx.repo, env=env, stdout=subprocess.PIPE, stderr=subprocess.STDOUT, timeout=600)
    except subprocess.TimeoutExpired:
        return []
    if not os.path.exists(out):
        return []
    with open(out) as f:
        return json.load(f)


def trace_key(r):
    c = r["call"]
    what = {"get": "get_recursively", "getd": "get_recursively(key dictionary)", "format": "format_context",
            "contains": "contains", "update": "UpdateContext",
            "delete": "DeleteContext", "fuw": "format_update_with"}.get(c["op"], c["op"])
    got = "returned" if r["out"]["ok"] else r["out"]["exc"]
    return "%s:%s" % (what, got)


def run(ctx):
    import lena
    import lena.context as fns
    import lena.flow      # noqa  (update_context.py uses lena.flow without importing it)
    import lena.meta      # noqa
    tag = "thorough" if ctx.thorough else "quick"
    ctx.assume("leaves are used through ==, str() and format(); symbolic classes c0, c1 are instantiated by "
               "Python values of distinct equality classes whose str() is not a key; kb is the string 'b'")
    ctx.assume("dotted strings with empty components are not compared for get_recursively and contains "
               "(documented as undefined); contains('') likewise")
    ctx.assume("DeleteContext with an empty key: any of unchanged / emptied context / LenaValueError / "
               "LenaTypeError is accepted (not documented), but it must be the same in every notation of the "
               "empty key ('', [], ()) - the notations address the same item")
    ctx.assume("rendered strings: the specification supplies the sequence of literals and values, the harness "
               "concatenates str(value) (jinja2) / format(value) (format_context)")
    rnd = random.Random(ctx.seed)
    tmod, tcfg = "Trace_ContextOps", "Trace_ContextOps.cfg"
    # the context may be an instance of a dictionary subclass (lena.context.Context, a plain subclass)
    cl.CTX_CLASSES[:] = [dict, dict, dict, cl.MyDict]
    try:
        probe = copy.deepcopy(fns.Context({"a": fns.Context({"b": 1})}))
        if type(probe) is fns.Context and probe == {"a": {"b": 1}}:
            cl.CTX_CLASSES.append(fns.Context)
    except Exception:    # noqa
        pass
    rp = Replay(ctx, fns, lena, rnd)

    def repo_job():
        rtrace = repo_trace(ctx)
        return rtrace, (ctx.validate(tmod, tcfg, rtrace, label="repo") if rtrace else 0)

    with cl.Jobs(ctx, max_workers=10) as jobs:
        f_mc = jobs.submit(ctx.mc, "ContextOps", "ContextOps_%s.cfg" % tag, coverage=True,
                           must_cover=[a for a in ACTIONS if a != "S2D"])
        f_laws = jobs.submit(ctx.mc, "ContextOps", "ContextOps_%s_laws.cfg" % tag)
        f_make = jobs.submit(ctx.mc, "ContextOps", "ContextOps_make.cfg", coverage=True, must_cover=("UMake", "S2D"))
        # elements applied to a flow of three values: stateless, every outcome a function of (config, value)
        f_flow = jobs.submit(ctx.mc, "ContextOps", "ContextOps_%s_flow.cfg" % tag, coverage=True,
                             must_cover=("NextValue", "USet", "DDel", "WUpdate"))
        exports = [jobs.submit(ctx.export, "ContextOps", "ContextOps_unprintable.cfg", min_records=10),
                   jobs.submit(ctx.export, "ContextOps", "ContextOps_make_export.cfg", min_records=100),
                   jobs.submit(ctx.export, "ContextOps", "ContextOps_%s_flow_export.cfg" % tag, min_records=1000),
                   jobs.submit(ctx.export, "ContextOps", "ContextOps_%s_export.cfg" % tag, min_records=1000)]
        f_repo = jobs.submit(repo_job)
        deep_index = -1
        trace = random_trace(ctx, fns, lena, rp.fails, 20000 if ctx.thorough else 3000)
        f_trace = jobs.submit(ctx.validate, tmod, tcfg, trace)
        f_demo = jobs.submit(ctx.binding_demo, tmod, tcfg, trace, corrupt)
        if ctx.thorough:
            deep_index = len(exports)
            exports.append(jobs.submit(ctx.export, "ContextOps", "ContextOps_thorough_deep_export.cfg",
                                       min_records=1000))

            def more():
                f_mc.result()
                f_laws.result()
                ctx.mc("ContextOps", "ContextOps_thorough_deep.cfg")     # depth-3 contexts
                ctx.mc("ContextOps", "ContextOps_thorough_wide.cfg")     # three keys (design level only)
            f_more = jobs.submit(more)
        misc(ctx, fns, rp.fails)
        nval = 2
        for fi, fut in enumerate(exports):
            recs = fut.result()
            stride = 2 if (ctx.thorough and fi == deep_index) else 1
            ctx.sample({"spec_behaviour": recs[(2 * len(recs)) // 3]})
            for gi, group in enumerate(group_records(recs)):
                if stride > 1 and (gi + ctx.seed) % stride:
                    continue            # sampled, not exhausted
                # quick tier: one valuation for the flow scenarios (each already runs two elements over three values)
                rp.run_group(group, 1 if (not ctx.thorough and len(group[0]["flow"]) > 1) else nval)
                rec = group[0]
                ctx.case([rec["call"], rec["flow"], rec["ctx2"]],
                         nontrivial=bool(cl.items(rec["ctx"])) or rec["call"]["op"] in ("s2d", "update"))
            del recs
        ctx.extra["implementation_calls_s2c"] = rp.ncalls
        rp.fails.report(ctx)
        f_mc.result()
        f_laws.result()
        f_make.result()
        f_flow.result()
        cl.account_trace(ctx, tmod, trace, f_trace.result(), trace_key)
        f_demo.result()
        if ctx.thorough:
            f_more.result()
        rtrace, racc = f_repo.result()
        ctx.extra["repo_suite_calls_recorded"] = len(rtrace)
        cl.account_trace(ctx, tmod, rtrace, racc, lambda r: "repo-suite:" + trace_key(r))
    return ctx.finish(
        rule="S2C: every (call, context) of the bounded ContextOps model - all key paths up to length 3 (4) "
             "present / absent / through a scalar / with empty components, templates of 0..2 (3) tokens, the "
             "option matrix of UpdateContext - executed under several valuations of the leaf classes and in "
             "every key notation; non-trivial = non-empty context (or a constructor / str_to_dict case); "
             "C2S: seeded random contexts (depth 3, 4 keys) and calls, and the calls of the repository's "
             "test-suite, validated by Trace_ContextOps",
        exhaustive=True)
