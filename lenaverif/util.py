"""Small helpers shared by the replay harnesses."""
import copy


def exc_name(exc):
    """Exact class name for LenaException subclasses, 'Other:<name>' otherwise."""
    try:
        import lena.core
        if isinstance(exc, lena.core.LenaException):
            return type(exc).__name__
    except Exception:   # noqa
        pass
    return "Other:" + type(exc).__name__


class CountingIter(object):
    """Input iterator that counts pulls (finite: values 0..n-1 or a given list; n=None: infinite)."""

    def __init__(self, n=None, values=None, make=None):
        self.pulled = 0
        self.n = n if values is None else len(values)
        self.values = values
        self.make = make

    def __iter__(self):
        return self

    def __next__(self):
        if self.n is not None and self.pulled >= self.n:
            raise StopIteration
        i = self.pulled
        self.pulled += 1
        v = self.values[i] if self.values is not None else i
        return self.make(v) if self.make else v
    next = __next__


def snapshot(obj):
    return copy.deepcopy(obj)


def reach_ids(obj, acc=None):
    """ids of mutable containers (dict/list/set) reachable from obj."""
    if acc is None:
        acc = {}
    if isinstance(obj, (dict, list, set)):
        if id(obj) in acc:
            return acc
        acc[id(obj)] = obj
        it = obj.values() if isinstance(obj, dict) else obj
        for x in it:
            reach_ids(x, acc)
    elif isinstance(obj, tuple):
        for x in obj:
            reach_ids(x, acc)
    elif hasattr(obj, "__dict__") and not isinstance(obj, type):
        if id(obj) not in acc:
            acc[id(obj)] = obj
            reach_ids(vars(obj), acc)
    return acc
