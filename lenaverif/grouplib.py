"""Harness side of spec/Grouping.tla: members <-> real histograms / graphs, harness sequences,
decoding of what the real elements yield.

A member record is {"id": position, "k": "hist"|"graph"|"num", "s": scale (-1: graph without a scale,
0: zero scale), "c": context (Dict/Leaf encoding of sellib), "h": comes as a (data, context) pair}.
Real objects: hist -> histogram([id, id + 1], [s]) (scale = s), graph -> graph([[id, id + 1], [1, 2]],
scale=s or None), num -> 1000 + id (no scale method).
"""
import collections
import copy

from . import sellib as sl

NUM0 = 1000


# ------------------------------------------------------------------ members
def make_data(m):
    import lena.structures as ls
    i, s = m["id"], m["s"]
    if m["k"] == "hist":
        return ls.histogram([i, i + 1], [s])
    if m["k"] == "graph":
        return ls.graph([[i, i + 1], [1, 2]], scale=None if s == -1 else s)
    return NUM0 + i


def make_value(m):
    data = make_data(m)
    if m["h"]:
        return (data, sl.dec_ctx(m["c"]))
    return data


def ctx_of(m):
    return m["c"] if m["h"] else sl.enc_ctx({})


def read_data(data):
    """Real data -> (id, scale)."""
    import lena.structures as ls
    if isinstance(data, ls.histogram):
        s = data.scale(recompute=True)
        return int(round(data.edges[0])), _num(s)
    if isinstance(data, ls.graph):
        s = data.scale()
        return int(round(data.coords[0][0])), (-1 if s is None else _num(s))
    if isinstance(data, int) and not isinstance(data, bool):
        return data - NUM0, 0
    raise ValueError("unexpected data %r" % (data,))


def _num(x):
    r = round(x)
    return int(r) if abs(x - r) < 1e-9 else x


def inc_data(data):
    """The same plot with its id shifted by 100."""
    import lena.structures as ls
    if isinstance(data, ls.histogram):
        return ls.histogram([e + 100 for e in data.edges], copy.deepcopy(data.bins))
    if isinstance(data, ls.graph):
        coords = [[x + 100 for x in data.coords[0]]] + [list(c) for c in data.coords[1:]]
        return ls.graph(coords, scale=data.scale())
    return data + 100


def kind_of(value):
    import lena.flow
    import lena.structures as ls
    data = lena.flow.get_data(value)
    if isinstance(data, ls.histogram):
        return "hist"
    if isinstance(data, ls.graph):
        return "graph"
    return "num"


class Seq(object):
    """Harness sequence applied to single members (SeqRes in GroupingSem.tla)."""

    def __init__(self, kind):
        self.kind = kind

    def run(self, flow):
        import lena.flow
        for value in flow:
            data, ctx = lena.flow.get_data_context(value)
            pair = isinstance(value, tuple) and len(value) == 2 and value[1] is ctx
            wrap = (lambda d, c: (d, c)) if pair else (lambda d, c: d)
            k = self.kind
            if k == "id":
                yield value
            elif k == "inc":
                yield wrap(inc_data(data), ctx)
            elif k == "tag":
                c = copy.deepcopy(ctx)
                c["t"] = 1
                yield (data, c)
            elif k == "setb":
                yield (data, {"b": 2})
            elif k == "chgT":
                yield (data, {"output": {"changed": True}})
            elif k == "chgF":
                yield (data, {"output": {"changed": False}})
            elif k == "dup":
                yield value
                yield wrap(inc_data(data), copy.deepcopy(ctx))
            elif k == "drop":
                continue
            elif k == "odd":
                yield value
                if read_data(data)[0] % 2 == 0:
                    yield wrap(inc_data(data), copy.deepcopy(ctx))
            else:
                raise ValueError(k)


class Inner(object):
    """Inner sequence of DropContext: works on data; records whether it ever saw a context."""

    def __init__(self, kind):
        self.kind = kind
        self.saw_context = False

    def run(self, flow):
        for data in flow:
            if isinstance(data, tuple):
                self.saw_context = True
            k = self.kind
            if k == "inc":
                yield data + 100
            elif k == "dup":
                yield data
                yield data + 100
            elif k == "drop":
                continue
            elif k == "even":
                if (data - NUM0) % 2 == 0:
                    yield data
            elif k == "addc":
                yield (data, {"new": 1})
            else:
                raise ValueError(k)


# ------------------------------------------------------------------ decoding
def dec_val_item(x):
    import lena.flow
    data, ctx = lena.flow.get_data_context(x)
    i, s = read_data(data)
    return {"o": "val", "id": i, "s": s, "c": sl.enc_ctx(ctx)}


def is_group(x):
    return (isinstance(x, tuple) and len(x) == 2 and isinstance(x[1], dict) and "group" in x[1]
            and isinstance(x[0], list))


def dec_group(x):
    data, ctx = x
    members = [dict(zip(("id", "s"), read_data(d))) for d in data]
    common = {k: v for k, v in ctx.items() if k != "group"}
    return {"members": members, "common": sl.enc_ctx(common), "group": [sl.enc_ctx(c) for c in ctx["group"]]}


def norm(x):
    """TLC prints an empty function / sequence as []: bring both sides to one form."""
    if isinstance(x, dict):
        if x.get("k") == "D":
            m = x["m"]
            return {"k": "D", "m": {} if (isinstance(m, list) and not m) else {k: norm(v) for k, v in m.items()}}
        return {k: norm(v) for k, v in x.items()}
    if isinstance(x, list):
        return [norm(v) for v in x]
    return x


def exc_name(exc):
    import lena.core
    if isinstance(exc, lena.core.LenaException):
        return type(exc).__name__
    return "Other:" + type(exc).__name__


# ------------------------------------------------------------------ real elements
def make_groupplots(cfg):
    import warnings
    import lena.flow
    import lena.structures as ls
    gb = kind_of if cfg["gb"] == "type" else "{{k}}"
    sel = {"all": None, "ctx": "sel", "hist": ls.histogram}[cfg["sel"]]
    scale = {"none": None, "num": 4, "ref": "ref"}[cfg["scale"]]
    tr = () if cfg["tr"] == "id" else (Seq(cfg["tr"]),)
    with warnings.catch_warnings():
        warnings.simplefilter("ignore")
        return lena.flow.GroupPlots(gb, select=sel, transform=tr, scale=scale, yield_selected=cfg["ys"])


def run_collect(gen):
    out, status = [], "done"
    try:
        for x in gen:
            out.append(x)
    except Exception as exc:   # noqa
        status = exc_name(exc)
    return out, status


SECOND = {"dict": lambda: {"a": 1}, "subdict": lambda: collections.OrderedDict(a=1), "list": lambda: [1],
          "none": lambda: None, "int": lambda: 5, "str": lambda: "s"}


def make_shape(sh):
    items = ["first"]
    if sh["len"] >= 2:
        items.append(SECOND[sh["second"]]())
    if sh["len"] >= 3:
        items.append("third")
    items = items[:sh["len"]]
    return tuple(items) if sh["tuple"] else list(items)


# ------------------------------------------------------------------ generators (C2S)
def random_ctx(rnd):
    c = {}
    if rnd.random() < 0.8:
        c["k"] = rnd.choice(["A", "B", "C"])
    if rnd.random() < 0.6:
        c["sel"] = 1
    if rnd.random() < 0.2:
        c["ref"] = 1
    if rnd.random() < 0.5:
        c["output"] = {"changed": rnd.random() < 0.4}
        if rnd.random() < 0.3:
            c["output"]["filename"] = rnd.choice(["f", "g"])
    if rnd.random() < 0.5:
        c["n"] = {"x": 1}
        if rnd.random() < 0.5:
            c["n"]["y"] = rnd.choice([1, 2])
    if rnd.random() < 0.3:
        c["v"] = rnd.choice([1, 2, "1"])
    return c


def random_member(rnd, i):
    k = rnd.choice(["hist", "hist", "graph", "num"])
    if k == "hist":
        s = rnd.choice([0, 1, 2, 3, 4, 8])
    elif k == "graph":
        s = rnd.choice([-1, 0, 1, 2, 4, 6])
    else:
        s = 0
    h = rnd.random() < 0.85
    return {"id": i, "k": k, "s": s, "c": sl.enc_ctx(random_ctx(rnd) if h else {}), "h": h}
