"""A stand-in for the ROOT package (PyROOT) with exactly the classes and methods that lena's ROOT elements
call: TFile, TKey, TTree, TBranch, TGraphErrors, nullptr.  Every call is recorded in LOG.

The "disk" is the dictionary DISK: path -> list of (name, cycle, object), newest cycle first (the order of
TFile::GetListOfKeys).  Nothing touches the real file system.

Modelled ROOT behaviour (as far as lena relies on it):
  TFile(path, option)   option is case-insensitive, default "" = "read"; "read" of a missing file raises OSError
                        (PyROOT >= 6.22; older versions return a zombie); "recreate" replaces the file, "update"
                        opens or creates it, "new"/"create" refuse an existing file (IsOpen() is then False)
  TFile.Get(name)       the object of the highest cycle, or a null (falsy) object
  TFile.Close()         the file's objects are destroyed (obj.alive = False)
  TTree                 reading: GetListOfBranches (TBranch.GetName / GetTitle = leaf list), SetBranchStatus,
                        iteration yields the tree itself once per entry, leaves are attributes; an attribute is
                        looked up as a branch name first (a branch of one leaf of the same name gives the leaf),
                        then as the first leaf of that name (TTree::GetLeaf);
                        a leaf of a disabled branch is not read (the value is the marker "stale")
                        writing: Branch(name, array, leaflist), Fill() snapshots the arrays, SetDirectory
  TGraphErrors(n, x, y, ex, ey)   copies the arrays; a null pointer gives zeros
"""
import sys
import types

LOG = []
DISK = {}


def reset(disk=None):
    del LOG[:]
    DISK.clear()
    if disk:
        DISK.update(disk)


def log(*ev):
    LOG.append(list(ev))


class _Null(object):
    def __bool__(self):
        return False
    __nonzero__ = __bool__

    def __repr__(self):
        return "nullptr"


nullptr = _Null()


class TObject(object):
    def __init__(self, name=""):
        self._name = name
        self.alive = True

    def GetName(self):
        return self._name


class Obj(TObject):
    """any object stored in a file (histogram, graph ...): identified by file, name, cycle"""

    def __init__(self, path, name, cycle):
        TObject.__init__(self, name)
        self.ident = (path, name, cycle)

    def __repr__(self):
        return "Obj%r" % (self.ident,)


class TKey(TObject):
    def __init__(self, name, cycle):
        TObject.__init__(self, name)
        self._cycle = cycle

    def GetCycle(self):
        return self._cycle


class TFile(TObject):
    def __init__(self, path, option="", *args):
        TObject.__init__(self, path)
        opt = option.lower() or "read"
        self.path, self.option, self.open = path, opt, False
        log("TFile", path, option)
        if opt == "read":
            if path not in DISK:
                raise OSError("Failed to open file %s" % path)
            self.open = True
        elif opt == "recreate":
            DISK[path] = []
            self.open = True
        elif opt == "update":
            DISK.setdefault(path, [])
            self.open = True
        elif opt in ("new", "create"):
            if path not in DISK:
                DISK[path] = []
                self.open = True
        else:
            raise ValueError("unknown option %r" % option)
        self._handed_out = []

    def IsOpen(self):
        log("IsOpen", self.path)
        return self.open

    def GetListOfKeys(self):
        log("GetListOfKeys", self.path)
        return [TKey(n, c) for n, c, _o in DISK[self.path]]

    def Get(self, name):
        log("Get", self.path, name)
        if not self.open:
            return nullptr
        best = None
        for n, c, o in DISK[self.path]:
            if n == name and (best is None or c > best[0]):
                best = (c, o)
        if best is None:
            return nullptr
        obj = best[1]
        if isinstance(obj, Obj):          # every opening of the file reads its own copy of the object
            obj = Obj(*obj.ident)
        self._handed_out.append(obj)
        return obj

    def WriteTObject(self, obj, *args):
        log("WriteTObject", self.path, obj.GetName(), self.open)
        if self.open and self.option != "read":
            cycles = [c for n, c, _o in DISK[self.path] if n == obj.GetName()]
            DISK[self.path].insert(0, (obj.GetName(), max(cycles + [0]) + 1, obj))

    def Close(self, *args):
        log("Close", self.path)
        self.open = False
        for o in self._handed_out:
            o.alive = False


class TBranch(TObject):
    def __init__(self, name, leaves):
        TObject.__init__(self, name)
        self.leaves = list(leaves)

    def GetTitle(self):
        # the leaf list, as TTree::Branch stores it: "x/D:y/D"
        return ":".join("%s/D" % lf for lf in self.leaves)


class TTree(TObject):
    def __init__(self, name="", title="", branches=None, nentries=0):
        TObject.__init__(self, name)
        log("TTree", name, title)
        self.branches = [TBranch(b, lfs) for b, lfs in (branches or [])]
        self.nentries = nentries
        self.status = dict((b.GetName(), 1) for b in self.branches)
        self.entry = -1
        # writing
        self.directory = None
        self.wbranches = []
        self.filled = []

    # ---- reading
    def GetListOfBranches(self):
        return list(self.branches)

    def SetBranchStatus(self, name, status):
        log("SetBranchStatus", self.GetName(), name, status)
        if name == "*":
            for b in self.status:
                self.status[b] = status
        else:
            if name not in self.status:
                raise KeyError(name)
            self.status[name] = status

    def __iter__(self):
        for j in range(self.nentries):
            self.entry = j
            log("GetEntry", self.GetName(), j, sorted(b for b in self.status if self.status[b]))
            yield self
        self.entry = -1

    def __getattr__(self, name):
        if name.startswith("_") or name in ("branches", "status", "entry", "nentries"):
            raise AttributeError(name)
        branches = self.__dict__.get("branches", [])
        for b in branches:
            if b.GetName() == name:
                if b.leaves == [name]:         # a branch of one leaf of the same name reads as that leaf
                    break
                return ("branch", name, self.entry)
        for b in branches:
            if name in b.leaves:
                if not self.status[b.GetName()]:
                    return ("stale", b.GetName(), name)
                return (b.GetName(), name, self.entry)
        raise AttributeError(name)

    # ---- writing
    def SetDirectory(self, directory):
        log("SetDirectory", self.GetName(), getattr(directory, "path", None))
        self.directory = directory

    def Branch(self, name, address, leaflist):
        log("Branch", self.GetName(), name, leaflist, address.typecode)
        self.wbranches.append((name, address, leaflist))

    def Fill(self):
        vals = [addr[0] for _n, addr, _l in self.wbranches]
        log("Fill", self.GetName(), vals)
        self.filled.append(vals)
        return 1


class TGraphErrors(TObject):
    def __init__(self, n, xs, ys, exs=nullptr, eys=nullptr):
        TObject.__init__(self, "Graph")
        zeros = [0.0] * n
        self.n = n
        self.x, self.y = list(xs), list(ys)
        self.ex = list(exs) if exs is not nullptr and exs is not None else zeros[:]
        self.ey = list(eys) if eys is not nullptr and eys is not None else zeros[:]
        log("TGraphErrors", n, self.x, self.y, None if exs is nullptr else list(exs),
            None if eys is nullptr else list(eys), getattr(xs, "typecode", None))

    def GetN(self):
        return self.n

    def GetX(self):
        return self.x

    def GetY(self):
        return self.y

    def GetEX(self):
        return self.ex

    def GetEY(self):
        return self.ey


def install():
    """Make `import ROOT` find this module's classes."""
    mod = types.ModuleType("ROOT")
    for name in ("TFile", "TKey", "TTree", "TBranch", "TGraphErrors", "TObject", "nullptr"):
        setattr(mod, name, globals()[name])
    sys.modules["ROOT"] = mod
    return mod
