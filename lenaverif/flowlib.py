"""Stage descriptors of spec/Flow.tla -> real lena elements; projection of real values
onto the abstract values of the spec."""
import contextlib
import io
import itertools
import random
import signal

NONE = -1000


def _n(x):
    return None if x == NONE else x


def has_ctx(v):
    return isinstance(v, tuple) and len(v) == 2 and isinstance(v[1], dict)


def data_of(v):
    return v[0] if has_ctx(v) else v


BRANCH_NEST = [0]   # grouping used for Sequence-object branches of a Split (see build_stage "seqsum")
NONE_D = -999    # spec/FlowSem.tla NoneD: the data value None


def num(d):
    return NONE_D if d is None else d


def project(v):
    """Real flow value -> {d, c (sorted marks), h}."""
    h = has_ctx(v)
    d, ctx = (v[0], v[1]) if h else (v, {})
    d = num(d)
    marks = []
    for k in ctx:
        if k == "count":
            marks.append("count=%d" % ctx[k])
        else:
            marks.append(str(k))
    return {"d": d, "c": sorted(marks), "h": h}


def norm_spec_val(v):
    return {"d": v["d"], "c": sorted(v["c"]), "h": v["h"]}


def make_value(i, pairs):
    return (i, {}) if pairs else i


class Last(object):
    """User fill/compute element: yields the last filled value."""

    def __init__(self):
        self.has = False
        self.prev = None

    def fill(self, v):
        self.has, self.prev = True, v

    def compute(self):
        if self.has:
            yield self.prev


def _map_callable(f):
    def inc(v):
        return (num(v[0]) + 1, v[1]) if has_ctx(v) else num(v) + 1

    def dbl(v):
        return (num(v[0]) * 2, v[1]) if has_ctx(v) else num(v) * 2

    def nul(v):
        """None for odd bare data (a function called for its side effect, dict.get, re.match ...)."""
        if has_ctx(v) or num(v) % 2 == 0:
            return v
        return None

    def tag(v):
        d, c = (v[0], v[1]) if has_ctx(v) else (v, {})
        c2 = dict(c)
        c2["t"] = 1
        return (d, c2)
    return {"inc": inc, "dbl": dbl, "tag": tag, "nul": nul}[f]


def _pred(p):
    return {"even": lambda v: num(data_of(v)) % 2 == 0, "lt2": lambda v: num(data_of(v)) < 2,
            "none": lambda v: False, "all": lambda v: True}[p]


class NoRun(object):
    pass


class RunNotCallable(object):
    """has a `run` attribute that is not callable (like the None-valued method slots of lena's own adapters)"""
    run = None


class RunIsData(object):
    run = 5


def build_stage(st, pairs=True, use_context_el=False):
    """One fresh real element for a stage descriptor."""
    import lena.core, lena.flow, lena.math, lena.context, lena.variables, lena.output
    t = st["t"]
    if t == "map":
        f = st["f"]
        if f in ("inc", "dbl", "tag", "nul"):
            return _map_callable(f)
        if f == "id":
            return lena.context.Context() if (pairs and use_context_el) else lena.flow.Print(transform=lambda x: "")
        if f == "var":
            return lena.variables.Variable("x", lambda d: d + 10)
        if f == "varattr":
            # description keys named like element methods are data attributes of the variable
            return lena.variables.Variable("x", lambda d: num(d) + 10, run="2023A", fill=1, compute="c", request=0)
        if f == "upd":
            return lena.context.UpdateContext("k", 1)
        if f == "mkfn":
            return lena.output.MakeFilename("out")
    if t == "filter":
        return lena.flow.Filter(_pred(st["p"]))
    if t == "slice":
        a, b, s = _n(st["a"]), _n(st["b"]), _n(st["s"])
        return lena.flow.Slice(a, b, s)
    if t == "lagk":
        return lena.flow.Slice(-st["k"])
    if t == "lastk":
        return lena.flow.Slice(-st["k"], None)
    if t == "count":
        return lena.flow.Count()
    if t == "runif":
        inner = lena.flow.Filter(lambda v: False) if st["f"] == "drop" else _map_callable(st["f"])
        return lena.flow.RunIf(_pred(st["p"]), inner)
    if t == "reverse":
        return lena.flow.Reverse()
    if t == "end":
        return lena.flow.End()
    if t == "sum":
        return lena.math.Sum()
    if t == "last":
        return Last()
    if t == "seqsum":
        # the branch (f, Sum()) as a Sequence object, in one of its groupings into nested Sequences
        f, acc = _map_callable(st["f"]), lena.math.Sum()
        S = lena.core.Sequence
        return [S(f, acc), S(f, S(acc)), S(S(f), acc), S(S(f), S(S(acc)))][BRANCH_NEST[0] % 4]
    if t == "split":
        return lena.core.Split([build_stage(b, pairs, use_context_el) for b in st["brs"]], bufsize=st["bs"])
    if t == "bad":
        return {"int": 5, "str": "abc", "obj": NoRun(), "none": None, "dict": {},
                "runnone": RunNotCallable(), "rundata": RunIsData()}[st["k"]]
    raise ValueError("unknown stage %r" % (st,))


def shapes(n):
    """Bracketings of a list of n elements: nested lists of indices (a list = a nested Sequence)."""
    flat = list(range(n))
    res = [flat]
    for i in range(n):
        for j in range(i + 1, n + 1):
            res.append(flat[:i] + [flat[i:j]] + flat[j:])
    if n >= 2:
        # two levels of nesting
        res.append([[[0], flat[1:]]])
        res.append([[flat[:-1], [n - 1]]])
    if n >= 3:
        res.append([[[0, 1]], [[2]]] + flat[3:])
        res.append([0, [[1], [2]]] + flat[3:])
    res.append([[]] + flat)        # an empty nested Sequence is the identity
    res.append(flat + [[], []])
    return res


def nest(els, shape):
    import lena.core
    out = []
    for x in shape:
        if isinstance(x, list):
            out.append(lena.core.Sequence(*nest(els, x)))
        else:
            out.append(els[x])
    return out


class Watchdog(Exception):
    pass


@contextlib.contextmanager
def time_limit(seconds):
    def handler(signum, frame):
        raise Watchdog()
    old = signal.signal(signal.SIGALRM, handler)
    signal.setitimer(signal.ITIMER_REAL, seconds)
    try:
        yield
    finally:
        signal.setitimer(signal.ITIMER_REAL, 0)
        signal.signal(signal.SIGALRM, old)


@contextlib.contextmanager
def quiet():
    with contextlib.redirect_stdout(io.StringIO()):
        yield


@contextlib.contextmanager
def quiet_warnings():
    import warnings
    with warnings.catch_warnings():
        warnings.simplefilter("ignore")
        yield


# ------------------------------------------------------------------ random programs (C2S)
def random_stage(rnd, alphabet):
    k = rnd.choice(alphabet)
    if k == "map":
        return {"t": "map", "f": rnd.choice(["inc", "dbl", "tag", "var", "varattr", "upd", "mkfn", "id"])}
    if k == "filter":
        return {"t": "filter", "p": rnd.choice(["even", "lt2", "none", "all"])}
    if k == "slice":
        a = rnd.randint(0, 4)
        b = NONE if rnd.random() < 0.3 else rnd.randint(0, 8)
        return {"t": "slice", "a": a, "b": b, "s": rnd.randint(1, 3)}
    if k in ("lagk", "lastk"):
        return {"t": k, "k": rnd.randint(1, 3)}
    if k == "runif":
        return {"t": "runif", "p": rnd.choice(["even", "lt2", "all"]), "f": rnd.choice(["inc", "dbl", "drop"])}
    if k == "split":
        brs = []
        for _ in range(rnd.randint(1, 3)):
            c = rnd.choice(["map", "filter", "sum"])
            brs.append({"t": "map", "f": rnd.choice(["inc", "dbl"])} if c == "map" else
                       {"t": "filter", "p": rnd.choice(["even", "lt2"])} if c == "filter" else {"t": "sum"})
        return {"t": "split", "brs": brs, "bs": rnd.randint(1, 4)}
    return {"t": k}
